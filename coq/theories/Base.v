(** Base.v — shared vocabulary of the redress model: error classes, stop reasons,
    event names, small decidable equalities, generic correspondence helpers. *)
From Coq Require Export ZArith List Bool Lia ZifyBool.
Export ListNotations.
Open Scope Z_scope.

(** redress.errors.ErrorClass *)
Inductive klass := AUTH | PERMISSION | PERMANENT | CONCURRENCY | RATE_LIMIT | SERVER_ERROR | TRANSIENT | UNKNOWN.

Definition klass_eqb (a b : klass) : bool :=
  match a, b with
  | AUTH, AUTH | PERMISSION, PERMISSION | PERMANENT, PERMANENT | CONCURRENCY, CONCURRENCY
  | RATE_LIMIT, RATE_LIMIT | SERVER_ERROR, SERVER_ERROR | TRANSIENT, TRANSIENT | UNKNOWN, UNKNOWN => true
  | _, _ => false
  end.
Lemma klass_eqb_spec a b : reflect (a = b) (klass_eqb a b).
Proof. destruct a, b; simpl; constructor; congruence. Qed.
Lemma klass_eqb_refl a : klass_eqb a a = true.
Proof. destruct a; reflexivity. Qed.
Lemma klass_eqb_eq a b : klass_eqb a b = true <-> a = b.
Proof. destruct (klass_eqb_spec a b); split; congruence. Qed.

Definition all_klasses : list klass :=
  [AUTH; PERMISSION; PERMANENT; CONCURRENCY; RATE_LIMIT; SERVER_ERROR; TRANSIENT; UNKNOWN].

(** PERMANENT / AUTH / PERMISSION are never retried (state.py:225). *)
Definition nonretryable (k : klass) : bool :=
  match k with PERMANENT | AUTH | PERMISSION => true | _ => false end.

(** redress.errors.StopReason *)
Inductive stop :=
| S_GLOBAL | S_PERCLASS | S_DEADLINE | S_UNKNOWN | S_NONRETRY | S_NOSTRAT | S_BUDGET | S_SCHED | S_ABORT.

Definition stop_eqb (a b : stop) : bool :=
  match a, b with
  | S_GLOBAL, S_GLOBAL | S_PERCLASS, S_PERCLASS | S_DEADLINE, S_DEADLINE | S_UNKNOWN, S_UNKNOWN
  | S_NONRETRY, S_NONRETRY | S_NOSTRAT, S_NOSTRAT | S_BUDGET, S_BUDGET | S_SCHED, S_SCHED
  | S_ABORT, S_ABORT => true
  | _, _ => false
  end.
Lemma stop_eqb_spec a b : reflect (a = b) (stop_eqb a b).
Proof. destruct a, b; simpl; constructor; congruence. Qed.

(** redress.events.EventName *)
Inductive evname :=
| N_SUCCESS | N_RETRY | N_PERMANENT_FAIL | N_DEADLINE_EXCEEDED | N_MAX_ATTEMPTS_EXCEEDED
| N_MAX_UNKNOWN_ATTEMPTS_EXCEEDED | N_NO_STRATEGY_CONFIGURED | N_BUDGET_EXHAUSTED | N_SCHEDULED | N_ABORTED
| N_CIRCUIT_OPENED | N_CIRCUIT_HALF_OPEN | N_CIRCUIT_CLOSED | N_CIRCUIT_REJECTED
| N_OTHER.

Definition evname_eqb (a b : evname) : bool :=
  match a, b with
  | N_SUCCESS, N_SUCCESS | N_RETRY, N_RETRY | N_PERMANENT_FAIL, N_PERMANENT_FAIL
  | N_DEADLINE_EXCEEDED, N_DEADLINE_EXCEEDED | N_MAX_ATTEMPTS_EXCEEDED, N_MAX_ATTEMPTS_EXCEEDED
  | N_MAX_UNKNOWN_ATTEMPTS_EXCEEDED, N_MAX_UNKNOWN_ATTEMPTS_EXCEEDED
  | N_NO_STRATEGY_CONFIGURED, N_NO_STRATEGY_CONFIGURED | N_BUDGET_EXHAUSTED, N_BUDGET_EXHAUSTED
  | N_SCHEDULED, N_SCHEDULED | N_ABORTED, N_ABORTED | N_CIRCUIT_OPENED, N_CIRCUIT_OPENED
  | N_CIRCUIT_HALF_OPEN, N_CIRCUIT_HALF_OPEN | N_CIRCUIT_CLOSED, N_CIRCUIT_CLOSED
  | N_CIRCUIT_REJECTED, N_CIRCUIT_REJECTED | N_OTHER, N_OTHER => true
  | _, _ => false
  end.
Lemma evname_eqb_spec a b : reflect (a = b) (evname_eqb a b).
Proof. destruct a, b; simpl; constructor; congruence. Qed.

(** Generic boolean equalities used by the in-Coq correspondence check. *)
Definition opt_eqb {A} (eqb : A -> A -> bool) (a b : option A) : bool :=
  match a, b with
  | None, None => true
  | Some x, Some y => eqb x y
  | _, _ => false
  end.
Fixpoint list_eqb {A} (eqb : A -> A -> bool) (a b : list A) : bool :=
  match a, b with
  | [], [] => true
  | x :: r, y :: s => eqb x y && list_eqb eqb r s
  | _, _ => false
  end.

Lemma opt_eqb_spec {A} (eqb : A -> A -> bool) :
  (forall x y, reflect (x = y) (eqb x y)) -> forall a b, reflect (a = b) (opt_eqb eqb a b).
Proof.
  intros H [x|] [y|]; simpl; try (constructor; congruence).
  destruct (H x y); constructor; congruence.
Qed.
Lemma list_eqb_spec {A} (eqb : A -> A -> bool) :
  (forall x y, reflect (x = y) (eqb x y)) -> forall a b, reflect (a = b) (list_eqb eqb a b).
Proof.
  intros H a. induction a as [|x r IH]; intros [|y s]; simpl; try (constructor; congruence).
  destruct (H x y); simpl; [|constructor; congruence].
  destruct (IH s); constructor; congruence.
Qed.

(** [failing chk cases] = indices of the cases on which [chk] is false.  The generated
    [cases_*.v] files evaluate this with [vm_compute]; the harness expects [[]]. *)
Fixpoint failing_from {A} (chk : A -> bool) (n : nat) (l : list A) : list nat :=
  match l with
  | [] => []
  | c :: r => (if chk c then [] else [n]) ++ failing_from chk (S n) r
  end.
Definition failing {A} (chk : A -> bool) (l : list A) : list nat := failing_from chk 0%nat l.

Definition nth_d {A} (l : list A) (d : A) (i : nat) : A := nth i l d.
