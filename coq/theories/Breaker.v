(** Breaker.v — executable model of redress/circuit.py (CircuitBreaker) and its history-based
    specification.  Model only; proofs are in BreakerProofs.v.  Times are integer ticks. *)
From Redress Require Import Base Window.

Inductive cstate := CLOSED | OPEN | HALF_OPEN.
Definition cstate_eqb (a b : cstate) : bool :=
  match a, b with CLOSED, CLOSED | OPEN, OPEN | HALF_OPEN, HALF_OPEN => true | _, _ => false end.
Lemma cstate_eqb_spec a b : reflect (a = b) (cstate_eqb a b).
Proof. destruct a, b; simpl; constructor; congruence. Qed.

(** constructor arguments (circuit.py:30-65).  [k_trip_on] is the caller's set (default
    {TRANSIENT, SERVER_ERROR} is applied by the harness); classes with a class threshold are added
    to the counted set by the constructor ([trip_on.update(class_thresholds.keys())]). *)
Record kcfg := {
  k_thr : Z;                      (* failure_threshold >= 1 *)
  k_win : Z;                      (* window_s > 0 *)
  k_rto : Z;                      (* recovery_timeout_s > 0 *)
  k_trip_on : klass -> bool;
  k_cthr : klass -> option Z      (* class_thresholds, each >= 1 *)
}.
Definition trips (c : kcfg) (k : klass) : bool :=
  k_trip_on c k || match k_cthr c k with Some _ => true | None => false end.

Record kst := {
  st : cstate;
  opened_at : option Z;
  probe : bool;
  fails : list Z;                 (* _failures, oldest first *)
  cfails : klass -> list Z        (* _class_failures (absent bucket = []) *)
}.
Definition kinit : kst :=
  {| st := CLOSED; opened_at := None; probe := false; fails := []; cfails := fun _ => [] |}.

Inductive kop := KAllow | KSucc | KFail (k : klass) | KCancel | KState.
Inductive kres :=
| KDecision (allowed : bool) (s : cstate) (ev : option evname)   (* allow() *)
| KEvent (ev : option evname)                                     (* record_success / record_failure *)
| KUnit                                                           (* record_cancel *)
| KStateIs (s : cstate).                                          (* .state *)

Definition kres_eqb (a b : kres) : bool :=
  match a, b with
  | KDecision x s e, KDecision y t f => Bool.eqb x y && cstate_eqb s t && opt_eqb evname_eqb e f
  | KEvent e, KEvent f => opt_eqb evname_eqb e f
  | KUnit, KUnit => true
  | KStateIs s, KStateIs t => cstate_eqb s t
  | _, _ => false
  end.

Definition set_bucket (f : klass -> list Z) (k : klass) (l : list Z) : klass -> list Z :=
  fun k' => if klass_eqb k k' then l else f k'.

(** circuit.py:79-103 *)
Definition allow (c : kcfg) (now : Z) (s : kst) : kres * kst :=
  match st s with
  | OPEN =>
      let oa := match opened_at s with Some t => t | None => now end in
      if k_rto c <=? now - oa then
        (KDecision true HALF_OPEN (Some N_CIRCUIT_HALF_OPEN),
         {| st := HALF_OPEN; opened_at := Some oa; probe := true; fails := fails s; cfails := cfails s |})
      else
        (KDecision false OPEN (Some N_CIRCUIT_REJECTED),
         {| st := OPEN; opened_at := Some oa; probe := probe s; fails := fails s; cfails := cfails s |})
  | HALF_OPEN =>
      if probe s then (KDecision false HALF_OPEN (Some N_CIRCUIT_REJECTED), s)
      else (KDecision true HALF_OPEN None,
            {| st := HALF_OPEN; opened_at := opened_at s; probe := true; fails := fails s; cfails := cfails s |})
  | CLOSED => (KDecision true CLOSED None, s)
  end.

(** circuit.py:105-113 *)
Definition record_success (s : kst) : kres * kst :=
  match st s with
  | HALF_OPEN => (KEvent (Some N_CIRCUIT_CLOSED), kinit)
  | _ => (KEvent None, s)
  end.

Definition opened (now : Z) : kst :=
  {| st := OPEN; opened_at := Some now; probe := false; fails := []; cfails := fun _ => [] |}.

(** circuit.py:144-159: returns (should_open, new deques) *)
Definition note_failure (c : kcfg) (k : klass) (now : Z) (s : kst) : bool * list Z * (klass -> list Z) :=
  let f' := prune (now - k_win c) (fails s) ++ [now] in
  match k_cthr c k with
  | Some th =>
      let b' := prune (now - k_win c) (cfails s k) ++ [now] in
      let cf' := set_bucket (cfails s) k b' in
      if th <=? zlen b' then (true, f', cf') else (k_thr c <=? zlen f', f', cf')
  | None => (k_thr c <=? zlen f', f', cfails s)
  end.

(** circuit.py:115-137 *)
Definition record_failure (c : kcfg) (k : klass) (now : Z) (s : kst) : kres * kst :=
  match st s with
  | HALF_OPEN => (KEvent (Some N_CIRCUIT_OPENED), opened now)
  | OPEN => (KEvent None, s)
  | CLOSED =>
      if negb (trips c k) then (KEvent None, s) else
      let '(should_open, f', cf') := note_failure c k now s in
      if should_open then
        (* the CLOSED -> OPEN branch does not touch _probe_in_flight (circuit.py:132-136) *)
        (KEvent (Some N_CIRCUIT_OPENED),
         {| st := OPEN; opened_at := Some now; probe := probe s; fails := []; cfails := fun _ => [] |})
      else (KEvent None,
            {| st := CLOSED; opened_at := opened_at s; probe := probe s; fails := f'; cfails := cf' |})
  end.

(** circuit.py:139-142 *)
Definition record_cancel (s : kst) : kres * kst :=
  match st s with
  | HALF_OPEN => (KUnit, {| st := HALF_OPEN; opened_at := opened_at s; probe := false;
                            fails := fails s; cfails := cfails s |})
  | _ => (KUnit, s)
  end.

Definition kstep (c : kcfg) (s : kst) (x : Z * kop) : kres * kst :=
  match snd x with
  | KAllow => allow c (fst x) s
  | KSucc => record_success s
  | KFail k => record_failure c k (fst x) s
  | KCancel => record_cancel s
  | KState => (KStateIs (st s), s)
  end.

Fixpoint krun (c : kcfg) (s : kst) (h : list (Z * kop)) : list kres * kst :=
  match h with
  | [] => ([], s)
  | x :: r => let '(o, s') := kstep c s x in
              let '(os, sf) := krun c s' r in (o :: os, sf)
  end.

(** ---------------- history-based specification ----------------
    The state keeps, instead of pruned deques, the *epoch*: every counted failure (time, class)
    recorded while CLOSED since the last state change.  Nothing is ever pruned; every decision is a
    function of the epoch entries younger than the window. *)
Record sst := {
  s_st : cstate;
  s_opened_at : option Z;
  s_probe : bool;
  s_epoch : list (Z * klass)
}.
Definition sinit : sst := {| s_st := CLOSED; s_opened_at := None; s_probe := false; s_epoch := [] |}.
Definition sopened (now : Z) : sst :=
  {| s_st := OPEN; s_opened_at := Some now; s_probe := false; s_epoch := [] |}.

Definition times_of (e : list (Z * klass)) : list Z := map fst e.
Definition of_class (k : klass) (e : list (Z * klass)) : list (Z * klass) :=
  filter (fun x => klass_eqb k (snd x)) e.

(** the opening rule of C06, stated on the epoch *)
Definition should_open (c : kcfg) (k : klass) (now : Z) (e : list (Z * klass)) : bool :=
  let e' := e ++ [(now, k)] in
  (k_thr c <=? zlen (live (now - k_win c) (times_of e')))
  || match k_cthr c k with
     | Some th => th <=? zlen (live (now - k_win c) (times_of (of_class k e')))
     | None => false
     end.

Definition sallow (c : kcfg) (now : Z) (s : sst) : kres * sst :=
  match s_st s with
  | OPEN =>
      let oa := match s_opened_at s with Some t => t | None => now end in
      if k_rto c <=? now - oa then
        (KDecision true HALF_OPEN (Some N_CIRCUIT_HALF_OPEN),
         {| s_st := HALF_OPEN; s_opened_at := Some oa; s_probe := true; s_epoch := s_epoch s |})
      else
        (KDecision false OPEN (Some N_CIRCUIT_REJECTED),
         {| s_st := OPEN; s_opened_at := Some oa; s_probe := s_probe s; s_epoch := s_epoch s |})
  | HALF_OPEN =>
      if s_probe s then (KDecision false HALF_OPEN (Some N_CIRCUIT_REJECTED), s)
      else (KDecision true HALF_OPEN None,
            {| s_st := HALF_OPEN; s_opened_at := s_opened_at s; s_probe := true; s_epoch := s_epoch s |})
  | CLOSED => (KDecision true CLOSED None, s)
  end.

Definition ssuccess (s : sst) : kres * sst :=
  match s_st s with
  | HALF_OPEN => (KEvent (Some N_CIRCUIT_CLOSED), sinit)
  | _ => (KEvent None, s)
  end.

Definition sfailure (c : kcfg) (k : klass) (now : Z) (s : sst) : kres * sst :=
  match s_st s with
  | HALF_OPEN => (KEvent (Some N_CIRCUIT_OPENED), sopened now)
  | OPEN => (KEvent None, s)
  | CLOSED =>
      if negb (trips c k) then (KEvent None, s) else
      if should_open c k now (s_epoch s) then
        (KEvent (Some N_CIRCUIT_OPENED),
         {| s_st := OPEN; s_opened_at := Some now; s_probe := s_probe s; s_epoch := [] |})
      else (KEvent None, {| s_st := CLOSED; s_opened_at := s_opened_at s; s_probe := s_probe s;
                            s_epoch := s_epoch s ++ [(now, k)] |})
  end.

Definition scancel (s : sst) : kres * sst :=
  match s_st s with
  | HALF_OPEN => (KUnit, {| s_st := HALF_OPEN; s_opened_at := s_opened_at s; s_probe := false;
                            s_epoch := s_epoch s |})
  | _ => (KUnit, s)
  end.

Definition sstep (c : kcfg) (s : sst) (x : Z * kop) : kres * sst :=
  match snd x with
  | KAllow => sallow c (fst x) s
  | KSucc => ssuccess s
  | KFail k => sfailure c k (fst x) s
  | KCancel => scancel s
  | KState => (KStateIs (s_st s), s)
  end.

Fixpoint srun (c : kcfg) (s : sst) (h : list (Z * kop)) : list kres * sst :=
  match h with
  | [] => ([], s)
  | x :: r => let '(o, s') := sstep c s x in
              let '(os, sf) := srun c s' r in (o :: os, sf)
  end.

(** ---------------- correspondence case ---------------- *)
Fixpoint kabs_times (t0 : Z) (h : list (Z * kop)) : list (Z * kop) :=
  match h with
  | [] => []
  | (d, o) :: r => (t0 + d, o) :: kabs_times (t0 + d) r
  end.

Definition mk_kcfg (thr win rto : Z) (trip_on : list klass) (cthr : list (klass * Z)) : kcfg :=
  {| k_thr := thr; k_win := win; k_rto := rto;
     k_trip_on := fun k => existsb (klass_eqb k) trip_on;
     k_cthr := fun k => match find (fun p => klass_eqb k (fst p)) cthr with
                        | Some p => Some (snd p) | None => None end |}.

Record kcase := { kc_cfg : kcfg; kc_t0 : Z; kc_hist : list (Z * kop); kc_obs : list kres }.
Definition kcase_ok (x : kcase) : bool :=
  list_eqb kres_eqb (fst (krun (kc_cfg x) kinit (kabs_times (kc_t0 x) (kc_hist x)))) (kc_obs x).
(** the same history through the specification (used by the self-test and by C06's check to make
    sure model and specification agree on the generated histories as well) *)
Definition kcase_spec_ok (x : kcase) : bool :=
  list_eqb kres_eqb (fst (srun (kc_cfg x) sinit (kabs_times (kc_t0 x) (kc_hist x)))) (kc_obs x).

(** Per-property attribution of a disagreement: the model state *before* the first operation whose
    observed answer differs from the model's.  C06 owns disagreements that start while the model is
    CLOSED (the counting/opening rule), C07 those that start while it is OPEN or HALF_OPEN. *)
Fixpoint first_bad (c : kcfg) (s : kst) (h : list (Z * kop)) (obs : list kres) : option cstate :=
  match h, obs with
  | [], [] => None
  | x :: r, o :: os =>
      let '(m, s') := kstep c s x in
      if kres_eqb m o then first_bad c s' r os else Some (st s)
  | _, _ => Some (st s)     (* length mismatch *)
  end.
Definition kcase_ok_in (sel : cstate -> bool) (x : kcase) : bool :=
  match first_bad (kc_cfg x) kinit (kabs_times (kc_t0 x) (kc_hist x)) (kc_obs x) with
  | None => true
  | Some s => negb (sel s)
  end.
Definition sel_closed (s : cstate) : bool := cstate_eqb s CLOSED.
Definition sel_not_closed (s : cstate) : bool := negb (cstate_eqb s CLOSED).
