(** BreakerProofs.v — CircuitBreaker: refinement to the epoch specification (C06) and the
    state-machine lemmas for fail-fast / single probe (C07, breaker level). *)
From Redress Require Import Base Window Breaker.
From Coq Require Import Sorting.Sorted.

Fixpoint kmono (last : Z) (h : list (Z * kop)) : Prop :=
  match h with [] => True | x :: r => last <= fst x /\ kmono (fst x) r end.

Definition lazy_view (c : kcfg) (last : Z) (deque full : list Z) : Prop :=
  exists cut, cut <= last - k_win c /\ deque = live cut full.

Definition KRep (c : kcfg) (k : kst) (s : sst) (last : Z) : Prop :=
  st k = s_st s /\ opened_at k = s_opened_at s /\ probe k = s_probe s /\
  sorted (times_of (s_epoch s)) /\
  (forall x, In x (times_of (s_epoch s)) -> x <= last) /\
  lazy_view c last (fails k) (times_of (s_epoch s)) /\
  (forall kl, match k_cthr c kl with
              | Some _ => lazy_view c last (cfails k kl) (times_of (of_class kl (s_epoch s)))
              | None => cfails k kl = []
              end).

Lemma lazy_view_nil c last : lazy_view c last [] [].
Proof. exists (last - k_win c). split; [lia|reflexivity]. Qed.

Lemma KRep_init c t : KRep c kinit sinit t.
Proof.
  unfold KRep; simpl. repeat split; try constructor; try (intros x []); try apply lazy_view_nil.
  intros kl. destruct (k_cthr c kl); [apply lazy_view_nil|reflexivity].
Qed.

Lemma lazy_view_later c last now d f : last <= now -> lazy_view c last d f -> lazy_view c now d f.
Proof. intros H (cut & Hc & E). exists cut. split; [lia|exact E]. Qed.

Lemma KRep_later c k s last now : last <= now -> KRep c k s last -> KRep c k s now.
Proof.
  intros Hl (H1 & H2 & H3 & H4 & H5 & H6 & H7). unfold KRep. repeat split; auto.
  - intros x Hx. specialize (H5 x Hx). lia.
  - eapply lazy_view_later; eauto.
  - intros kl. specialize (H7 kl). destruct (k_cthr c kl); [eapply lazy_view_later; eauto|exact H7].
Qed.

Lemma sorted_tail_sub (f : Z * klass -> bool) e : sorted (times_of e) -> sorted (times_of (filter f e)).
Proof.
  unfold times_of. induction e as [|x r IH]; simpl; intros H; [constructor|].
  inversion H as [|a l Hs Hall]; subst.
  destruct (f x); simpl; [|apply IH; exact Hs].
  constructor; [apply IH; exact Hs|].
  rewrite Forall_forall in *. intros y Hy. apply Hall.
  apply in_map_iff in Hy as (z & <- & Hz). apply filter_In in Hz as [Hz _]. apply in_map. exact Hz.
Qed.

Lemma In_times_filter (f : Z * klass -> bool) e x : In x (times_of (filter f e)) -> In x (times_of e).
Proof.
  unfold times_of. intros H. apply in_map_iff in H as (z & <- & Hz).
  apply filter_In in Hz as [Hz _]. apply in_map. exact Hz.
Qed.

(** pruning a lazily pruned deque at the current cutoff and appending [now] gives the live part
    of the extended history *)
Lemma prune_snoc_view c last now d f :
  0 < k_win c -> sorted f -> (forall x, In x f -> x <= last) -> last <= now ->
  lazy_view c last d f ->
  prune (now - k_win c) d ++ [now] = live (now - k_win c) (f ++ [now]) /\
  lazy_view c now (prune (now - k_win c) d ++ [now]) (f ++ [now]).
Proof.
  intros Hw Hs Hle Hl (cut & Hc & E). subst d.
  rewrite prune_is_live by (apply sorted_live; exact Hs).
  rewrite live_live by lia. rewrite live_app.
  assert (L: live (now - k_win c) [now] = [now]).
  { unfold live; simpl. replace (now - k_win c <? now) with true by lia. reflexivity. }
  rewrite L. split; [reflexivity|]. exists (now - k_win c). split; [lia|].
  rewrite live_app, L. reflexivity.
Qed.

Lemma of_class_snoc_same k e now : of_class k (e ++ [(now, k)]) = of_class k e ++ [(now, k)].
Proof. unfold of_class. rewrite filter_app. simpl. rewrite klass_eqb_refl. reflexivity. Qed.
Lemma of_class_snoc_other k kl e now : klass_eqb kl k = false -> of_class kl (e ++ [(now, k)]) = of_class kl e.
Proof. intros H. unfold of_class. rewrite filter_app. simpl. rewrite H. apply app_nil_r. Qed.
Lemma times_of_app a b : times_of (a ++ b) = times_of a ++ times_of b.
Proof. apply map_app. Qed.

Lemma times_of_snoc e now (k : klass) : times_of (e ++ [(now, k)]) = times_of e ++ [now].
Proof. unfold times_of. rewrite map_app. reflexivity. Qed.

Lemma klass_eqb_sym a b : klass_eqb a b = klass_eqb b a.
Proof. destruct a, b; reflexivity. Qed.

(** one step of the implementation model answers like the specification and keeps the invariant *)
Lemma kstep_refines c k s last x :
  0 < k_win c -> KRep c k s last -> last <= fst x ->
  fst (kstep c k x) = fst (sstep c s x) /\ KRep c (snd (kstep c k x)) (snd (sstep c s x)) (fst x).
Proof.
  intros Hw HR Hl. destruct x as [now op]. simpl in Hl.
  pose proof (KRep_later c k s last now Hl HR) as HRn.
  destruct HR as (E1 & E2 & E3 & Hs & Hle & Hf & Hcf).
  unfold kstep, sstep; simpl. destruct op as [| |kl| |].
  - (* allow *)
    unfold allow, sallow. rewrite <- E1, <- E2, <- E3.
    destruct (st k) eqn:S.
    + split; [reflexivity|exact HRn].
    + destruct (k_rto c <=? _) eqn:T; (split; [reflexivity|]);
      destruct HRn as (_ & _ & _ & A4 & A5 & A6 & A7); unfold KRep; simpl; repeat split; auto.
    + destruct (probe k) eqn:P; (split; [reflexivity|]); [exact HRn|].
      destruct HRn as (_ & _ & _ & A4 & A5 & A6 & A7); unfold KRep; simpl; repeat split; auto.
  - (* record_success *)
    unfold record_success, ssuccess. rewrite <- E1.
    destruct (st k); (split; [reflexivity|]); try exact HRn. apply KRep_init.
  - (* record_failure *)
    unfold record_failure, sfailure. rewrite <- E1.
    destruct (st k) eqn:S.
    + (* CLOSED *)
      assert (E1': CLOSED = s_st s) by exact E1.
      destruct (trips c kl) eqn:Tr; simpl; [|split; [reflexivity|exact HRn]].
      unfold note_failure, should_open.
      destruct (prune_snoc_view c last now (fails k) (times_of (s_epoch s)) Hw Hs Hle Hl Hf) as [F1 F2].
      rewrite times_of_snoc. rewrite <- F1.
      destruct (k_cthr c kl) as [th|] eqn:CT.
      * (* class threshold present *)
        pose proof (Hcf kl) as Hb. rewrite CT in Hb.
        assert (Hs': sorted (times_of (of_class kl (s_epoch s)))) by (apply sorted_tail_sub; exact Hs).
        assert (Hle': forall y, In y (times_of (of_class kl (s_epoch s))) -> y <= last).
        { intros y Hy. apply Hle. eapply In_times_filter; eauto. }
        destruct (prune_snoc_view c last now (cfails k kl) _ Hw Hs' Hle' Hl Hb) as [B1 B2].
        rewrite of_class_snoc_same, times_of_snoc. rewrite <- B1.
        destruct (th <=? zlen (prune (now - k_win c) (cfails k kl) ++ [now])) eqn:TH; simpl.
        -- rewrite orb_true_r. split; [reflexivity|].
           unfold KRep; simpl. repeat split; auto; try constructor; try (intros y []); try apply lazy_view_nil.
           intros k2. destruct (k_cthr c k2); [apply lazy_view_nil|reflexivity].
        -- rewrite orb_false_r.
           destruct (k_thr c <=? zlen (prune (now - k_win c) (fails k) ++ [now])) eqn:G; simpl.
           ++ split; [reflexivity|].
              unfold KRep; simpl. repeat split; auto; try constructor; try (intros y []); try apply lazy_view_nil.
              intros k2. destruct (k_cthr c k2); [apply lazy_view_nil|reflexivity].
           ++ split; [reflexivity|].
              unfold KRep; simpl. rewrite times_of_snoc.
              refine (conj eq_refl (conj E2 (conj E3 (conj _ (conj _ (conj F2 _)))))).
              ** apply sorted_snoc; [exact Hs|]. intros y Hy. specialize (Hle y Hy). lia.
              ** intros y Hy. apply in_app_or in Hy as [Hy|[<-|[]]]; [specialize (Hle y Hy)|]; lia.
              ** intros k2. unfold set_bucket. destruct (klass_eqb kl k2) eqn:EQ.
                 --- apply klass_eqb_eq in EQ. subst k2. rewrite CT.
                     rewrite of_class_snoc_same, times_of_snoc. exact B2.
                 --- rewrite of_class_snoc_other by (rewrite klass_eqb_sym; exact EQ).
                     specialize (Hcf k2). destruct (k_cthr c k2); [|exact Hcf].
                     eapply lazy_view_later; eauto.
      * (* no class threshold *)
        rewrite orb_false_r.
        destruct (k_thr c <=? zlen (prune (now - k_win c) (fails k) ++ [now])) eqn:G; simpl.
        -- split; [reflexivity|].
           unfold KRep; simpl. repeat split; auto; try constructor; try (intros y []); try apply lazy_view_nil.
           intros k2. destruct (k_cthr c k2); [apply lazy_view_nil|reflexivity].
        -- split; [reflexivity|].
           unfold KRep; simpl. rewrite times_of_snoc.
           refine (conj eq_refl (conj E2 (conj E3 (conj _ (conj _ (conj F2 _)))))).
           ** apply sorted_snoc; [exact Hs|]. intros y Hy. specialize (Hle y Hy). lia.
           ** intros y Hy. apply in_app_or in Hy as [Hy|[<-|[]]]; [specialize (Hle y Hy)|]; lia.
           ** intros k2. destruct (klass_eqb k2 kl) eqn:EQ.
              --- apply klass_eqb_eq in EQ. subst k2. rewrite CT. specialize (Hcf kl). rewrite CT in Hcf. exact Hcf.
              --- rewrite of_class_snoc_other by exact EQ.
                  specialize (Hcf k2). destruct (k_cthr c k2); [|exact Hcf].
                  eapply lazy_view_later; eauto.
    + (* OPEN *) split; [reflexivity|exact HRn].
    + (* HALF_OPEN *) split; [reflexivity|].
      unfold KRep; simpl. repeat split; auto; try constructor; try (intros y []); try apply lazy_view_nil.
      intros k2. destruct (k_cthr c k2); [apply lazy_view_nil|reflexivity].
  - (* record_cancel *)
    unfold record_cancel, scancel. rewrite <- E1.
    destruct (st k) eqn:S; (split; [reflexivity|]); try exact HRn.
    destruct HRn as (_ & _ & _ & A4 & A5 & A6 & A7); unfold KRep; simpl; repeat split; auto.
  - (* state *)
    rewrite E1. split; [reflexivity|exact HRn].
Qed.

Lemma krun_refines c : 0 < k_win c ->
  forall h k s last, KRep c k s last -> kmono last h -> fst (krun c k h) = fst (srun c s h).
Proof.
  intros Hw. induction h as [|x r IH]; intros k s last HR Hm; simpl; [reflexivity|].
  destruct Hm as [Hl Hm].
  destruct (kstep_refines c k s last x Hw HR Hl) as [E1 E2].
  destruct (kstep c k x) as [o k'] eqn:B. destruct (sstep c s x) as [o' s'] eqn:A. simpl in *. subst o'.
  specialize (IH k' s' (fst x) E2 Hm).
  destruct (krun c k' r) as [os kf]. destruct (srun c s' r) as [os' sf]. simpl in *. congruence.
Qed.

Lemma breaker_refinement c t0 h :
  0 < k_win c -> kmono t0 h -> fst (krun c kinit h) = fst (srun c sinit h).
Proof. intros Hw Hm. eapply krun_refines; eauto. apply KRep_init. Qed.

(** ------------------------------------------------------------------------------------------
    C06 on the specification
    ------------------------------------------------------------------------------------------ *)

Lemma should_open_unfold c k now e :
  should_open c k now e = true <->
  k_thr c <= zlen (live (now - k_win c) (times_of (e ++ [(now, k)]))) \/
  exists th, k_cthr c k = Some th /\
             th <= zlen (live (now - k_win c) (times_of (of_class k (e ++ [(now, k)])))).
Proof.
  unfold should_open. rewrite orb_true_iff. split.
  - intros [H|H]; [left; lia|]. destruct (k_cthr c k) as [th|]; [|discriminate]. right. exists th. split; [reflexivity|lia].
  - intros [H|(th & E & H)]; [left; lia|]. right. rewrite E. lia.
Qed.

Lemma opens_iff c k now s :
  s_st s = CLOSED ->
  (fst (sfailure c k now s) = KEvent (Some N_CIRCUIT_OPENED) <->
   trips c k = true /\ should_open c k now (s_epoch s) = true).
Proof.
  intros S. unfold sfailure. rewrite S.
  destruct (trips c k); simpl; [|split; [discriminate|intros [? _]; discriminate]].
  destruct (should_open c k now (s_epoch s)); simpl; split; auto; try discriminate.
  intros [_ ?]; discriminate.
Qed.

Lemma opens_state_iff c k now s :
  s_st s = CLOSED ->
  (s_st (snd (sfailure c k now s)) = OPEN <-> trips c k = true /\ should_open c k now (s_epoch s) = true).
Proof.
  intros S. unfold sfailure. rewrite S.
  destruct (trips c k); simpl; [|rewrite S; split; [discriminate|intros [? _]; discriminate]].
  destruct (should_open c k now (s_epoch s)); simpl; split; auto; try discriminate.
  intros [_ ?]; discriminate.
Qed.

Lemma only_failure_opens c s x :
  s_st s = CLOSED -> s_st (snd (sstep c s x)) <> CLOSED ->
  exists k, snd x = KFail k /\ trips c k = true /\ should_open c k (fst x) (s_epoch s) = true /\
            s_st (snd (sstep c s x)) = OPEN.
Proof.
  intros S H. destruct x as [now op]. unfold sstep in *; simpl in *.
  destruct op as [| |k| |]; simpl in *.
  - unfold sallow in H. rewrite S in H. simpl in H. congruence.
  - unfold ssuccess in H. rewrite S in H. simpl in H. congruence.
  - exists k. unfold sfailure in *. rewrite S in *.
    destruct (trips c k); simpl in *; [|congruence].
    destruct (should_open c k now (s_epoch s)); simpl in *; [auto|congruence].
  - unfold scancel in H. rewrite S in H. simpl in H. congruence.
  - congruence.
Qed.

Lemma ignored_class c k now s : trips c k = false -> s_st s = CLOSED -> sfailure c k now s = (KEvent None, s).
Proof. intros T S. unfold sfailure. rewrite S, T. reflexivity. Qed.

Lemma closed_noops c now s :
  s_st s = CLOSED ->
  ssuccess s = (KEvent None, s) /\ scancel s = (KUnit, s) /\ sallow c now s = (KDecision true CLOSED None, s).
Proof. intros S. unfold ssuccess, scancel, sallow. rewrite S. auto. Qed.

Definition young (cut : Z) (e : list (Z * klass)) : list (Z * klass) := filter (fun x => cut <? fst x) e.

Lemma live_times_young cut e : live cut (times_of (young cut e)) = live cut (times_of e).
Proof.
  unfold live, times_of, young. induction e as [|x r IH]; simpl; [reflexivity|].
  destruct (cut <? fst x) eqn:E; simpl; rewrite ?E; simpl; rewrite IH; reflexivity.
Qed.
Lemma of_class_young k cut e : of_class k (young cut e) = young cut (of_class k e).
Proof.
  unfold of_class, young. induction e as [|x r IH]; simpl; [reflexivity|].
  destruct (cut <? fst x) eqn:E; destruct (klass_eqb k (snd x)) eqn:F; simpl; rewrite ?E, ?F, IH; reflexivity.
Qed.
Lemma young_app cut a b : young cut (a ++ b) = young cut a ++ young cut b.
Proof. apply filter_app. Qed.

(** failures older than the window never contribute: the rule sees only the young part *)
Lemma ignored_old c k now e :
  0 < k_win c -> should_open c k now e = should_open c k now (young (now - k_win c) e).
Proof.
  intros Hw. unfold should_open.
  assert (Y: forall l, live (now - k_win c) (times_of (young (now - k_win c) l ++ [(now, k)])) =
                       live (now - k_win c) (times_of (l ++ [(now, k)]))).
  { intros l. rewrite !times_of_snoc, !live_app, live_times_young. reflexivity. }
  rewrite Y. f_equal. destruct (k_cthr c k); [|reflexivity].
  rewrite !of_class_snoc_same, of_class_young, Y. reflexivity.
Qed.

(** every state change empties the epoch: nothing recorded before a transition counts after it *)
Lemma epoch_reset c s x :
  s_st (snd (sstep c s x)) <> s_st s -> s_epoch (snd (sstep c s x)) = [] \/
  (s_st s = OPEN /\ s_st (snd (sstep c s x)) = HALF_OPEN /\ s_epoch (snd (sstep c s x)) = s_epoch s).
Proof.
  destruct x as [now op]. unfold sstep; simpl. destruct op as [| |k| |]; simpl.
  - unfold sallow. destruct (s_st s) eqn:S; simpl; try congruence.
    + destruct (k_rto c <=? _); simpl; [|congruence]. intros _. right. auto.
    + destruct (s_probe s); simpl; congruence.
  - unfold ssuccess. destruct (s_st s) eqn:S; simpl; try congruence. intros _. left. reflexivity.
  - unfold sfailure. destruct (s_st s) eqn:S; simpl; try congruence; [|intros _; left; reflexivity].
    destruct (trips c k); simpl; [|congruence].
    destruct (should_open c k now (s_epoch s)); simpl; [intros _; left; reflexivity|congruence].
  - unfold scancel. destruct (s_st s) eqn:S; simpl; congruence.
  - congruence.
Qed.

(** the epoch is empty whenever the breaker is not CLOSED (so an OPEN -> HALF_OPEN step carries nothing) *)
Definition epoch_inv (s : sst) : Prop := s_st s <> CLOSED -> s_epoch s = [].
Lemma epoch_inv_step c s x : epoch_inv s -> epoch_inv (snd (sstep c s x)).
Proof.
  intros I. destruct x as [now op]. unfold sstep, epoch_inv in *; simpl. destruct op as [| |k| |]; simpl.
  - unfold sallow. destruct (s_st s) eqn:S; simpl; try congruence.
    + destruct (k_rto c <=? _); simpl; intros _; apply I; congruence.
    + destruct (s_probe s); simpl; [rewrite S|]; intros _; apply I; congruence.
  - unfold ssuccess. destruct (s_st s) eqn:S; simpl; try congruence; rewrite S; intros _; apply I; congruence.
  - unfold sfailure. destruct (s_st s) eqn:S; simpl; try reflexivity.
    + destruct (trips c k); simpl; [|congruence].
      destruct (should_open c k now (s_epoch s)); simpl; congruence.
    + rewrite S. intros _. apply I. congruence.
  - unfold scancel. destruct (s_st s) eqn:S; simpl; try rewrite S; intros H; apply I; congruence.
  - exact I.
Qed.

(** ------------------------------------------------------------------------------------------
    C07 (breaker level) on the specification
    ------------------------------------------------------------------------------------------ *)
Definition rejected (r : kres) : Prop :=
  exists s, r = KDecision false s (Some N_CIRCUIT_REJECTED).

Lemma open_rejects c now s t0 :
  s_st s = OPEN -> s_opened_at s = Some t0 -> now - t0 < k_rto c ->
  sallow c now s = (KDecision false OPEN (Some N_CIRCUIT_REJECTED), s).
Proof.
  intros S O H. unfold sallow. rewrite S, O. replace (k_rto c <=? now - t0) with false by lia.
  f_equal. destruct s; simpl in *; subst; reflexivity.
Qed.

Lemma open_ignores_records c now s k :
  s_st s = OPEN ->
  ssuccess s = (KEvent None, s) /\ sfailure c k now s = (KEvent None, s) /\ scancel s = (KUnit, s).
Proof. intros S. unfold ssuccess, sfailure, scancel. rewrite S. auto. Qed.

(** from the moment it opens until the recovery timeout has elapsed: whatever is done to the
    breaker, every allow() is rejected and nothing changes *)
Lemma open_window c t0 : forall h s,
  s_st s = OPEN -> s_opened_at s = Some t0 ->
  (forall x, In x h -> fst x - t0 < k_rto c) ->
  snd (srun c s h) = s /\
  forall i x, nth_error h i = Some x -> snd x = KAllow ->
              nth_error (fst (srun c s h)) i = Some (KDecision false OPEN (Some N_CIRCUIT_REJECTED)).
Proof.
  induction h as [|x r IH]; intros s S O Hh; simpl.
  - split; [reflexivity|]. intros [|i] y Hy; discriminate.
  - assert (St: sstep c s x = (match snd x with
                               | KAllow => KDecision false OPEN (Some N_CIRCUIT_REJECTED)
                               | KSucc => KEvent None | KFail _ => KEvent None | KCancel => KUnit
                               | KState => KStateIs OPEN end, s)).
    { destruct x as [now op]. unfold sstep; simpl. destruct op as [| |k| |].
      - apply open_rejects with t0; auto. apply (Hh (now, KAllow)). left. reflexivity.
      - apply (open_ignores_records c now s AUTH S).
      - apply (open_ignores_records c now s k S).
      - apply (open_ignores_records c now s AUTH S).
      - rewrite S. reflexivity. }
    rewrite St. specialize (IH s S O (fun y Hy => Hh y (or_intror Hy))).
    destruct (srun c s r) as [os sf]. simpl in *. destruct IH as [I1 I2]. split; [exact I1|].
    intros [|i] y Hy Hop; simpl in *.
    + inversion Hy; subst y. rewrite Hop. reflexivity.
    + apply (I2 i y Hy Hop).
Qed.

Lemma probe_admitted_at_timeout c now s t0 :
  s_st s = OPEN -> s_opened_at s = Some t0 -> k_rto c <= now - t0 ->
  sallow c now s = (KDecision true HALF_OPEN (Some N_CIRCUIT_HALF_OPEN),
                    {| s_st := HALF_OPEN; s_opened_at := Some t0; s_probe := true; s_epoch := s_epoch s |}).
Proof. intros S O H. unfold sallow. rewrite S, O. replace (k_rto c <=? now - t0) with true by lia. reflexivity. Qed.

Lemma single_probe c now s :
  s_st s = HALF_OPEN -> s_probe s = true ->
  sallow c now s = (KDecision false HALF_OPEN (Some N_CIRCUIT_REJECTED), s).
Proof. intros S P. unfold sallow. rewrite S, P. reflexivity. Qed.

(** while the probe is in flight, any number of allow()/state reads are all rejected *)
Lemma single_probe_window c : forall h s,
  s_st s = HALF_OPEN -> s_probe s = true ->
  (forall x, In x h -> snd x = KAllow \/ snd x = KState) ->
  snd (srun c s h) = s /\
  forall i x, nth_error h i = Some x -> snd x = KAllow ->
              nth_error (fst (srun c s h)) i = Some (KDecision false HALF_OPEN (Some N_CIRCUIT_REJECTED)).
Proof.
  induction h as [|x r IH]; intros s S P Hh; simpl.
  - split; [reflexivity|]. intros [|i] y Hy; discriminate.
  - assert (St: sstep c s x = (match snd x with
                               | KAllow => KDecision false HALF_OPEN (Some N_CIRCUIT_REJECTED)
                               | _ => KStateIs HALF_OPEN end, s)).
    { destruct x as [now op]. unfold sstep; simpl.
      destruct (Hh (now, op) (or_introl eq_refl)) as [E|E]; simpl in E; subst op.
      - apply single_probe; auto.
      - rewrite S. reflexivity. }
    rewrite St. specialize (IH s S P (fun y Hy => Hh y (or_intror Hy))).
    destruct (srun c s r) as [os sf]. simpl in *. destruct IH as [I1 I2]. split; [exact I1|].
    intros [|i] y Hy Hop; simpl in *.
    + inversion Hy; subst y. rewrite Hop. reflexivity.
    + apply (I2 i y Hy Hop).
Qed.

Lemma probe_success_closes s :
  s_st s = HALF_OPEN -> ssuccess s = (KEvent (Some N_CIRCUIT_CLOSED), sinit).
Proof. intros S. unfold ssuccess. rewrite S. reflexivity. Qed.

Lemma probe_failure_reopens c k now s :
  s_st s = HALF_OPEN -> sfailure c k now s = (KEvent (Some N_CIRCUIT_OPENED), sopened now).
Proof. intros S. unfold sfailure. rewrite S. reflexivity. Qed.

Lemma probe_cancel_frees s :
  s_st s = HALF_OPEN ->
  scancel s = (KUnit, {| s_st := HALF_OPEN; s_opened_at := s_opened_at s; s_probe := false; s_epoch := s_epoch s |}).
Proof. intros S. unfold scancel. rewrite S. reflexivity. Qed.

(** after a successful probe one further failure re-opens only if it alone reaches a threshold *)
Lemma after_close_single_failure c k now :
  0 < k_win c ->
  (should_open c k now [] = true <-> k_thr c <= 1 \/ exists th, k_cthr c k = Some th /\ th <= 1).
Proof.
  intros Hw. rewrite should_open_unfold. simpl. unfold of_class, live, zlen. simpl.
  rewrite klass_eqb_refl. simpl. replace (now - k_win c <? now) with true by lia. simpl. reflexivity.
Qed.

(** admission never happens in HALF_OPEN with a probe in flight, and HALF_OPEN without a probe in
    flight admits exactly the next caller *)
Lemma half_open_free_admits c now s :
  s_st s = HALF_OPEN -> s_probe s = false ->
  fst (sallow c now s) = KDecision true HALF_OPEN None /\ s_probe (snd (sallow c now s)) = true.
Proof. intros S P. unfold sallow. rewrite S, P. simpl. auto. Qed.

(** ---- invariants lifted to every reachable state of the specification ---- *)
Lemma epoch_inv_run c : forall h s, epoch_inv s -> epoch_inv (snd (srun c s h)).
Proof.
  induction h as [|x r IH]; intros s I; [exact I|].
  cbn [srun]. destruct (sstep c s x) as [o s'] eqn:E.
  specialize (IH s'). destruct (srun c s' r) as [os sf] eqn:R. cbn [snd] in *.
  apply IH. replace s' with (snd (sstep c s x)) by (rewrite E; reflexivity). apply epoch_inv_step, I.
Qed.
Lemma epoch_inv_reachable c h : epoch_inv (snd (srun c sinit h)).
Proof. apply epoch_inv_run. unfold epoch_inv, sinit; simpl. congruence. Qed.

Definition shape_inv (s : sst) : Prop :=
  (s_probe s = true -> s_st s = HALF_OPEN) /\ (s_st s <> CLOSED -> s_opened_at s <> None).
Lemma shape_inv_step c s x : shape_inv s -> shape_inv (snd (sstep c s x)).
Proof.
  intros [P O]. destruct x as [now op]. unfold sstep, shape_inv in *; cbn [fst snd].
  destruct op as [| |k| |]; cbn [snd];
    unfold sallow, ssuccess, sfailure, scancel;
    destruct (s_st s) eqn:S; destruct (s_probe s) eqn:Pb;
    repeat match goal with
           | |- context[if ?b then _ else _] => destruct b
           end;
    cbn; rewrite ?S, ?Pb; split; intros; try congruence;
    try (apply O; congruence); try (exfalso; assert (s_st s = HALF_OPEN) by (apply P; congruence); congruence).
  all: exfalso; discriminate (P eq_refl).
Qed.
Lemma shape_inv_run c : forall h s, shape_inv s -> shape_inv (snd (srun c s h)).
Proof.
  induction h as [|x r IH]; intros s I; [exact I|].
  cbn [srun]. destruct (sstep c s x) as [o s'] eqn:E.
  specialize (IH s'). destruct (srun c s' r) as [os sf] eqn:R. cbn [snd] in *.
  apply IH. replace s' with (snd (sstep c s x)) by (rewrite E; reflexivity). apply shape_inv_step, I.
Qed.
Lemma shape_inv_reachable c h : shape_inv (snd (srun c sinit h)).
Proof. apply shape_inv_run. unfold shape_inv, sinit; simpl. split; congruence. Qed.
