(** Budget.v — executable model of redress/budget.py (Budget.consume / Budget.remaining).
    Model only; proofs are in BudgetProofs.v.  Times are integers (ticks). *)
From Redress Require Import Base Window.

Record bcfg := { bmax : Z; bwin : Z }.          (* max_retries, window_s (ticks) *)
Inductive bop := BConsume (cost : Z) | BRemaining.
Inductive bres := RGrant | RRefuse | RErr | RRem (n : Z).

Definition bres_eqb (a b : bres) : bool :=
  match a, b with
  | RGrant, RGrant | RRefuse, RRefuse | RErr, RErr => true
  | RRem x, RRem y => x =? y
  | _, _ => false
  end.

(** budget.py:29-39.  [ev] is the deque [_events], oldest first.  [cost < 1] raises ValueError
    before the clock is read or the lock taken. *)
Definition consume (c : bcfg) (now cost : Z) (ev : list Z) : bres * list Z :=
  if cost <? 1 then (RErr, ev) else
  let ev' := prune (now - bwin c) ev in
  if bmax c <? zlen ev' + cost then (RRefuse, ev')
  else (RGrant, ev' ++ repeat now (Z.to_nat cost)).

(** budget.py:41-45 *)
Definition remaining (c : bcfg) (now : Z) (ev : list Z) : bres * list Z :=
  let ev' := prune (now - bwin c) ev in (RRem (Z.max (bmax c - zlen ev') 0), ev').

Definition bstep (c : bcfg) (ev : list Z) (x : Z * bop) : bres * list Z :=
  match snd x with
  | BConsume cost => consume c (fst x) cost ev
  | BRemaining => remaining c (fst x) ev
  end.

(** run a history of (absolute time, operation); returns the results and the final deque *)
Fixpoint brun (c : bcfg) (ev : list Z) (h : list (Z * bop)) : list bres * list Z :=
  match h with
  | [] => ([], ev)
  | x :: r => let '(o, ev') := bstep c ev x in
              let '(os, evf) := brun c ev' r in (o :: os, evf)
  end.

(** Abstract specification: the state is the list of *all* grant times ever issued (one entry per
    unit of cost), never pruned; every answer is a function of the grants younger than the window. *)
Definition aconsume (c : bcfg) (now cost : Z) (g : list Z) : bres * list Z :=
  if cost <? 1 then (RErr, g) else
  if bmax c <? zlen (live (now - bwin c) g) + cost then (RRefuse, g)
  else (RGrant, g ++ repeat now (Z.to_nat cost)).
Definition aremaining (c : bcfg) (now : Z) (g : list Z) : bres * list Z :=
  (RRem (Z.max (bmax c - zlen (live (now - bwin c) g)) 0), g).
Definition astep (c : bcfg) (g : list Z) (x : Z * bop) : bres * list Z :=
  match snd x with
  | BConsume cost => aconsume c (fst x) cost g
  | BRemaining => aremaining c (fst x) g
  end.
Fixpoint arun (c : bcfg) (g : list Z) (h : list (Z * bop)) : list bres * list Z :=
  match h with
  | [] => ([], g)
  | x :: r => let '(o, g') := astep c g x in
              let '(os, gf) := arun c g' r in (o :: os, gf)
  end.

(** histories are given to the correspondence check as (time delta, op) *)
Fixpoint abs_times {A} (t0 : Z) (h : list (Z * A)) : list (Z * A) :=
  match h with
  | [] => []
  | (d, o) :: r => (t0 + d, o) :: abs_times (t0 + d) r
  end.

(** correspondence case: configuration, start time, (delta, op) history, results observed on the
    implementation *)
Record bcase := { bc_cfg : bcfg; bc_t0 : Z; bc_hist : list (Z * bop); bc_obs : list bres }.
Definition bcase_ok (k : bcase) : bool :=
  list_eqb bres_eqb (fst (brun (bc_cfg k) [] (abs_times (bc_t0 k) (bc_hist k)))) (bc_obs k).
