(** BudgetProofs.v — refinement of the Budget deque to the grant history and the window bound. *)
From Redress Require Import Base Window Budget.
From Coq Require Import Sorting.Sorted.

Fixpoint mono {A} (last : Z) (h : list (Z * A)) : Prop :=
  match h with [] => True | x :: r => last <= fst x /\ mono (fst x) r end.

(** Representation invariant: the deque is the part of the grant history younger than some cutoff
    that is not later than the next cutoff any operation can use (lazy pruning). *)
Definition Rep (c : bcfg) (ev g : list Z) (last : Z) : Prop :=
  sorted g /\ (forall x, In x g -> x <= last) /\
  exists cut, cut <= last - bwin c /\ ev = live cut g.

Lemma Rep_init c t : Rep c [] [] t.
Proof. split; [constructor|]. split; [intros x []|]. exists (t - bwin c). split; [lia|reflexivity]. Qed.

Lemma prune_rep c ev g last now :
  Rep c ev g last -> last <= now -> prune (now - bwin c) ev = live (now - bwin c) g.
Proof.
  intros (Hs & Hle & cut & Hc & Hev) Hl. rewrite Hev.
  rewrite prune_is_live by (apply sorted_live; exact Hs). apply live_live. lia.
Qed.

Lemma Rep_pruned c ev g last now :
  Rep c ev g last -> last <= now -> Rep c (live (now - bwin c) g) g now.
Proof.
  intros (Hs & Hle & _) Hl. split; [exact Hs|]. split; [intros x Hx; specialize (Hle x Hx); lia|].
  exists (now - bwin c). split; [lia|reflexivity].
Qed.

Lemma Rep_grant c ev g last now n :
  0 < bwin c -> Rep c ev g last -> last <= now ->
  Rep c (live (now - bwin c) g ++ repeat now n) (g ++ repeat now n) now.
Proof.
  intros Hw (Hs & Hle & _) Hl.
  split; [apply sorted_app_repeat; auto; intros x Hx; specialize (Hle x Hx); lia|].
  split. { intros x Hx. apply in_app_or in Hx as [Hx|Hx]; [specialize (Hle x Hx); lia|apply In_repeat_eq in Hx; lia]. }
  exists (now - bwin c). split; [lia|].
  rewrite live_app. f_equal. symmetry. apply filter_all_true.
  intros x Hx. apply In_repeat_eq in Hx. subst. lia.
Qed.

(** one step: same answer as the specification, invariant preserved *)
Lemma bstep_refines c ev g last x :
  0 < bwin c -> Rep c ev g last -> last <= fst x ->
  fst (bstep c ev x) = fst (astep c g x) /\
  Rep c (snd (bstep c ev x)) (snd (astep c g x)) (fst x).
Proof.
  intros Hw HR Hl. destruct x as [now op]. simpl in Hl.
  unfold bstep, astep; simpl. destruct op as [cost|].
  - unfold consume, aconsume. destruct (cost <? 1) eqn:Ec; simpl.
    + split; [reflexivity|]. destruct HR as (Hs & Hle & cut & Hc & Hev).
      split; [exact Hs|]. split; [intros y Hy; specialize (Hle y Hy); lia|]. exists cut. split; [lia|exact Hev].
    + rewrite (prune_rep c ev g last now HR Hl).
      destruct (bmax c <? _) eqn:T; simpl; (split; [reflexivity|]).
      * eapply Rep_pruned; eauto.
      * eapply Rep_grant; eauto.
  - unfold remaining, aremaining. simpl. rewrite (prune_rep c ev g last now HR Hl).
    split; [reflexivity|]. eapply Rep_pruned; eauto.
Qed.

Lemma brun_refines c : 0 < bwin c ->
  forall h ev g last, Rep c ev g last -> mono last h ->
  fst (brun c ev h) = fst (arun c g h) /\
  exists lastf, Rep c (snd (brun c ev h)) (snd (arun c g h)) lastf.
Proof.
  intros Hw. induction h as [|x r IH]; intros ev g last HR Hm; simpl.
  - split; [reflexivity|]. exists last. exact HR.
  - destruct Hm as [Hl Hm].
    destruct (bstep_refines c ev g last x Hw HR Hl) as [E1 E2].
    destruct (bstep c ev x) as [o ev'] eqn:B. destruct (astep c g x) as [o' g'] eqn:A. simpl in *. subst o'.
    specialize (IH ev' g' (fst x) E2 Hm).
    destruct (brun c ev' r) as [os evf]. destruct (arun c g' r) as [os' gf]. simpl in *.
    destruct IH as [E3 E4]. split; [congruence|exact E4].
Qed.

(** ---- the window bound on the specification ---- *)
Definition in_win (a w : Z) (t : Z) : bool := (a <=? t) && (t <? a + w).
Definition win_count (a w : Z) (g : list Z) : Z := zlen (filter (in_win a w) g).

Lemma filter_incl_length {A} (f h : A -> bool) l :
  (forall x, In x l -> f x = true -> h x = true) -> (length (filter f l) <= length (filter h l))%nat.
Proof.
  induction l as [|a r IH]; simpl; intros H; [lia|].
  assert (IH' := IH (fun x Hx => H x (or_intror Hx))).
  destruct (f a) eqn:F; [rewrite (H a (or_introl eq_refl) F); simpl; lia|].
  destruct (h a); simpl; lia.
Qed.

Lemma zlen_app {A} (a b : list A) : zlen (a ++ b) = zlen a + zlen b.
Proof. unfold zlen. rewrite app_length. lia. Qed.
Lemma zlen_repeat {A} (t : A) n : zlen (repeat t n) = Z.of_nat n.
Proof. unfold zlen. rewrite repeat_length. reflexivity. Qed.
Lemma zlen_nonneg {A} (l : list A) : 0 <= zlen l.
Proof. unfold zlen. lia. Qed.

Definition Bounded (c : bcfg) (g : list Z) (last : Z) : Prop :=
  (forall x, In x g -> x <= last) /\ forall a, win_count a (bwin c) g <= bmax c.

Lemma astep_bounded c g last x :
  0 < bwin c -> 0 <= bmax c -> Bounded c g last -> last <= fst x ->
  Bounded c (snd (astep c g x)) (fst x).
Proof.
  intros Hw Hm [Hle Hb] Hl. destruct x as [now op]. simpl in Hl. unfold astep; simpl.
  assert (Keep: Bounded c g now) by (split; [intros y Hy; specialize (Hle y Hy); lia|exact Hb]).
  destruct op as [cost|]; [|exact Keep].
  unfold aconsume. destruct (cost <? 1) eqn:Ec; [exact Keep|].
  destruct (bmax c <? _) eqn:T; [exact Keep|]. simpl.
  split. { intros y Hy. apply in_app_or in Hy as [Hy|Hy]; [specialize (Hle y Hy); lia|apply In_repeat_eq in Hy; lia]. }
  intros a. unfold win_count. rewrite filter_app, zlen_app.
  destruct (in_win a (bwin c) now) eqn:W.
  - (* the new grants fall in this window: everything else in it is still live *)
    assert (L1: zlen (filter (in_win a (bwin c)) g) <= zlen (live (now - bwin c) g)).
    { unfold zlen, live. apply inj_le. apply filter_incl_length. intros y _ Hy. unfold in_win in *. lia. }
    assert (L2: zlen (filter (in_win a (bwin c)) (repeat now (Z.to_nat cost))) <= cost).
    { unfold zlen. pose proof (filter_length_le (in_win a (bwin c)) (repeat now (Z.to_nat cost))) as P.
      rewrite repeat_length in P. lia. }
    lia.
  - rewrite (filter_all_false (in_win a (bwin c)) (repeat now (Z.to_nat cost))).
    + specialize (Hb a). unfold win_count in Hb. unfold zlen at 2. simpl. lia.
    + intros y Hy. apply In_repeat_eq in Hy. subst. exact W.
Qed.

Lemma arun_bounded c : 0 < bwin c -> 0 <= bmax c ->
  forall h g last, Bounded c g last -> mono last h -> exists lastf, Bounded c (snd (arun c g h)) lastf.
Proof.
  intros Hw Hm. induction h as [|x r IH]; intros g last HB Hmono; simpl.
  - exists last. exact HB.
  - destruct Hmono as [Hl Hmono]. pose proof (astep_bounded c g last x Hw Hm HB Hl) as HB'.
    destruct (astep c g x) as [o g'] eqn:A. simpl in HB'.
    specialize (IH g' (fst x) HB' Hmono). destruct (arun c g' r) as [os gf]. simpl in *. exact IH.
Qed.

Lemma Bounded_init c t : 0 <= bmax c -> Bounded c [] t.
Proof. intros H. split; [intros x []|]. intros a. unfold win_count, zlen. simpl. lia. Qed.

(** ---- statements used by Props/C10.v ---- *)

(** (1) the implementation deque answers exactly like the grant-history specification *)
Lemma budget_refinement c t0 h :
  0 < bwin c -> mono t0 h -> fst (brun c [] h) = fst (arun c [] h).
Proof. intros Hw Hm. apply (brun_refines c Hw h [] [] t0 (Rep_init c t0) Hm). Qed.

(** (2) no window of length [bwin] ever contains more than [bmax] grants *)
Lemma budget_window_bound c t0 h a :
  0 < bwin c -> 0 <= bmax c -> mono t0 h ->
  win_count a (bwin c) (snd (arun c [] h)) <= bmax c.
Proof.
  intros Hw Hm Hmono.
  destruct (arun_bounded c Hw Hm h [] t0 (Bounded_init c t0 Hm) Hmono) as [lf [_ Hb]]. apply Hb.
Qed.

(** (3) a consume is refused exactly when the live window cannot take [cost] more *)
Lemma budget_refuse_iff c now cost g :
  1 <= cost ->
  (fst (aconsume c now cost g) = RRefuse <-> bmax c < zlen (live (now - bwin c) g) + cost) /\
  (fst (aconsume c now cost g) = RGrant <-> zlen (live (now - bwin c) g) + cost <= bmax c).
Proof.
  intros Hc. unfold aconsume. replace (cost <? 1) with false by lia.
  destruct (bmax c <? _) eqn:T; simpl; split; split; intros H; first [discriminate | lia | reflexivity].
Qed.

(** (4) remaining() = capacity left in the live window, so capacity returns exactly when a grant's
    age reaches the window (a grant at time t is live at [now] iff now - bwin < t) *)
Lemma budget_remaining c now g :
  fst (aremaining c now g) = RRem (Z.max (bmax c - zlen (live (now - bwin c) g)) 0).
Proof. reflexivity. Qed.

Lemma live_boundary c now t : In t (live (now - bwin c) [t]) <-> now - t < bwin c.
Proof. unfold live; simpl. destruct (now - bwin c <? t) eqn:E; simpl; split; intros H; first [lia | tauto | auto].
Qed.

(** grants recorded by the specification = exactly the RGrant answers (one entry per unit of cost) *)
Lemma aconsume_grants c now cost g :
  snd (aconsume c now cost g) =
  match fst (aconsume c now cost g) with RGrant => g ++ repeat now (Z.to_nat cost) | _ => g end.
Proof. unfold aconsume. destruct (cost <? 1); [reflexivity|]. destruct (bmax c <? _); reflexivity. Qed.
