(** Classify.v — model of the built-in classifiers over a model of Python's built-in values:
      classify.py                 _classify / default_classifier / strict_classifier
      extras/http.py              _coerce_status / http_classifier
      extras/sqlstate.py          _extract_sqlstate / sqlstate_classifier
      extras/pyodbc.py            _extract_sqlstate / pyodbc_classifier
      extras/{aiohttp,grpc,boto3,redis,urllib3}.py   when the library is absent
    Every primitive the classifiers apply to attribute values (truthiness, isinstance(_, int), ==,
    range tests, str(), iteration over args, the two fixed-width regular expressions) is a total
    function on [pyval]. *)
From Redress Require Import Base.
Open Scope Z_scope.

(** a character: its code point and whether it is a word character for the regex engine (\w) *)
Definition schr := (Z * bool)%type.
Definition str := list schr.

(** Python's built-in values as far as the classifiers can tell them apart; every value carries the
    text str() gives for it (only used where the code calls str()) *)
Inductive pykind :=
| VNone
| VBool (b : bool)
| VInt (z : Z)
| VFloat (nonzero : bool)          (* truthiness; NaN is truthy *)
| VStr
| VBytes (nonempty : bool)
| VSeq (nonempty : bool)           (* list / tuple / set *)
| VDict (nonempty : bool)
| VObj.                            (* a plain object *)
Record pyval := { pv_kind : pykind; pv_text : str }.

Definition truthy (v : pyval) : bool :=
  match pv_kind v with
  | VNone => false
  | VBool b => b
  | VInt z => negb (z =? 0)
  | VFloat nz => nz
  | VStr => match pv_text v with [] => false | _ => true end
  | VBytes ne | VSeq ne | VDict ne => ne
  | VObj => true
  end.
(** isinstance(v, int): bool is a subclass of int; the integer value *)
Definition as_int (v : pyval) : option Z :=
  match pv_kind v with VBool b => Some (if b then 1 else 0) | VInt z => Some z | _ => None end.
Definition is_none (v : pyval) : bool := match pv_kind v with VNone => true | _ => false end.
Definition is_str (v : pyval) : bool := match pv_kind v with VStr => true | _ => false end.
(** [a or b] *)
Definition py_or (a b : pyval) : pyval := if truthy a then a else b.

(** which of the marker types (or TimeoutError) the exception is an instance of *)
Inductive exn_kind := KTimeout | KPermanent | KRateLimit | KConcurrency | KServer | KPlain.

Record pyexc := {
  e_kind : exn_kind;
  e_name_auth : bool;       (* type name contains auth / unauthoriz / credential (lower-cased) *)
  e_name_perm : bool;       (* ... forbid / permission *)
  e_name_trans : bool;      (* ... timeout / connection *)
  e_status : pyval; e_status_code : pyval; e_code : pyval; e_sqlstate : pyval;   (* absent attribute = None *)
  e_args : list pyval        (* what iterating exc.args yields; an `args` attribute that cannot be iterated (a type's own
                                attribute holding None, a number, a plain object) carries no arguments: [] *)
}.

(** the documented status table of default/strict *)
Definition status_table (z : Z) : option klass :=
  if z =? 401 then Some AUTH else
  if z =? 403 then Some PERMISSION else
  if (z =? 400) || (z =? 404) || (z =? 422) then Some PERMANENT else
  if z =? 409 then Some CONCURRENCY else
  if z =? 408 then Some TRANSIENT else
  if z =? 429 then Some RATE_LIMIT else
  if (500 <=? z) && (z <? 600) then Some SERVER_ERROR else None.

(** classify.py:20-59 *)
Definition classify (names : bool) (e : pyexc) : klass :=
  match e_kind e with
  | KTimeout => TRANSIENT
  | KPermanent => PERMANENT
  | KRateLimit => RATE_LIMIT
  | KConcurrency => CONCURRENCY
  | KServer => SERVER_ERROR
  | KPlain =>
      let code := py_or (e_status e) (e_code e) in
      match (match as_int code with Some z => status_table z | None => None end) with
      | Some k => k
      | None =>
          if names then
            if e_name_auth e then AUTH else if e_name_perm e then PERMISSION
            else if e_name_trans e then TRANSIENT else UNKNOWN
          else UNKNOWN
      end
  end.
Definition default_classifier := classify true.
Definition strict_classifier := classify false.

(** extras/http.py:12-44 *)
Definition coerce_status (e : pyexc) : option Z :=
  match as_int (e_status e) with Some z => Some z | None =>
  match as_int (e_status_code e) with Some z => Some z | None =>
  match as_int (e_code e) with Some z => Some z | None =>
    match find (fun a => match as_int a with Some z => (100 <=? z) && (z <=? 599) | None => false end) (e_args e) with
    | Some a => as_int a
    | None => None
    end
  end end end.

Definition http_table (z : Z) : klass :=
  if z =? 401 then AUTH else if z =? 403 then PERMISSION else
  if z =? 409 then CONCURRENCY else if z =? 429 then RATE_LIMIT else if z =? 408 then TRANSIENT else
  if (500 <=? z) && (z <? 600) then SERVER_ERROR else
  if (z =? 400) || (z =? 404) then PERMANENT else UNKNOWN.

Definition http_classifier (e : pyexc) : klass :=
  match coerce_status e with Some z => http_table z | None => default_classifier e end.

(** ---------------- SQLSTATE ---------------- *)
Definition code_of (c : schr) : Z := fst c.
Definition is_word (c : schr) : bool := snd c.
(** [0-9A-Z] *)
Definition in_class (c : schr) : bool :=
  let z := code_of c in ((48 <=? z) && (z <=? 57)) || ((65 <=? z) && (z <=? 90)).

Fixpoint take5 (l : str) (n : nat) {struct n} : option (str * str) :=
  match n with
  | O => Some ([], l)
  | S k => match l with
           | c :: r => if in_class c then match take5 r k with Some (a, b) => Some (c :: a, b) | None => None end else None
           | [] => None
           end
  end.

(** re.search(r"\b([0-9A-Z]{5})\b", s): leftmost position where five class characters are preceded and
    followed by a non-word character or the string's edge *)
Fixpoint search_sqlstate (prev_word : bool) (l : str) : option str :=
  match l with
  | [] => None
  | c :: r =>
      match (if prev_word then None else take5 l 5) with
      | Some (m, rest) =>
          match rest with
          | [] => Some m
          | d :: _ => if is_word d then search_sqlstate (is_word c) r else Some m
          end
      | None => search_sqlstate (is_word c) r
      end
  end.

(** re.search(r"\[([0-9A-Z]{5})\]", s) *)
Fixpoint search_bracketed (l : str) : option str :=
  match l with
  | [] => None
  | c :: r =>
      if code_of c =? 91 then
        match take5 r 5 with
        | Some (m, d :: _) => if code_of d =? 93 then Some m else search_bracketed r
        | _ => search_bracketed r
        end
      else search_bracketed r
  end.

Fixpoint extract (search : str -> option str) (args : list pyval) : option str :=
  match args with
  | [] => None
  | a :: r => if is_str a then match search (pv_text a) with Some m => Some m | None => extract search r end
              else extract search r
  end.

Definition codes (l : str) : list Z := map code_of l.
Fixpoint zlist_eqb (a b : list Z) : bool :=
  match a, b with
  | [], [] => true
  | x :: r, y :: s => (x =? y) && zlist_eqb r s
  | _, _ => false
  end.
Definition starts_with (p l : list Z) : bool := zlist_eqb p (firstn (length p) l).

(* "40001" "40P01" "HYT00" "HYT01" "08S01" "08" "28" "42000" "42P01" *)
Definition s40001 := [52; 48; 48; 48; 49].   Definition s40P01 := [52; 48; 80; 48; 49].
Definition sHYT00 := [72; 89; 84; 48; 48].   Definition sHYT01 := [72; 89; 84; 48; 49].
Definition s08S01 := [48; 56; 83; 48; 49].   Definition s08 := [48; 56].   Definition s28 := [50; 56].
Definition s42000 := [52; 50; 48; 48; 48].   Definition s42P01 := [52; 50; 80; 48; 49].

Definition sqlstate_table (code : list Z) : klass :=
  if zlist_eqb code s40001 || zlist_eqb code s40P01 then CONCURRENCY else
  if zlist_eqb code sHYT00 || zlist_eqb code sHYT01 || zlist_eqb code s08S01 || starts_with s08 code then TRANSIENT else
  if starts_with s28 code then AUTH else
  if zlist_eqb code s42000 || zlist_eqb code s42P01 then PERMANENT else UNKNOWN.

(** CPython refuses str() of an int with more than 4300 digits (ValueError, sys.get_int_max_str_digits()); both
    classifiers then see no code at all, which the empty text stands for ([sqlstate_table []] is UNKNOWN) *)
Definition str_limit : Z := 10 ^ 4300.
Definition str_refused (v : pyval) : bool :=
  match pv_kind v with VInt z => str_limit <=? Z.abs z | _ => false end.
Definition py_str (v : pyval) : str := if str_refused v then [] else pv_text v.

(** sqlstate = getattr(exc, "sqlstate", None) or _extract_sqlstate(args): the text of str(sqlstate) *)
Definition sqlstate_text (search : str -> option str) (e : pyexc) : option str :=
  if truthy (e_sqlstate e) then Some (py_str (e_sqlstate e)) else extract search (e_args e).

Definition sqlstate_classifier (e : pyexc) : klass :=
  match sqlstate_text (search_sqlstate false) e with
  | Some t => sqlstate_table (codes t)
  | None => default_classifier e
  end.
Definition pyodbc_classifier (e : pyexc) : klass :=
  match sqlstate_text search_bracketed e with
  | Some t => sqlstate_table (codes t)
  | None => UNKNOWN
  end.

(** the optional-library classifiers (aiohttp, grpc, boto3, redis, urllib3): only the branch taken when
    the library cannot be imported is modelled *)
Definition optional_classifier (lib_present : bool) (with_lib : pyexc -> klass) (e : pyexc) : klass :=
  if lib_present then with_lib e else default_classifier e.

(** ---------------- correspondence cases ---------------- *)
Record ccase := {
  cc_exc : pyexc;
  cc_default : klass; cc_strict : klass; cc_http : klass; cc_sqlstate : klass; cc_pyodbc : klass;
  cc_optional : list klass          (* the five optional classifiers, library absent *)
}.
Definition ccase_ok (c : ccase) : bool :=
  let e := cc_exc c in
  klass_eqb (default_classifier e) (cc_default c) && klass_eqb (strict_classifier e) (cc_strict c) &&
  klass_eqb (http_classifier e) (cc_http c) && klass_eqb (sqlstate_classifier e) (cc_sqlstate c) &&
  klass_eqb (pyodbc_classifier e) (cc_pyodbc c) &&
  forallb (fun k => klass_eqb (default_classifier e) k) (cc_optional c).
