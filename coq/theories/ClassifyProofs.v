(** ClassifyProofs.v — the built-in classifiers follow the documented table and precedence (C19). *)
From Redress Require Import Base Classify.
From Coq Require Import Lia.
Open Scope Z_scope.

(** marker types (and TimeoutError) win over everything else *)
Definition marker_class (k : exn_kind) : option klass :=
  match k with
  | KTimeout => Some TRANSIENT | KPermanent => Some PERMANENT | KRateLimit => Some RATE_LIMIT
  | KConcurrency => Some CONCURRENCY | KServer => Some SERVER_ERROR | KPlain => None
  end.

Lemma marker_wins names e k : marker_class (e_kind e) = Some k -> classify names e = k.
Proof. unfold classify. destruct (e_kind e); simpl; intros H; inversion H; reflexivity. Qed.

(** numeric status / code wins over the name heuristics *)
Lemma code_wins names e z k :
  e_kind e = KPlain -> as_int (py_or (e_status e) (e_code e)) = Some z -> status_table z = Some k ->
  classify names e = k.
Proof. intros K A T. unfold classify. rewrite K, A, T. reflexivity. Qed.

(** name heuristics apply only when neither a marker nor a table code decides *)
Lemma names_last e :
  e_kind e = KPlain ->
  (match as_int (py_or (e_status e) (e_code e)) with Some z => status_table z | None => None end) = None ->
  default_classifier e =
    (if e_name_auth e then AUTH else if e_name_perm e then PERMISSION else if e_name_trans e then TRANSIENT else UNKNOWN) /\
  strict_classifier e = UNKNOWN.
Proof. intros K T. unfold default_classifier, strict_classifier, classify. rewrite K, T. split; reflexivity. Qed.

Definition with_names (e : pyexc) (a p t : bool) : pyexc :=
  {| e_kind := e_kind e; e_name_auth := a; e_name_perm := p; e_name_trans := t; e_status := e_status e;
     e_status_code := e_status_code e; e_code := e_code e; e_sqlstate := e_sqlstate e; e_args := e_args e |}.

(** strict_classifier never looks at names *)
Lemma strict_ignores_names e a p t : strict_classifier (with_names e a p t) = strict_classifier e.
Proof. unfold strict_classifier, classify. simpl. destruct (e_kind e); try reflexivity. Qed.

(** the status table, for every integer *)
Lemma status_table_spec z :
  status_table z =
  if z =? 401 then Some AUTH else if z =? 403 then Some PERMISSION else
  if (z =? 400) || (z =? 404) || (z =? 422) then Some PERMANENT else
  if z =? 409 then Some CONCURRENCY else if z =? 408 then Some TRANSIENT else if z =? 429 then Some RATE_LIMIT else
  if (500 <=? z) && (z <? 600) then Some SERVER_ERROR else None.
Proof. reflexivity. Qed.

Lemma status_table_documented z :
  (z = 401 -> status_table z = Some AUTH) /\ (z = 403 -> status_table z = Some PERMISSION) /\
  (z = 400 \/ z = 404 \/ z = 422 -> status_table z = Some PERMANENT) /\ (z = 409 -> status_table z = Some CONCURRENCY) /\
  (z = 408 -> status_table z = Some TRANSIENT) /\ (z = 429 -> status_table z = Some RATE_LIMIT) /\
  (500 <= z < 600 -> status_table z = Some SERVER_ERROR) /\
  (z <> 401 -> z <> 403 -> z <> 400 -> z <> 404 -> z <> 422 -> z <> 409 -> z <> 408 -> z <> 429 -> ~ (500 <= z < 600) ->
   status_table z = None).
Proof.
  unfold status_table. repeat split; intros.
  - subst. reflexivity.
  - subst. reflexivity.
  - destruct H as [->|[->| ->]]; reflexivity.
  - subst. reflexivity.
  - subst. reflexivity.
  - subst. reflexivity.
  - repeat match goal with |- context [?a =? ?b] => destruct (Z.eqb_spec a b); [lia|] end. simpl.
    replace (500 <=? z) with true by lia. replace (z <? 600) with true by lia. reflexivity.
  - repeat match goal with |- context [?a =? ?b] => destruct (Z.eqb_spec a b); [lia|] end. simpl.
    destruct (500 <=? z) eqn:A; destruct (z <? 600) eqn:B; simpl; try reflexivity. lia.
Qed.

Lemma http_table_documented z :
  (z = 401 -> http_table z = AUTH) /\ (z = 403 -> http_table z = PERMISSION) /\ (z = 409 -> http_table z = CONCURRENCY) /\
  (z = 429 -> http_table z = RATE_LIMIT) /\ (z = 408 -> http_table z = TRANSIENT) /\
  (500 <= z < 600 -> http_table z = SERVER_ERROR) /\ (z = 400 \/ z = 404 -> http_table z = PERMANENT) /\
  (z <> 401 -> z <> 403 -> z <> 409 -> z <> 429 -> z <> 408 -> z <> 400 -> z <> 404 -> ~ (500 <= z < 600) -> http_table z = UNKNOWN).
Proof.
  unfold http_table. repeat split; intros.
  - subst; reflexivity.
  - subst; reflexivity.
  - subst; reflexivity.
  - subst; reflexivity.
  - subst; reflexivity.
  - repeat match goal with |- context [?a =? ?b] => destruct (Z.eqb_spec a b); [lia|] end.
    replace (500 <=? z) with true by lia. replace (z <? 600) with true by lia. reflexivity.
  - destruct H as [->| ->]; reflexivity.
  - repeat match goal with |- context [?a =? ?b] => destruct (Z.eqb_spec a b); [lia|] end. simpl.
    destruct (500 <=? z) eqn:A; destruct (z <? 600) eqn:B; simpl; try reflexivity. lia.
Qed.

(** http_classifier: the first integer among status / status_code / code, else the first integer argument
    in 100..599, else default_classifier *)
Lemma http_status_order e :
  coerce_status e =
  match as_int (e_status e), as_int (e_status_code e), as_int (e_code e) with
  | Some z, _, _ => Some z
  | None, Some z, _ => Some z
  | None, None, Some z => Some z
  | None, None, None =>
      match find (fun a => match as_int a with Some z => (100 <=? z) && (z <=? 599) | None => false end) (e_args e) with
      | Some a => as_int a | None => None end
  end.
Proof. unfold coerce_status. destruct (as_int (e_status e)), (as_int (e_status_code e)), (as_int (e_code e)); reflexivity. Qed.

Lemma http_classifier_spec e :
  http_classifier e = match coerce_status e with Some z => http_table z | None => default_classifier e end.
Proof. reflexivity. Qed.

(** SQLSTATE *)
Lemma zlist_eqb_eq a : forall b, zlist_eqb a b = true <-> a = b.
Proof.
  induction a as [|x a IH]; intros [|y b]; simpl; split; try congruence; try discriminate.
  - intros H. apply andb_true_iff in H as [E R]. apply Z.eqb_eq in E. apply IH in R. congruence.
  - intros H. inversion H; subst. rewrite Z.eqb_refl. simpl. apply IH. reflexivity.
Qed.

Lemma sqlstate_table_documented code :
  (code = s40001 \/ code = s40P01 -> sqlstate_table code = CONCURRENCY) /\
  (code = sHYT00 \/ code = sHYT01 \/ code = s08S01 -> sqlstate_table code = TRANSIENT) /\
  (starts_with s08 code = true -> sqlstate_table code = TRANSIENT) /\
  (starts_with s28 code = true -> sqlstate_table code = AUTH) /\
  (code = s42000 \/ code = s42P01 -> sqlstate_table code = PERMANENT).
Proof.
  repeat split.
  - intros [->| ->]; reflexivity.
  - intros [->|[->| ->]]; reflexivity.
  - intros H. unfold sqlstate_table.
    destruct (zlist_eqb code s40001) eqn:A; [apply zlist_eqb_eq in A; subst; discriminate|].
    destruct (zlist_eqb code s40P01) eqn:B; [apply zlist_eqb_eq in B; subst; discriminate|].
    simpl. rewrite H. rewrite !orb_true_r. reflexivity.
  - intros H. unfold sqlstate_table.
    destruct (zlist_eqb code s40001) eqn:A; [apply zlist_eqb_eq in A; subst; discriminate|].
    destruct (zlist_eqb code s40P01) eqn:B; [apply zlist_eqb_eq in B; subst; discriminate|].
    destruct (zlist_eqb code sHYT00) eqn:C; [apply zlist_eqb_eq in C; subst; discriminate|].
    destruct (zlist_eqb code sHYT01) eqn:D; [apply zlist_eqb_eq in D; subst; discriminate|].
    destruct (zlist_eqb code s08S01) eqn:E; [apply zlist_eqb_eq in E; subst; discriminate|].
    destruct (starts_with s08 code) eqn:F.
    { exfalso. unfold starts_with, s08, s28 in *.
      destruct code as [|x [|y r]]; cbn [length firstn zlist_eqb] in *; try discriminate;
        try (rewrite andb_false_r in H; discriminate).
      apply andb_true_iff in H as [H1 _]. apply andb_true_iff in F as [F1 _]. apply Z.eqb_eq in H1, F1. lia. }
    simpl. rewrite H. reflexivity.
  - intros [->| ->]; reflexivity.
Qed.

(** the sqlstate attribute wins over args; sqlstate_classifier falls back to default_classifier,
    pyodbc_classifier to UNKNOWN *)
Lemma sqlstate_attribute_first search e :
  truthy (e_sqlstate e) = true -> sqlstate_text search e = Some (py_str (e_sqlstate e)).
Proof. unfold sqlstate_text. intros ->. reflexivity. Qed.

Lemma sqlstate_fallbacks e :
  (sqlstate_text (search_sqlstate false) e = None -> sqlstate_classifier e = default_classifier e) /\
  (sqlstate_text search_bracketed e = None -> pyodbc_classifier e = UNKNOWN) /\
  (forall t, sqlstate_text (search_sqlstate false) e = Some t -> sqlstate_classifier e = sqlstate_table (codes t)) /\
  (forall t, sqlstate_text search_bracketed e = Some t -> pyodbc_classifier e = sqlstate_table (codes t)).
Proof. unfold sqlstate_classifier, pyodbc_classifier. repeat split; intros; rewrite H; reflexivity. Qed.

(** what the regular expressions find is five characters of [0-9A-Z] *)
Lemma take5_class : forall n l a b, take5 l n = Some (a, b) -> length a = n /\ forallb in_class a = true /\ l = a ++ b.
Proof.
  induction n as [|n IH]; intros l a b H; cbn [take5] in H.
  - injection H as <- <-. repeat split; reflexivity.
  - destruct l as [|c r]; [discriminate|]. destruct (in_class c) eqn:C; [|discriminate].
    destruct (take5 r n) as [[a' b']|] eqn:T; [|discriminate]. injection H as <- <-.
    destruct (IH _ _ _ T) as (L & F & E). cbn [length forallb app]. rewrite C, F, L, <- E. repeat split; reflexivity.
Qed.

Lemma search_sqlstate_class : forall l pw m, search_sqlstate pw l = Some m -> length m = 5%nat /\ forallb in_class m = true.
Proof.
  induction l as [|c r IH]; intros pw m H; cbn [search_sqlstate] in H; [discriminate|].
  destruct (if pw then None else take5 (c :: r) 5) as [[a rest]|] eqn:T.
  - destruct pw; [discriminate|]. apply take5_class in T as (L & F & _).
    destruct rest as [|d0 rest'].
    + injection H as <-. auto.
    + destruct (is_word d0); [eapply IH; eauto|injection H as <-; auto].
  - eapply IH; eauto.
Qed.

(** each optional-library classifier equals default_classifier when its library is absent *)
Lemma optional_absent w e : optional_classifier false w e = default_classifier e.
Proof. reflexivity. Qed.

(** totality: in the model every classifier is a total function into the eight classes *)
Lemma classifiers_total e :
  In (default_classifier e) all_klasses /\ In (strict_classifier e) all_klasses /\ In (http_classifier e) all_klasses /\
  In (sqlstate_classifier e) all_klasses /\ In (pyodbc_classifier e) all_klasses.
Proof.
  assert (A: forall k, In k all_klasses) by (intros []; simpl; tauto).
  repeat split; apply A.
Qed.

(** an int sqlstate beyond the interpreter's int-to-str digit limit is not a SQLSTATE: both classifiers answer UNKNOWN
    (on the pinned tree they raised ValueError; see known-findings.txt, fixed: property=C19) *)
Lemma str_limit_pos : 0 < str_limit.
Proof. unfold str_limit. apply Z.pow_pos_nonneg; lia. Qed.
Lemma huge_int_sqlstate_unknown e z t :
  e_sqlstate e = {| pv_kind := VInt z; pv_text := t |} -> str_limit <= Z.abs z ->
  sqlstate_classifier e = UNKNOWN /\ pyodbc_classifier e = UNKNOWN.
Proof.
  intros E H. pose proof str_limit_pos as P.
  assert (T: truthy (e_sqlstate e) = true).
  { rewrite E. unfold truthy. cbn [pv_kind]. destruct (Z.eqb_spec z 0) as [->|]; [simpl in H; lia|reflexivity]. }
  assert (R: py_str (e_sqlstate e) = []).
  { unfold py_str, str_refused. rewrite E. cbn [pv_kind]. destruct (Z.leb_spec str_limit (Z.abs z)); [reflexivity|lia]. }
  unfold sqlstate_classifier, pyodbc_classifier, sqlstate_text. rewrite T, R. split; reflexivity.
Qed.
