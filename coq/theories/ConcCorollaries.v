(** ConcCorollaries.v — the racing scenarios of C17 for every number of threads and every schedule. *)
From Redress Require Import Base Window Budget Breaker Concurrency ConcInstances.

Lemma in_log_calls_of {St L Out} (lg : list (nat * opcall St L Out)) j x : In (j, x) lg -> In x (calls_of St L Out j lg).
Proof.
  intros H. unfold calls_of. apply in_map_iff. exists (j, x). split; [reflexivity|].
  apply filter_In. split; [exact H|]. simpl. apply Nat.eqb_refl.
Qed.

Section Racing.
  Context {St L Out : Type} (s0 : St) (prog : nat -> list (opcall St L Out)).
  Variable P : opcall St L Out -> Prop.
  Hypothesis all_P : forall j x, In x (prog j) -> P x.

  (** in a complete execution every logged call is a call of its thread's program *)
  Lemma logged_calls sch :
    (forall j, done St L Out (thr St L Out (exec St L Out sch (init St L Out s0 prog)) j) = true) ->
    forall j x, In (j, x) (log St L Out (exec St L Out sch (init St L Out s0 prog))) -> P x.
  Proof.
    intros Hd j x Hin. destruct (linearizable_from_init St L Out s0 prog sch Hd) as (_ & _ & C).
    apply (all_P j). rewrite <- C. apply in_log_calls_of. exact Hin.
  Qed.
End Racing.

(** two (or any number of) racing probes are never both admitted *)
Theorem racing_probes c oa (s0 : kst) prog sch :
  st s0 = OPEN -> opened_at s0 = Some oa ->
  (forall j x, In x (prog j) -> is_late_allow c oa x) ->
  (forall j, done _ _ _ (thr _ _ _ (exec _ _ _ sch (init _ _ _ s0 prog)) j) = true) ->
  let g' := exec _ _ _ sch (init _ _ _ s0 prog) in
  (forall j, outs _ _ _ (thr _ _ _ g' j) = seq_outs _ _ _ j (log _ _ _ g') s0) /\
  length (filter admitted (seq_results (log _ _ _ g') s0)) = match log _ _ _ g' with [] => 0 | _ => 1 end%nat.
Proof.
  intros S O HP Hd g'. destruct (linearizable_from_init _ _ _ s0 prog sch Hd) as (_ & B & _).
  split; [exact B|]. apply (late_allows_seq c oa); [|exact S|exact O].
  apply (logged_calls s0 prog (is_late_allow c oa) HP sch Hd).
Qed.

(** racing failures open the circuit at most once *)
Theorem racing_failures c (s0 : kst) prog sch :
  (forall j x, In x (prog j) -> is_failure c x) ->
  (forall j, done _ _ _ (thr _ _ _ (exec _ _ _ sch (init _ _ _ s0 prog)) j) = true) ->
  let g' := exec _ _ _ sch (init _ _ _ s0 prog) in
  (forall j, outs _ _ _ (thr _ _ _ g' j) = seq_outs _ _ _ j (log _ _ _ g') s0) /\
  (length (filter opened_ev (seq_results (log _ _ _ g') s0)) <= 1)%nat.
Proof.
  intros HP Hd g'. destruct (linearizable_from_init _ _ _ s0 prog sch Hd) as (_ & B & _).
  split; [exact B|].
  pose proof (failures_open_once c (log _ _ _ g') s0 (logged_calls s0 prog (is_failure c) HP sch Hd)) as H.
  destruct (cstate_eqb (st s0) OPEN); lia.
Qed.

(** racing consume() calls never over-grant *)
Theorem racing_consumes c t (ev0 : list Z) prog sch :
  (forall j x, In x (prog j) -> is_consume1 c t x) ->
  (forall y, In y ev0 -> y <= t) -> sorted ev0 -> 0 < bwin c ->
  (forall j, done _ _ _ (thr _ _ _ (exec _ _ _ sch (init _ _ _ ev0 prog)) j) = true) ->
  let g' := exec _ _ _ sch (init _ _ _ ev0 prog) in
  (forall j, outs _ _ _ (thr _ _ _ g' j) = seq_outs _ _ _ j (log _ _ _ g') ev0) /\
  Z.of_nat (length (filter granted (seq_results (log _ _ _ g') ev0))) =
    Z.min (Z.of_nat (length (log _ _ _ g'))) (Z.max 0 (bmax c - zlen (prune (t - bwin c) ev0))).
Proof.
  intros HP LE SO W Hd g'. destruct (linearizable_from_init _ _ _ ev0 prog sch Hd) as (_ & B & _).
  split; [exact B|]. apply consumes_seq; auto.
  apply (logged_calls ev0 prog (is_consume1 c t) HP sch Hd).
Qed.
