(** ConcInstances.v — CircuitBreaker and Budget as lock-protected objects (C17): every public method
    reads the clock (if at all) before taking the lock and runs its whole read-modify-write under it;
    the sequential bodies are the models of Breaker.v / Budget.v. *)
From Redress Require Import Base Window Budget Breaker Concurrency.

(** a call of a CircuitBreaker method at clock reading [t] *)
Definition kcall (c : kcfg) (t : Z) (o : kop) : opcall kst (option kres) (option kres) :=
  {| pre := 1; loc0 := None;
     steps := [fun sl => let '(r, s') := kstep c (fst sl) (t, o) in (s', Some r)];
     res := fun l => l |}.
(** a call of a Budget method *)
Definition bcall (c : bcfg) (t : Z) (o : bop) : opcall (list Z) (option bres) (option bres) :=
  {| pre := 1; loc0 := None;
     steps := [fun sl => let '(r, s') := bstep c (fst sl) (t, o) in (s', Some r)];
     res := fun l => l |}.

Lemma atomic_kcall c t o s : atomic _ _ _ (kcall c t o) s = (snd (kstep c s (t, o)), Some (fst (kstep c s (t, o)))).
Proof. unfold atomic, run_steps. simpl. destruct (kstep c s (t, o)). reflexivity. Qed.
Lemma atomic_bcall c t o s : atomic _ _ _ (bcall c t o) s = (snd (bstep c s (t, o)), Some (fst (bstep c s (t, o)))).
Proof. unfold atomic, run_steps. simpl. destruct (bstep c s (t, o)). reflexivity. Qed.

(** all results of the calls of a log, in lock order *)
Fixpoint seq_results {St L Out} (lg : list (nat * opcall St L Out)) (s : St) : list Out :=
  match lg with
  | [] => []
  | (_, c) :: r => let '(s', o) := atomic _ _ _ c s in o :: seq_results r s'
  end.

(** ---------------- racing probes ---------------- *)
Definition admitted (r : option kres) : bool := match r with Some (KDecision true _ _) => true | _ => false end.
Definition is_late_allow (c : kcfg) (oa : Z) (x : opcall kst (option kres) (option kres)) : Prop :=
  exists t, x = kcall c t KAllow /\ k_rto c <= t - oa.

(** while a probe is in flight every racing allow() is rejected ... *)
Lemma late_allows_rejected c oa : forall lg s,
  (forall j x, In (j, x) lg -> is_late_allow c oa x) ->
  st s = HALF_OPEN -> probe s = true ->
  length (filter admitted (seq_results lg s)) = 0%nat.
Proof.
  induction lg as [|[j x] r IH]; intros s HA S P; [reflexivity|].
  destruct (HA j x (or_introl eq_refl)) as (t & -> & RT).
  cbn [seq_results]. rewrite atomic_kcall. cbn [kstep snd fst].
  unfold allow at 1 2. rewrite S, P. cbn [fst snd filter admitted].
  apply IH; [intros; eapply HA; right; eauto|exact S|exact P].
Qed.

(** ... so from an open breaker whose recovery timeout has elapsed for every caller, any number of racing
    allow() calls in any order: exactly the first in lock order is admitted *)
Lemma late_allows_seq c oa lg s :
  (forall j x, In (j, x) lg -> is_late_allow c oa x) ->
  st s = OPEN -> opened_at s = Some oa ->
  length (filter admitted (seq_results lg s)) = match lg with [] => 0 | _ => 1 end%nat.
Proof.
  intros HA S O. destruct lg as [|[j x] r]; [reflexivity|].
  destruct (HA j x (or_introl eq_refl)) as (t & -> & RT).
  cbn [seq_results]. rewrite atomic_kcall. cbn [kstep snd fst].
  unfold allow at 1 2. rewrite S, O. replace (k_rto c <=? t - oa) with true by lia. cbn [fst snd filter admitted length].
  rewrite (late_allows_rejected c oa r); [reflexivity| |reflexivity|reflexivity].
  intros; eapply HA; right; eauto.
Qed.

(** ---------------- racing failures ---------------- *)
Definition opened_ev (r : option kres) : bool :=
  match r with Some (KEvent (Some N_CIRCUIT_OPENED)) => true | _ => false end.
Definition is_failure (c : kcfg) (x : opcall kst (option kres) (option kres)) : Prop :=
  exists t k, x = kcall c t (KFail k).

(** any number of racing record_failure() calls, in any order and with any clock readings: the circuit
    opens at most once *)
Lemma failures_open_once c : forall lg s,
  (forall j x, In (j, x) lg -> is_failure c x) ->
  (length (filter opened_ev (seq_results lg s)) <= (if cstate_eqb (st s) OPEN then 0 else 1))%nat.
Proof.
  induction lg as [|[j x] r IH]; intros s HA.
  - simpl. destruct (cstate_eqb (st s) OPEN); lia.
  - destruct (HA j x (or_introl eq_refl)) as (t & k & ->).
    cbn [seq_results]. rewrite atomic_kcall. cbn [kstep snd fst].
    assert (HA': forall j x, In (j, x) r -> is_failure c x) by (intros; eapply HA; right; eauto).
    specialize (IH (snd (record_failure c k t s)) HA').
    unfold record_failure in *. destruct (st s) eqn:S; cbn [cstate_eqb].
    + (* CLOSED *)
      destruct (negb (trips c k)); cbn [fst snd filter opened_ev] in *.
      * rewrite S in IH. exact IH.
      * destruct (note_failure c k t s) as [[so f'] cf']. destruct so; cbn [fst snd filter opened_ev st cstate_eqb length] in *; lia.
    + (* OPEN *) cbn [fst snd filter opened_ev] in *. rewrite S in IH. exact IH.
    + (* HALF_OPEN *) cbn [fst snd filter opened_ev opened st cstate_eqb length] in *. lia.
Qed.

(** ---------------- racing consume() ---------------- *)
Definition granted (r : option bres) : bool := match r with Some RGrant => true | _ => false end.
Definition is_consume1 (c : bcfg) (t : Z) (x : opcall (list Z) (option bres) (option bres)) : Prop :=
  x = bcall c t (BConsume 1).

(** racing consume() calls that read the same clock value never over-grant: the number of grants is
    exactly the capacity that was left, or the number of calls if that is smaller *)
Lemma consumes_seq c t : forall lg ev,
  (forall j x, In (j, x) lg -> is_consume1 c t x) ->
  (forall y, In y ev -> y <= t) -> sorted ev -> 0 < bwin c ->
  Z.of_nat (length (filter granted (seq_results lg ev))) =
  Z.min (Z.of_nat (length lg)) (Z.max 0 (bmax c - zlen (prune (t - bwin c) ev))).
Proof.
  induction lg as [|[j x] r IH]; intros ev HA LE SO W.
  - simpl. lia.
  - rewrite (HA j x (or_introl eq_refl)). cbn [seq_results]. rewrite atomic_bcall. cbn [bstep snd fst].
    assert (HA': forall j x, In (j, x) r -> is_consume1 c t x) by (intros; eapply HA; right; eauto).
    unfold consume. cbn [Z.ltb Z.compare]. change (1 <? 1) with false. cbn iota.
    set (ev' := prune (t - bwin c) ev).
    assert (PP: prune (t - bwin c) ev' = ev').
    { unfold ev'. rewrite (prune_is_live _ ev) by auto. rewrite prune_is_live by (apply sorted_live; auto). apply live_live. lia. }
    assert (SO': sorted ev') by (unfold ev'; rewrite prune_is_live by auto; apply sorted_live; auto).
    assert (LE': forall y, In y ev' -> y <= t).
    { unfold ev'. rewrite prune_is_live by auto. intros y Hy. apply filter_In in Hy as [Hy _]. auto. }
    destruct (bmax c <? zlen ev' + 1) eqn:F; cbn [fst snd filter granted].
    + rewrite (IH ev' HA' LE' SO' W), PP. cbn [length]. lia.
    + change (Z.to_nat 1) with 1%nat. cbn [repeat].
      assert (SO2: sorted (ev' ++ [t])) by (apply sorted_snoc; auto).
      assert (LE2: forall y, In y (ev' ++ [t]) -> y <= t).
      { intros y Hy. apply in_app_or in Hy as [Hy|[<-|[]]]; [auto|lia]. }
      cbn [length]. rewrite Nat2Z.inj_succ, (IH (ev' ++ [t]) HA' LE2 SO2 W).
      assert (PR: prune (t - bwin c) (ev' ++ [t]) = ev' ++ [t]).
      { rewrite prune_is_live by auto. rewrite live_app. rewrite <- prune_is_live by auto. rewrite PP.
        unfold live. simpl. replace (t - bwin c <? t) with true by lia. reflexivity. }
      rewrite PR. unfold zlen in *. rewrite app_length. cbn [length]. lia.
Qed.
