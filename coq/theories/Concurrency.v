(** Concurrency.v — a generic lock-protected object under an arbitrary scheduler (C17).
    Threads run programs (lists of calls of public methods).  A call is: some local steps before the lock
    (reading immutable configuration and the clock — what they read is an input of the call), [acquire],
    a body given as a list of steps over (shared state, local state), [release], return.  A schedule is any
    list of thread ids; a step of a thread is enabled unless it is [acquire] and the lock is held.
    Proved for every object, every list of programs and every schedule: the results and the final shared
    state are those of executing the bodies atomically in the order of their acquire steps
    (linearizability), that order respects each thread's program order, and no reachable configuration with
    an unfinished thread is stuck (deadlock freedom). *)
From Coq Require Import List Arith Bool Lia.
Import ListNotations.


Section Conc.
Variables (St L Out : Type).

(* one call of a public method: [pre] local steps before the lock, then under the lock a list
   of line-steps over (shared, local), then a result read from the local state *)
Record opcall := { pre : nat; loc0 : L; steps : list (St * L -> St * L); res : L -> Out }.

Definition run_steps (fs : list (St * L -> St * L)) (sl : St * L) : St * L := fold_left (fun x f => f x) fs sl.
Definition atomic (c : opcall) (s : St) : St * Out :=
  let '(s', l') := run_steps (steps c) (s, loc0 c) in (s', res c l').

Inductive phase :=
| Idle                                         (* between calls *)
| Pre (n : nat) (c : opcall)                   (* n local steps left before acquire *)
| Wait (c : opcall)                            (* next step: acquire *)
| InCS (c : opcall) (rem : list (St * L -> St * L)) (l : L)   (* holds the lock *)
.
Record tstate := { todo : list opcall; ph : phase; outs : list Out }.
Record glob := { sh : St; owner : option nat; thr : nat -> tstate; log : list (nat * opcall) }.

Definition upd (f : nat -> tstate) (i : nat) (t : tstate) : nat -> tstate :=
  fun j => if Nat.eqb i j then t else f j.

Definition done (t : tstate) : bool := match ph t, todo t with Idle, [] => true | _, _ => false end.

(* one step of thread i; None = not enabled *)
Definition step (i : nat) (g : glob) : option glob :=
  let t := thr g i in
  match ph t with
  | Idle => match todo t with
            | [] => None
            | c :: r => Some {| sh := sh g; owner := owner g; log := log g;
                                thr := upd (thr g) i {| todo := r; ph := Pre (pre c) c; outs := outs t |} |}
            end
  | Pre (S n) c => Some {| sh := sh g; owner := owner g; log := log g;
                           thr := upd (thr g) i {| todo := todo t; ph := Pre n c; outs := outs t |} |}
  | Pre O c => Some {| sh := sh g; owner := owner g; log := log g;
                       thr := upd (thr g) i {| todo := todo t; ph := Wait c; outs := outs t |} |}
  | Wait c => match owner g with
              | Some _ => None
              | None => Some {| sh := sh g; owner := Some i; log := log g ++ [(i, c)];
                                thr := upd (thr g) i {| todo := todo t; ph := InCS c (steps c) (loc0 c); outs := outs t |} |}
              end
  | InCS c (f :: rem) l =>
      let '(s', l') := f (sh g, l) in
      Some {| sh := s'; owner := owner g; log := log g;
              thr := upd (thr g) i {| todo := todo t; ph := InCS c rem l'; outs := outs t |} |}
  | InCS c [] l =>  (* release and return *)
      Some {| sh := sh g; owner := None; log := log g;
              thr := upd (thr g) i {| todo := todo t; ph := Idle; outs := outs t ++ [res c l] |} |}
  end.

Definition step' i g := match step i g with Some g' => g' | None => g end.
Definition exec (sch : list nat) (g : glob) : glob := fold_left (fun g i => step' i g) sch g.

(* sequential reference: run the logged calls atomically in log order *)
Fixpoint seq_state (lg : list (nat * opcall)) (s : St) : St :=
  match lg with [] => s | (_, c) :: r => seq_state r (fst (atomic c s)) end.
Fixpoint seq_outs (i : nat) (lg : list (nat * opcall)) (s : St) : list Out :=
  match lg with
  | [] => []
  | (j, c) :: r => let '(s', o) := atomic c s in (if Nat.eqb i j then [o] else []) ++ seq_outs i r s'
  end.

Lemma seq_state_app lg1 lg2 s : seq_state (lg1 ++ lg2) s = seq_state lg2 (seq_state lg1 s).
Proof. revert s; induction lg1 as [|[j c] r IH]; simpl; intros; auto. Qed.
Lemma seq_outs_app i lg1 lg2 s : seq_outs i (lg1 ++ lg2) s = seq_outs i lg1 s ++ seq_outs i lg2 (seq_state lg1 s).
Proof. revert s; induction lg1 as [|[j c] r IH]; simpl; intros; auto.
  destruct (atomic c s) as [s' o] eqn:E. simpl. rewrite IH. rewrite app_assoc. reflexivity. Qed.

Definition in_cs (t : tstate) : bool := match ph t with InCS _ _ _ => true | _ => false end.

Variable s0 : St.

(* invariant *)
Record Inv (g : glob) : Prop := {
  inv_free : owner g = None ->
     sh g = seq_state (log g) s0 /\ (forall j, in_cs (thr g j) = false) /\
     (forall j, outs (thr g j) = seq_outs j (log g) s0);
  inv_held : forall o, owner g = Some o ->
     exists c rem l lg,
       ph (thr g o) = InCS c rem l /\ log g = lg ++ [(o, c)] /\
       run_steps rem (sh g, l) = run_steps (steps c) (seq_state lg s0, loc0 c) /\
       (forall j, j <> o -> in_cs (thr g j) = false) /\
       (forall j, outs (thr g j) = seq_outs j lg s0)
}.

Lemma upd_same f i t : upd f i t i = t.
Proof. unfold upd. rewrite Nat.eqb_refl. reflexivity. Qed.
Lemma upd_other f i t j : i <> j -> upd f i t j = f j.
Proof. unfold upd. intros H. destruct (Nat.eqb_spec i j); congruence. Qed.

Lemma step_inv i g g' : Inv g -> step i g = Some g' -> Inv g'.
Proof.
  intros [Hfree Hheld] Hs. unfold step in Hs.
  destruct (ph (thr g i)) as [|n c|c|c rem l] eqn:Ph.
  - (* Idle *) destruct (todo (thr g i)) as [|c r] eqn:Td; [discriminate|]. inversion Hs; subst; clear Hs.
    split; simpl.
    + intros Ho. destruct (Hfree Ho) as (A & B & C). split; [exact A|]. split.
      * intros j. destruct (Nat.eq_dec i j) as [->|N]; [rewrite upd_same; reflexivity| rewrite upd_other by auto; apply B].
      * intros j. destruct (Nat.eq_dec i j) as [->|N]; [rewrite upd_same; simpl; apply C| rewrite upd_other by auto; apply C].
    + intros o Ho. destruct (Hheld o Ho) as (c0 & rem & l & lg & A & B & C & D & E).
      assert (i <> o). { intros ->. rewrite Ph in A. discriminate. }
      exists c0, rem, l, lg. rewrite upd_other by auto. repeat split; auto.
      * intros j Hj. destruct (Nat.eq_dec i j) as [->|N]; [rewrite upd_same; reflexivity| rewrite upd_other by auto; apply D; auto].
      * intros j. destruct (Nat.eq_dec i j) as [->|N]; [rewrite upd_same; simpl; apply E| rewrite upd_other by auto; apply E].
  - (* Pre *) 
    assert (exists ph', g' = {| sh := sh g; owner := owner g; log := log g;
               thr := upd (thr g) i {| todo := todo (thr g i); ph := ph'; outs := outs (thr g i) |} |} /\ 
               (forall c r l, ph' <> InCS c r l)) as (ph' & -> & Hph').
    { destruct n; inversion Hs; eexists; split; try reflexivity; intros; discriminate. }
    clear Hs. split; simpl.
    + intros Ho. destruct (Hfree Ho) as (A & B & C). split; [exact A|]. split.
      * intros j. destruct (Nat.eq_dec i j) as [->|N]; [rewrite upd_same; unfold in_cs; simpl; destruct ph'; auto; exfalso; eapply Hph'; eauto| rewrite upd_other by auto; apply B].
      * intros j. destruct (Nat.eq_dec i j) as [->|N]; [rewrite upd_same; simpl; apply C| rewrite upd_other by auto; apply C].
    + intros o Ho. destruct (Hheld o Ho) as (c0 & rem & l & lg & A & B & C & D & E).
      assert (i <> o). { intros ->. rewrite Ph in A. discriminate. }
      exists c0, rem, l, lg. rewrite upd_other by auto. repeat split; auto.
      * intros j Hj. destruct (Nat.eq_dec i j) as [->|N]; [rewrite upd_same; unfold in_cs; simpl; destruct ph'; auto; exfalso; eapply Hph'; eauto| rewrite upd_other by auto; apply D; auto].
      * intros j. destruct (Nat.eq_dec i j) as [->|N]; [rewrite upd_same; simpl; apply E| rewrite upd_other by auto; apply E].
  - (* Wait: acquire *)
    destruct (owner g) eqn:Ow; [discriminate|]. inversion Hs; subst; clear Hs.
    destruct (Hfree eq_refl) as (A & B & C).
    split; simpl; [discriminate|].
    intros o Ho. inversion Ho; subst o. exists c, (steps c), (loc0 c), (log g).
    rewrite upd_same. simpl. repeat split; auto.
    + rewrite A. reflexivity.
    + intros j Hj. rewrite upd_other by auto. apply B.
    + intros j. destruct (Nat.eq_dec i j) as [->|N]; [rewrite upd_same; simpl; apply C| rewrite upd_other by auto; apply C].
  - (* InCS *)
    assert (Ho: owner g = Some i).
    { destruct (owner g) as [o|] eqn:Ow.
      - destruct (Hheld o eq_refl) as (c0 & rem0 & l0 & lg & A & B & C & D & E).
        destruct (Nat.eq_dec i o) as [->|N]; [reflexivity|]. specialize (D i N). unfold in_cs in D. rewrite Ph in D. discriminate.
      - destruct (Hfree eq_refl) as (A & B & C). specialize (B i). unfold in_cs in B. rewrite Ph in B. discriminate. }
    destruct (Hheld i Ho) as (c0 & rem0 & l0 & lg & A & B & C & D & E).
    rewrite Ph in A. inversion A; subst c0 rem0 l0. clear A.
    destruct rem as [|f rem].
    + (* release *) inversion Hs; subst; clear Hs. split; simpl; [|discriminate].
      intros _. simpl in C.
      assert (At: atomic c (seq_state lg s0) = (sh g, res c l)).
      { unfold atomic. rewrite <- C. reflexivity. }
      split; [| split].
      * rewrite B, seq_state_app. simpl. rewrite At. reflexivity.
      * intros j. destruct (Nat.eq_dec i j) as [->|N]; [rewrite upd_same; reflexivity| rewrite upd_other by auto; apply D; auto].
      * intros j. rewrite B, seq_outs_app. simpl. rewrite At.
        destruct (Nat.eq_dec i j) as [->|N].
        -- rewrite upd_same. simpl. rewrite Nat.eqb_refl. rewrite E. rewrite app_nil_r. reflexivity.
        -- rewrite upd_other by auto. rewrite E. destruct (Nat.eqb_spec j i); [congruence|]. simpl. rewrite app_nil_r. reflexivity.
    + (* one line inside the lock *)
      destruct (f (sh g, l)) as [s' l'] eqn:F. inversion Hs; subst; clear Hs. split; simpl; [rewrite Ho; discriminate|].
      intros o Ho'. rewrite Ho in Ho'. inversion Ho'; subst o.
      exists c, rem, l', lg. rewrite upd_same. simpl. repeat split; auto.
      * rewrite <- C. simpl. rewrite F. reflexivity.
      * intros j Hj. rewrite upd_other by auto. apply D; auto.
      * intros j. destruct (Nat.eq_dec i j) as [->|N]; [rewrite upd_same; simpl; apply E| rewrite upd_other by auto; apply E].
Qed.

Theorem exec_inv sch g : Inv g -> Inv (exec sch g).
Proof.
  revert g; induction sch as [|i r IH]; simpl; intros g H; [exact H|].
  apply IH. unfold step'. destruct (step i g) eqn:E; [eapply step_inv; eauto| exact H].
Qed.

(* linearizability: when every thread is done, shared state and every thread's results are those of the
   sequential execution of the calls in lock-acquisition order *)
Theorem linearizable sch g :
  Inv g -> (forall j, done (thr (exec sch g) j) = true) ->
  let g' := exec sch g in
  sh g' = seq_state (log g') s0 /\ forall j, outs (thr g' j) = seq_outs j (log g') s0.
Proof.
  intros H Hd. pose proof (exec_inv sch g H) as [Hf Hh]. simpl.
  destruct (owner (exec sch g)) as [o|] eqn:Ow.
  - destruct (Hh o eq_refl) as (c & rem & l & lg & A & _). specialize (Hd o). unfold done in Hd. rewrite A in Hd. discriminate.
  - destruct (Hf eq_refl) as (A & _ & C). auto.
Qed.

(* deadlock freedom: if some thread is not done, some thread can step *)
Theorem deadlock_free g i : Inv g -> done (thr g i) = false -> exists j g', step j g = Some g'.
Proof.
  intros [Hf Hh] Hd. destruct (owner g) as [o|] eqn:Ow.
  - destruct (Hh o eq_refl) as (c & rem & l & lg & A & _). exists o. unfold step. rewrite A.
    destruct rem; [eexists; reflexivity|]. destruct (p (sh g, l)); eexists; reflexivity.
  - exists i. unfold step. unfold done in Hd. destruct (ph (thr g i)) eqn:P.
    + destruct (todo (thr g i)); [discriminate| eexists; reflexivity].
    + destruct n; eexists; reflexivity.
    + rewrite Ow. eexists; reflexivity.
    + destruct (Hf eq_refl) as (_ & B & _). specialize (B i). unfold in_cs in B. rewrite P in B. discriminate.
Qed.

(** ---------------- the lock order respects program order ---------------- *)
Variable prog : nat -> list opcall.

Definition calls_of (j : nat) (lg : list (nat * opcall)) : list opcall :=
  map snd (filter (fun x => Nat.eqb (fst x) j) lg).
Definition pending (p : phase) : list opcall :=
  match p with Pre _ c | Wait c => [c] | _ => [] end.
Definition ProgInv (g : glob) : Prop :=
  forall j, prog j = calls_of j (log g) ++ pending (ph (thr g j)) ++ todo (thr g j).

Lemma calls_of_snoc_same j lg c : calls_of j (lg ++ [(j, c)]) = calls_of j lg ++ [c].
Proof. unfold calls_of. rewrite filter_app, map_app. simpl. rewrite Nat.eqb_refl. reflexivity. Qed.
Lemma calls_of_snoc_other j i lg c : i <> j -> calls_of j (lg ++ [(i, c)]) = calls_of j lg.
Proof.
  intros N. unfold calls_of. rewrite filter_app, map_app. simpl.
  destruct (Nat.eqb_spec i j); [congruence|]. simpl. rewrite app_nil_r. reflexivity.
Qed.

Lemma step_prog i g g' : ProgInv g -> step i g = Some g' -> ProgInv g'.
Proof.
  intros P Hs j. specialize (P j). unfold step in Hs.
  destruct (ph (thr g i)) as [|n c|c|c rem l] eqn:Ph.
  - destruct (todo (thr g i)) as [|c r] eqn:Td; [discriminate|]. inversion Hs; subst; clear Hs. simpl.
    destruct (Nat.eq_dec i j) as [->|N]; [rewrite upd_same; simpl; rewrite P, Ph, Td; reflexivity|rewrite upd_other by auto; exact P].
  - destruct n; inversion Hs; subst; clear Hs; simpl;
      (destruct (Nat.eq_dec i j) as [->|N]; [rewrite upd_same; simpl; rewrite P, Ph; reflexivity|rewrite upd_other by auto; exact P]).
  - destruct (owner g); [discriminate|]. inversion Hs; subst; clear Hs. simpl.
    destruct (Nat.eq_dec i j) as [->|N].
    + rewrite upd_same, calls_of_snoc_same. simpl. rewrite P, Ph. simpl. rewrite <- app_assoc. reflexivity.
    + rewrite upd_other, calls_of_snoc_other by auto. exact P.
  - destruct rem as [|f rem].
    + inversion Hs; subst; clear Hs. simpl.
      destruct (Nat.eq_dec i j) as [->|N]; [rewrite upd_same; simpl; rewrite P, Ph; reflexivity|rewrite upd_other by auto; exact P].
    + destruct (f (sh g, l)) as [s' l']. inversion Hs; subst; clear Hs. simpl.
      destruct (Nat.eq_dec i j) as [->|N]; [rewrite upd_same; simpl; rewrite P, Ph; reflexivity|rewrite upd_other by auto; exact P].
Qed.

Lemma exec_prog sch g : ProgInv g -> ProgInv (exec sch g).
Proof.
  revert g; induction sch as [|i r IH]; simpl; intros g H; [exact H|].
  apply IH. unfold step'. destruct (step i g) eqn:E; [eapply step_prog; eauto|exact H].
Qed.

(** the initial configuration: every thread idle with its whole program to do, lock free *)
Definition init : glob :=
  {| sh := s0; owner := None; log := [];
     thr := fun j => {| todo := prog j; ph := Idle; outs := [] |} |}.

Lemma init_inv : Inv init.
Proof. split; simpl; [|discriminate]. intros _. repeat split; reflexivity. Qed.
Lemma init_prog : ProgInv init.
Proof. intros j. reflexivity. Qed.

(** every complete execution is equivalent to a sequential one: the calls executed atomically in
    lock-acquisition order [log], which contains, per thread, exactly that thread's program in order *)
Theorem linearizable_from_init sch :
  (forall j, done (thr (exec sch init) j) = true) ->
  let g' := exec sch init in
  sh g' = seq_state (log g') s0 /\
  (forall j, outs (thr g' j) = seq_outs j (log g') s0) /\
  (forall j, calls_of j (log g') = prog j).
Proof.
  intros Hd. destruct (linearizable sch init init_inv Hd) as [A B]. cbn zeta. split; [exact A|]. split; [exact B|].
  intros j. pose proof (exec_prog sch init init_prog j) as P. specialize (Hd j). unfold done in Hd.
  destruct (ph (thr (exec sch init) j)); try discriminate. destruct (todo (thr (exec sch init) j)); [|discriminate].
  simpl in P. rewrite app_nil_r in P. symmetry. exact P.
Qed.

Theorem deadlock_free_from_init sch i :
  done (thr (exec sch init) i) = false -> exists j g', step j (exec sch init) = Some g'.
Proof. apply deadlock_free. apply exec_inv. apply init_inv. Qed.
End Conc.
