(** Corr.v — in-Coq comparison of the Runner model with traces observed on the implementation:
    boolean equalities on events/deliveries, list-backed environments, per-property projections,
    and [rcase_ok] evaluated by the generated cases files. *)
From Redress Require Import Base Window Budget Runner.

Definition optZ_eqb := opt_eqb Z.eqb.
Definition optk_eqb := opt_eqb klass_eqb.
Definition optstop_eqb := opt_eqb stop_eqb.
Definition optcause_eqb := opt_eqb cause_eqb.

Definition tags_eqb (a b : tags) : bool :=
  optk_eqb (t_class a) (t_class b) && Bool.eqb (t_err a) (t_err b) && optstop_eqb (t_stop a) (t_stop b)
  && optcause_eqb (t_cause a) (t_cause b) && Bool.eqb (t_op a) (t_op b).

Definition tlev_eqb (a b : tlev) : bool :=
  (tl_att a =? tl_att b) && evname_eqb (tl_name a) (tl_name b) && (tl_elapsed a =? tl_elapsed b)
  && (tl_sleep a =? tl_sleep b) && optk_eqb (tl_class a) (tl_class b) && optstop_eqb (tl_stop a) (tl_stop b)
  && optcause_eqb (tl_cause a) (tl_cause b).

Definition hint_eqb (a b : hint) : bool :=
  match a, b with HFin x, HFin y => x =? y | HNaN, HNaN | HPInf, HPInf | HNInf, HNInf => true | _, _ => false end.
Definition opth_eqb := opt_eqb hint_eqb.
Definition ev_eqb (a b : ev) : bool :=
  match a, b with
  | EPoll x, EPoll y => Bool.eqb x y
  | EInvoke a1 t1, EInvoke a2 t2 => (a1 =? a2) && (t1 =? t2)
  | EClassify x, EClassify y => x =? y
  | ERClassify x, ERClassify y => x =? y
  | EStrat s1 l1 a1 k1 r1 p1 m1 c1, EStrat s2 l2 a2 k2 r2 p2 m2 c2 =>
      sid_eqb s1 s2 && Bool.eqb l1 l2 && (a1 =? a2) && klass_eqb k1 k2 && opth_eqb r1 r2 && optZ_eqb p1 p2
      && optZ_eqb m1 m2 && optcause_eqb c1 c2
  | EBudget x, EBudget y => Bool.eqb x y
  | EMetric n1 a1 s1 t1, EMetric n2 a2 s2 t2 => evname_eqb n1 n2 && (a1 =? a2) && (s1 =? s2) && tags_eqb t1 t2
  | ELog n1 a1 s1 t1 r1, ELog n2 a2 s2 t2 r2 =>
      evname_eqb n1 n2 && (a1 =? a2) && (s1 =? s2) && tags_eqb t1 t2 && opth_eqb r1 r2
  | EHandler w1 a1 k1 d1 h1, EHandler w2 a2 k2 d2 h2 =>
      who_eqb w1 w2 && (a1 =? a2) && klass_eqb k1 k2 && (d1 =? d2) && hdec_eqb h1 h2
  | EBeforeSleep w1 a1 d1, EBeforeSleep w2 a2 d2 => who_eqb w1 w2 && (a1 =? a2) && (d1 =? d2)
  | ESleep w1 d1 t1, ESleep w2 d2 t2 => who_eqb w1 w2 && (d1 =? d2) && (t1 =? t2)
  | _, _ => false
  end.

Definition outc_eqb (a b : outc) : bool :=
  Bool.eqb (o_ok a) (o_ok b) && optZ_eqb (o_value a) (o_value b) && optstop_eqb (o_stop a) (o_stop b)
  && (o_attempts a =? o_attempts b) && optk_eqb (o_class a) (o_class b) && optZ_eqb (o_exc a) (o_exc b)
  && optZ_eqb (o_res a) (o_res b) && optcause_eqb (o_cause a) (o_cause b) && (o_elapsed a =? o_elapsed b)
  && optZ_eqb (o_next a) (o_next b) && opt_eqb (list_eqb tlev_eqb) (o_tl a) (o_tl b).

Definition delivery_eqb (a b : delivery) : bool :=
  match a, b with
  | DReturn x, DReturn y => x =? y
  | DRaiseOp x, DRaiseOp y => x =? y
  | DExhausted r1 a1 c1 e1 s1 n1, DExhausted r2 a2 c2 e2 s2 n2 =>
      stop_eqb r1 r2 && (a1 =? a2) && optk_eqb c1 c2 && optZ_eqb e1 e2 && optZ_eqb s1 s2 && optZ_eqb n1 n2
  | DAbort, DAbort => true
  | DCancel k1 a1, DCancel k2 a2 => cancel_kind_eqb k1 k2 && (a1 =? a2)
  | DCancelSleep k1 a1, DCancelSleep k2 a2 => cancel_kind_eqb k1 k2 && (a1 =? a2)
  | DNested x, DNested y => x =? y
  | DRuntimeError, DRuntimeError => true
  | DOutcome x, DOutcome y => outc_eqb x y
  | _, _ => false
  end.

(** anything the harness could not map to a model delivery: never equal to a model delivery *)
Definition DUnexpected : delivery := DExhausted S_ABORT (-1) None None None None.

(** ---------------- list-backed configuration / environment ---------------- *)
Definition assoc_k {A} (l : list (klass * A)) (k : klass) : option A :=
  match find (fun p => klass_eqb k (fst p)) l with Some p => Some (snd p) | None => None end.

Definition mk_env (ops : list (outcome * Z)) (ab : list bool) (st : list sval) (ha : list hdec)
    (ov : list Z) (sc : list (option cancel_kind)) (mr lr br : list bool)
    (bc : list (option cancel_kind)) : env :=
  {| op := nth_d ops (OValue None, 0); abort := nth_d ab false; strat := nth_d st (SFin 0);
     handler := nth_d ha HSleep; over := nth_d ov 0; sleep_cancel := nth_d sc None;
     metric_raises := nth_d mr false; log_raises := nth_d lr false; bs_raises := nth_d br false;
     bs_cancel := nth_d bc None |}.

Definition mk_cfg (ma dl : Z) (mu : option Z) (pc : list (klass * Z)) (stab : list (klass * bool))
    (sdef : option bool) (flags : list bool) (b : option bcfg) : cfg :=
  let f := fun n => nth n flags false in
  {| max_attempts := ma; deadline := dl; max_unknown := mu; per_class := assoc_k pc;
     strat_tab := assoc_k stab; strat_default := sdef;
     has_rc := f 0%nat; has_abort := f 1%nat; handler_p := f 2%nat; handler_c := f 3%nat;
     bs_p := f 4%nat; bs_c := f 5%nat; sleeper_p := f 6%nat; sleeper_c := f 7%nat;
     has_metric := f 8%nat; has_log := f 9%nat; has_opname := f 10%nat; capture_tl := f 11%nat;
     budget := b |}.

(** ---------------- comparison with truncation at the first full-trace divergence ---------------- *)
Fixpoint first_div (a b : list ev) (n : nat) : option nat :=
  match a, b with
  | [], [] => None
  | x :: r, y :: s => if ev_eqb x y then first_div r s (S n) else Some n
  | _, _ => Some n
  end.
Definition cut {A} (n : option nat) (l : list A) : list A :=
  match n with None => l | Some k => firstn (S k) l end.
Fixpoint filtermap {A B} (f : A -> option B) (l : list A) : list B :=
  match l with
  | [] => []
  | x :: r => match f x with Some y => y :: filtermap f r | None => filtermap f r end
  end.

Record projection := { pj_ev : ev -> option ev; pj_del : delivery -> delivery }.

(** one call: (property-projection agrees, everything agrees) *)
Definition call_cmp (pj : projection) (m o : delivery * list ev) : bool * bool :=
  let n := first_div (snd m) (snd o) 0 in
  let tr_ok := list_eqb ev_eqb (filtermap (pj_ev pj) (cut n (snd m))) (filtermap (pj_ev pj) (cut n (snd o))) in
  match n with
  | None => (tr_ok && delivery_eqb (pj_del pj (fst m)) (pj_del pj (fst o)), delivery_eqb (fst m) (fst o))
  | Some _ => (tr_ok, false)
  end.

(** a sequence of calls: compare until the first call that differs in any way (later calls inherit
    the divergence through the clock / budget and are not this property's evidence) *)
Fixpoint seq_cmp (pj : projection) (ms os : list (delivery * list ev)) : bool :=
  match ms, os with
  | [], [] => true
  | m :: mr, o :: or_ =>
      let '(p_ok, all_ok) := call_cmp pj m o in
      if all_ok then seq_cmp pj mr or_ else p_ok
  | _, _ => false
  end.

Record rcase := { rc_calls : list call_spec; rc_t0 : Z; rc_obs : list (delivery * list ev) }.
Definition rcase_ok (pj : projection) (k : rcase) : bool :=
  seq_cmp pj (run_seq (rc_calls k) (rc_t0 k) []) (rc_obs k).

(** ---------------- projections ---------------- *)
Definition keep_all : projection := {| pj_ev := fun x => Some x; pj_del := fun d => d |}.

Definition del_none (d : delivery) : delivery := DAbort.

(** the stop reason carried by a delivery (None for success / cancel / ...) *)
Definition del_stop (d : delivery) : option stop :=
  match d with
  | DExhausted r _ _ _ _ _ => Some r
  | DAbort => Some S_ABORT
  | DOutcome o => o_stop o
  | _ => None
  end.
Definition del_kind (d : delivery) : delivery :=
  match d with
  | DReturn _ => DReturn 0
  | DRaiseOp _ => DRaiseOp 0
  | DExhausted r _ _ _ _ n => DExhausted r 0 None None None n
  | DAbort => DAbort
  | DCancel k _ => DCancel k 0
  | DCancelSleep k _ => DCancelSleep k 0
  | DNested _ => DNested 0
  | DRuntimeError => DRuntimeError
  | DOutcome o =>
      DOutcome {| o_ok := o_ok o; o_value := None; o_stop := o_stop o; o_attempts := 0; o_class := None;
                  o_exc := None; o_res := None; o_cause := None; o_elapsed := 0; o_next := o_next o;
                  o_tl := None |}
  end.
Definition del_no_tl (d : delivery) : delivery :=
  match d with
  | DOutcome o =>
      DOutcome {| o_ok := o_ok o; o_value := o_value o; o_stop := o_stop o; o_attempts := o_attempts o;
                  o_class := o_class o; o_exc := o_exc o; o_res := o_res o; o_cause := o_cause o;
                  o_elapsed := o_elapsed o; o_next := o_next o; o_tl := None |}
  | _ => d
  end.

(** C01: operation invocations (attempt numbers) *)
Definition proj_C01 : projection :=
  {| pj_ev := fun x => match x with EInvoke a _ => Some (EInvoke a 0) | _ => None end; pj_del := del_none |}.
(** C02: times of invocations and sleeps, delays requested *)
Definition proj_C02 : projection :=
  {| pj_ev := fun x => match x with EInvoke _ _ | ESleep _ _ _ => Some x | _ => None end; pj_del := del_none |}.
Definition is_terminal_name (n : evname) : bool := negb (evname_eqb n N_RETRY).
(** C03: invocations, budget tokens, retry events, handler decisions, sleeps, terminal event, stop reason *)
Definition proj_C03 : projection :=
  {| pj_ev := fun x => match x with
                       | EInvoke a _ => Some (EInvoke a 0)
                       | EBudget _ => Some x
                       | EMetric n a s tg => Some (EMetric n a s {| t_class := None; t_err := false; t_stop := t_stop tg;
                                                                  t_cause := None; t_op := false |})
                       | EHandler w a k d h => Some (EHandler WCall a UNKNOWN d h)
                       | ESleep _ d _ => Some (ESleep WCall d 0)
                       | EPoll _ => Some x
                       | _ => None end;
     pj_del := del_kind |}.
(** C04: what call() returns / raises *)
Definition proj_C04 : projection := {| pj_ev := fun _ => None; pj_del := del_no_tl |}.
(** C05: strategy arguments; the delay as seen by handler, before_sleep, sleeper, retry events, next_sleep_s *)
Definition proj_C05 : projection :=
  {| pj_ev := fun x => match x with
                       | EStrat _ _ _ _ _ _ _ _ => Some x
                       | EHandler _ a _ d _ => Some (EHandler WCall a UNKNOWN d HSleep)
                       | EBeforeSleep _ a d => Some (EBeforeSleep WCall a d)
                       | ESleep _ d _ => Some (ESleep WCall d 0)
                       | EMetric N_RETRY a s _ => Some (EMetric N_RETRY a s {| t_class := None; t_err := false; t_stop := None; t_cause := None; t_op := false |})
                       | ELog N_RETRY a s _ ra => Some (ELog N_RETRY a s {| t_class := None; t_err := false; t_stop := None; t_cause := None; t_op := false |} ra)
                       | _ => None end;
     pj_del := del_kind |}.
(** C11: the RetryOutcome (timeline belongs to C14) / what propagates out of execute() *)
Definition proj_C11 : projection := {| pj_ev := fun _ => None; pj_del := del_no_tl |}.
(** C13: abort polls relative to invocations and sleeps, classification of cancellations, final result *)
Definition proj_C13 : projection :=
  {| pj_ev := fun x => match x with
                       | EPoll _ => Some x
                       | EInvoke a _ => Some (EInvoke a 0)
                       | ESleep _ d _ => Some (ESleep WCall d 0)
                       | EClassify _ | ERClassify _ => Some x
                       | EBudget _ => Some x
                       | _ => None end;
     pj_del := del_kind |}.
(** C14: metric hook, log hook, timeline; delivered stop reason *)
Definition proj_C14 : projection :=
  {| pj_ev := fun x => match x with EMetric _ _ _ _ | ELog _ _ _ _ _ => Some x | _ => None end;
     pj_del := fun d => match d with
                        | DOutcome o => DOutcome {| o_ok := o_ok o; o_value := None; o_stop := o_stop o; o_attempts := 0;
                                                    o_class := None; o_exc := None; o_res := None; o_cause := None;
                                                    o_elapsed := 0; o_next := None; o_tl := o_tl o |}
                        | _ => del_kind d end |}.
(** C15: everything (the scripts of C15 inject hook faults) *)
Definition proj_C15 : projection := keep_all.
(** C16: handler / before_sleep / sleeper calls and placements, invocations, final result *)
Definition proj_C16 : projection :=
  {| pj_ev := fun x => match x with
                       | EHandler _ _ _ _ _ | EBeforeSleep _ _ _ => Some x
                       | ESleep w d _ => Some (ESleep w d 0)
                       | EInvoke a _ => Some (EInvoke a 0)
                       | _ => None end;
     pj_del := del_kind |}.
(** C10 (policy level): budget tokens and retry / budget_exhausted events *)
Definition proj_C10 : projection :=
  {| pj_ev := fun x => match x with
                       | EBudget _ => Some x
                       | EMetric N_RETRY a s _ => Some (EMetric N_RETRY a 0 {| t_class := None; t_err := false; t_stop := None; t_cause := None; t_op := false |})
                       | EMetric N_BUDGET_EXHAUSTED a s _ => Some (EMetric N_BUDGET_EXHAUSTED a 0 {| t_class := None; t_err := false; t_stop := None; t_cause := None; t_op := false |})
                       | _ => None end;
     pj_del := del_none |}.
(** C12: everything *)
Definition proj_C12 : projection := keep_all.

(** diagnosis: for the first call that differs, (call index, position of the first differing event,
    the model's and the implementation's event there, deliveries equal?, the model's delivery) *)
Fixpoint seq_diff (ms os : list (delivery * list ev)) (j : nat)
    : option (nat * option nat * option ev * option ev * bool * delivery) :=
  match ms, os with
  | m :: mr, o :: or_ =>
      let n := first_div (snd m) (snd o) 0 in
      let de := delivery_eqb (fst m) (fst o) in
      match n with
      | None => if de then seq_diff mr or_ (S j) else Some (j, None, None, None, false, fst m)
      | Some k => Some (j, Some k, nth_error (snd m) k, nth_error (snd o) k, de, fst m)
      end
  | [], [] => None
  | _, _ => Some (j, None, None, None, false, DUnexpected)
  end.
Definition rcase_diff (k : rcase) := seq_diff (run_seq (rc_calls k) (rc_t0 k) []) (rc_obs k) 0.
