(** InterleaveCorr.v — comparison of interleaved policy calls on one breaker with the model (C07).
    The harness drives several AsyncPolicy calls as coroutines, switching between them at their suspension points, and records
    every breaker API call with the id of the call that issued it.  [icase_ok]: the admission decisions, reported events and
    the breaker's state after every API call are those of the Breaker.v model run on the same interleaved history.
    [icase_in_scope]: the history satisfies the hypothesis of [single_probe_interleaved] (no unadmitted and no stale
    settlement), i.e. [irun] is defined on it.  Model and comparison only; no proofs besides the link lemma. *)
From Redress Require Import Base Window Budget Breaker Runner Corr Policy PolicyCorr PolicyInterleave.

Record iobs := { io_op : hop; io_allowed : option bool; io_event : option evname; io_state : cstate; io_probe : bool }.
Record icase := { ic_cfg : kcfg; ic_hist : list iobs }.

(** the breaker model under one API call of the history, whoever issued it *)
Definition bstep (kc : kcfg) (x : hop) (ks : kst) : kst * option bool * option evname :=
  match x with
  | HAdmit _ t =>
      match allow kc t ks with
      | (KDecision a _ e, ks') => (ks', Some a, e)
      | (_, ks') => (ks', None, None)
      end
  | HSettle _ SSucc t => match record_success ks with (KEvent e, ks') => (ks', None, e) | (_, ks') => (ks', None, None) end
  | HSettle _ (SFail c) t => match record_failure kc c t ks with (KEvent e, ks') => (ks', None, e) | (_, ks') => (ks', None, None) end
  | HSettle _ SCancel t => (snd (record_cancel ks), None, None)
  end.

Fixpoint icheck (kc : kcfg) (h : list iobs) (ks : kst) : bool :=
  match h with
  | [] => true
  | o :: r =>
      let '(ks', d, e) := bstep kc (io_op o) ks in
      opt_eqb Bool.eqb d (io_allowed o) && opt_eqb evname_eqb e (io_event o) &&
      cstate_eqb (st ks') (io_state o) && Bool.eqb (probe ks') (io_probe o) && icheck kc r ks'
  end.

Definition icase_ok (c : icase) : bool := icheck (ic_cfg c) (ic_hist c) kinit.
Definition icase_in_scope (c : icase) : bool :=
  match irun (ic_cfg c) (map io_op (ic_hist c)) (kinit, []) with Some _ => true | None => false end.

(** on histories in scope the guarded step of PolicyInterleave.v is this step *)
Lemma istep_is_bstep kc x ks o ks' o' d :
  istep kc x (ks, o) = Some (ks', o', d) -> fst (fst (bstep kc x ks)) = ks' /\ (forall b, d = Some b -> snd (fst (bstep kc x ks)) = Some b).
Proof.
  destruct x as [i t|i k t]; simpl.
  - unfold allow. destruct (st ks); [| destruct (k_rto kc <=? _) | destruct (probe ks)]; simpl;
      intros H; inversion H; subst; (split; [reflexivity | intros b E; inversion E; reflexivity]).
  - destruct (take_out i o) as [[a o1]|]; [|discriminate].
    destruct (cstate_eqb a HALF_OPEN || negb (cstate_eqb (st ks) HALF_OPEN)); [|discriminate].
    intros H; inversion H; subst. split; [|intros b E; discriminate].
    destruct k as [|c|]; simpl.
    + destruct (record_success ks) as [r ks1] eqn:R. destruct r; reflexivity.
    + destruct (record_failure kc c t ks) as [r ks1] eqn:R. destruct r; reflexivity.
    + reflexivity.
Qed.
