(** LockDiscipline.v — the obligation the lock structure regenerated from circuit.py / budget.py
    (coq/gen/LockStruct.v, written by harness/lockstruct.py on every run) must satisfy: it is the
    hypothesis under which Concurrency.v's call shape (local prefix, acquire, body, release) describes
    the code.  Per public method: at most one `with self._lock:` block; every read or write of a mutable
    attribute, and every call of a private helper that touches one, is inside it; nothing but local
    computation before it and nothing after it.  Private helpers are called from locked regions only. *)
From Redress Require Import Base.

Record seg := {
  s_locked : bool;        (* inside `with self._lock:` *)
  s_mutable : bool;       (* reads or writes a mutable attribute of self *)
  s_helper : bool         (* calls a private helper method that touches mutable state *)
}.
Record meth := { m_public : bool; m_segs : list seg }.

Definition seg_ok (s : seg) : bool := s_locked s || (negb (s_mutable s) && negb (s_helper s)).
Definition locked_blocks (m : meth) : nat := length (filter s_locked (m_segs m)).
Definition meth_ok (m : meth) : bool :=
  if m_public m then forallb seg_ok (m_segs m) && (locked_blocks m <=? 1)%nat
  else forallb (fun s => negb (s_locked s)) (m_segs m).     (* helpers never take the lock themselves (no re-entrancy) *)
Definition disciplined (ms : list meth) : bool := forallb meth_ok ms.

(** the discipline gives the call shape: a public method's segments are local* ; locked? ; local* *)
Lemma disciplined_shape m :
  meth_ok m = true -> m_public m = true ->
  forall s, In s (m_segs m) -> s_locked s = false -> s_mutable s = false /\ s_helper s = false.
Proof.
  unfold meth_ok. intros H P s Hin L. rewrite P in H. apply andb_true_iff in H as [H _].
  rewrite forallb_forall in H. specialize (H s Hin). unfold seg_ok in H. rewrite L in H. simpl in H.
  apply andb_true_iff in H as [A B]. apply negb_true_iff in A, B. auto.
Qed.
