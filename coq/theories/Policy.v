(** Policy.v — executable model of the policy wrappers:
      policy/policy.py, policy/async_policy.py   Policy.call / Policy.execute and the async twins
                                                 (with and without a retry component)
      policy/execution.py                        check_breaker, record_*, classify_for_breaker,
                                                 check_abort_no_retry, the no-retry outcome builders
      policy/policy_helpers.py                   _emit_breaker_event
    composed with the models of the retry loop (Runner.v) and of CircuitBreaker (Breaker.v).
    Model only; proofs are in PolicyProofs.v.

    The wrapper is modelled as repaired by the fix: commit for C08 (a `settled` flag on the execution
    context; every exit path of an admitted call tells the breaker exactly once). *)
From Redress Require Import Base Window Budget Breaker Runner.

Inductive pev :=
| PE (x : ev)                                                        (* an event of the retry loop / the operation *)
| PAllow (a : bool) (s : cstate) (n : option evname)                 (* breaker.allow() -> (allowed, state, event) *)
| PSucc (n : option evname)                                          (* breaker.record_success() -> event *)
| PFail (k : klass) (n : option evname)                              (* breaker.record_failure(k) -> event *)
| PCancel                                                            (* breaker.record_cancel() *)
| PBMetric (n : evname) (s : cstate) (k : option klass) (op : bool)  (* on_metric(event, 0, 0.0, {state, class?, operation?}) *)
| PBLog (n : evname) (s : cstate) (k : option klass) (op : bool).    (* on_log(event, {attempt: 0, sleep_s: 0.0, ...}) *)

(** what the caller of the policy gets *)
Inductive pdel :=
| PD (d : delivery)
| PDOpen (s : cstate)            (* call(): CircuitOpenError(state) *)
| PDOutcomeOpen (s : cstate).    (* execute(): not-ok outcome, attempts 0, last_exception = CircuitOpenError(state) *)

(** how an admitted call is reported to the breaker *)
Inductive settle := SSucc | SFail (k : klass) | SCancel.

Record pcall := {
  pc_mode : mode;
  pc_retry : bool;                 (* a retry component is configured *)
  pc_cfg : cfg;
  pc_env : env;
  pc_coe : nat -> bool;            (* the exception raised by attempt index i is a CircuitOpenError (nested breaker) *)
  pc_gap : Z
}.

(** _emit_breaker_event *)
Definition breaker_evs (c : cfg) (n : option evname) (s : cstate) (k : option klass) : list pev :=
  match n with
  | None => []
  | Some x => (if has_metric c then [PBMetric x s k (has_opname c)] else []) ++
              (if has_log c then [PBLog x s k (has_opname c)] else [])
  end.

(** check_breaker / the admission step of execute() *)
Definition do_allow (kc : kcfg) (c : cfg) (t : Z) (ks : kst) : bool * cstate * kst * list pev :=
  let '(r, ks') := allow kc t ks in
  match r with
  | KDecision a s n => (a, s, ks', PAllow a s n :: breaker_evs c n s None)
  | _ => (true, st ks', ks', [])
  end.

Definition ev_of (r : kres) : option evname := match r with KEvent n => n | _ => None end.

(** record_success / record_failure / record_cancel of execution.py; the event carries the
    breaker's state after the operation *)
Definition do_settle (kc : kcfg) (c : cfg) (t : Z) (x : settle) (ks : kst) : kst * list pev :=
  match x with
  | SSucc => let '(r, ks') := record_success ks in
             (ks', PSucc (ev_of r) :: breaker_evs c (ev_of r) (st ks') None)
  | SFail k => let '(r, ks') := record_failure kc k t ks in
               (ks', PFail k (ev_of r) :: breaker_evs c (ev_of r) (st ks') (Some k))
  | SCancel => let '(_, ks') := record_cancel ks in (ks', [PCancel])
  end.

Definition or_unknown (k : option klass) : klass := match k with Some x => x | None => UNKNOWN end.
(** last_class of the RetryExhaustedError a nested policy raises in the correspondence scripts *)
Definition nested_class : klass := TRANSIENT.
Definition op_class (e : env) (a : Z) : klass :=
  match fst (op e (Z.to_nat (a - 1))) with ORaise cl => cl_k cl | _ => UNKNOWN end.

(** with a retry component: which record follows from what retry.call / retry.execute delivered
    (the except ladder of Policy.call, the outcome test of _execute_with_retry), and the extra
    classifier call made by classify_for_breaker *)
Definition settle_of (e : env) (coe : nat -> bool) (d : delivery) : list ev * settle :=
  match d with
  | DReturn _ => ([], SSucc)
  | DRaiseOp a => if coe (Z.to_nat (a - 1)) then ([], SCancel) else ([EClassify a], SFail (op_class e a))
  | DExhausted _ _ lc _ _ _ => ([], SFail (or_unknown lc))
  | DAbort | DCancel _ _ | DCancelSleep _ _ => ([], SCancel)
  | DNested _ => ([], SFail nested_class)
  | DRuntimeError => ([], SFail UNKNOWN)
  | DOutcome o =>
      ([], if o_ok o then SSucc
           else match o_stop o with Some S_ABORT => SCancel | _ => SFail (or_unknown (o_class o)) end)
  end.

(** outcome builders of execution.py (no retry component) *)
Definition nr_outcome (ok : bool) (value : option Z) (r : option stop) (attempts : Z) (k : option klass)
    (exc : option Z) (cs : option cause) (el : Z) : outc :=
  {| o_ok := ok; o_value := value; o_stop := r; o_attempts := attempts; o_class := k; o_exc := exc; o_res := None;
     o_cause := cs; o_elapsed := el; o_next := None; o_tl := None |}.

(** _call_without_retry / _execute_without_retry: one attempt, classified by default_classifier
    (which answers the scripted class for a scripted exception and UNKNOWN for a nested
    RetryExhaustedError or CircuitOpenError) *)
Definition noretry_inner (m : mode) (e : env) (coe : nat -> bool) (t : Z) : delivery * settle * list ev * Z :=
  let '(o, dur) := op e 0%nat in
  let t' := t + dur in
  let tr := [EInvoke 1 t] in
  match o with
  | OValue _ =>
      (match m with MCall => DReturn 1
                  | MExec => DOutcome (nr_outcome true (Some 1) None 1 None None None dur) end, SSucc, tr, t')
  | ORaise cl =>
      match m with
      | MCall => (DRaiseOp 1, if coe 0%nat then SCancel else SFail (cl_k cl), tr, t')
      | MExec => let k := if coe 0%nat then UNKNOWN else cl_k cl in
                 (DOutcome (nr_outcome false None None 1 (Some k) (Some 1) (Some CExc) dur), SFail k, tr, t')
      end
  | OAbort =>
      (match m with MCall => DAbort
                  | MExec => DOutcome (nr_outcome false None (Some S_ABORT) 1 None None None dur) end, SCancel, tr, t')
  | OCancel k => (DCancel k 1, SCancel, tr, t')
  | ONested =>
      match m with
      | MCall => (DNested 1, SFail nested_class, tr, t')
      | MExec => (DOutcome (nr_outcome false None None 1 (Some UNKNOWN) (Some 1) (Some CExc) dur), SFail UNKNOWN, tr, t')
      end
  end.

(** one call()/execute() on a policy: returns what the caller gets, the trace, the clock, the shared
    budget's deque and the breaker's state afterwards *)
Definition policy_call (kco : option kcfg) (x : pcall) (start : Z) (b : list Z) (ks : kst)
    : pdel * list pev * Z * list Z * kst :=
  let c := pc_cfg x in
  let e := pc_env x in
  let m := pc_mode x in
  (* pre-flight abort check when no retry component is configured: BEFORE admission *)
  let pre := if negb (pc_retry x) && has_abort c then Some (abort e 0%nat) else None in
  match pre with
  | Some true =>
      let '(ks1, ctr) := match kco with Some _ => (snd (record_cancel ks), [PCancel]) | None => (ks, []) end in
      (PD (match m with MCall => DAbort
                      | MExec => DOutcome (nr_outcome false None (Some S_ABORT) 0 None None None 0) end),
       PE (EPoll true) :: ctr, start, b, ks1)
  | _ =>
      let ptr := match pre with Some a => [PE (EPoll a)] | None => [] end in
      let '(allowed, ast, ks1, atr) :=
        match kco with Some kc => do_allow kc c start ks | None => (true, CLOSED, ks, []) end in
      if negb allowed then
        (match m with MCall => PDOpen ast | MExec => PDOutcomeOpen ast end, ptr ++ atr, start, b, ks1)
      else
        let '(d, sk, itr, tend, b') :=
          if pc_retry x then
            let '(d, sf, tr) := run m c e start b in
            let '(extra, sk) := settle_of e (pc_coe x) d in
            (d, sk, tr ++ extra, now sf, bev sf)
          else
            let '(d, sk, tr, tend) := noretry_inner m e (pc_coe x) start in (d, sk, tr, tend, b) in
        let '(ks2, str) := match kco with Some kc => do_settle kc c tend sk ks1 | None => (ks1, []) end in
        (PD d, ptr ++ atr ++ map PE itr ++ str, tend, b', ks2)
  end.

(** a sequence of calls on policies sharing one breaker and one budget *)
Fixpoint policy_seq (kco : option kcfg) (calls : list pcall) (start : Z) (b : list Z) (ks : kst)
    : list (pdel * list pev) :=
  match calls with
  | [] => []
  | x :: r =>
      let '(d, tr, tend, b', ks') := policy_call kco x (start + pc_gap x) b ks in
      (d, tr) :: policy_seq kco r tend b' ks'
  end.
