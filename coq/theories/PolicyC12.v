(** PolicyC12.v — call() and execute() through the policy wrapper tell the breaker the same thing (C12). *)
From Redress Require Import Base Window Budget Breaker Runner Corr RunnerProofs RunnerSpec RunnerC01 RunnerC03 RunnerFull
  RunnerLoop RunnerVerdict RunnerC02 RunnerC13 RunnerC14 RunnerDeliver RunnerC12 Policy PolicyCorr PolicyProofs.

Lemma fail_of_exc c o cl : fail_of c o = Some (cl, CExc) -> o = ORaise cl.
Proof.
  destruct o as [rc|cl0| | |]; simpl; try discriminate.
  - destruct (has_rc c); [destruct rc|]; discriminate.
  - intros H; inversion H; reflexivity.
Qed.

(** the record a policy issues is the same for call() and execute() — unless the final exception is
    a nested CircuitOpenError (hypothesis; that case is the known finding of C12) *)
Theorem settle_call_execute c e start b coe :
  (forall i, coe i = false) -> 1 <= max_attempts c ->
  snd (settle_of e coe (run_delivery MCall c e start b)) = snd (settle_of e coe (run_delivery MExec c e start b)).
Proof.
  intros NC MA. destruct (call_execute_agree c e start b) as (_ & _ & ->).
  destruct (run_has_final_pass MExec c e start b MA) as (r & fn & FP).
  pose proof (final_pass_facts _ _ _ _ _ _ _ FP) as FF. cbn zeta in FF. destruct FF as (_ & FF).
  destruct FP as (_ & _ & -> & _).
  destruct fn as [a|n|a cs nx|k a|k a|a].
  - reflexivity.
  - destruct FF as (LS & _). simpl. rewrite LS. reflexivity.
  - destruct FF as (-> & cl & r0 & FO & LF & LS & _ & SC & NS).
    rewrite (deliver_exec_stop _ _ _ _ _ _ _ LF LS). unfold call_view. cbn [o_ok o_stop o_cause o_next o_exc o_class o_attempts o_res].
    assert (NA: r0 <> S_ABORT).
    { destruct nx as [d|]; [rewrite SC by discriminate; discriminate|apply NS; reflexivity]. }
    destruct r0; try congruence; destruct cs; try destruct nx; simpl; rewrite ?NC; try reflexivity;
      apply fail_of_exc in FO; unfold op_class;
      replace (Z.to_nat (Z.of_nat (ir_i r) + 1 - 1)) with (ir_i r) by lia; rewrite FO; reflexivity.
  - reflexivity.
  - reflexivity.
  - reflexivity.
Qed.

Definition with_mode (x : pcall) (m : mode) : pcall :=
  {| pc_mode := m; pc_retry := pc_retry x; pc_cfg := pc_cfg x; pc_env := pc_env x; pc_coe := pc_coe x; pc_gap := pc_gap x |}.

(** through a policy with a retry component, call() and execute() make the same breaker and budget
    interactions and take the same time *)
Theorem policy_call_execute_agree kco x start b ks :
  pc_retry x = true -> (forall i, pc_coe x i = false) -> 1 <= max_attempts (pc_cfg x) ->
  let '(dc, trc, tc, bc, kc') := policy_call kco (with_mode x MCall) start b ks in
  let '(de, tre, te, be, ke') := policy_call kco (with_mode x MExec) start b ks in
  breaker_ops trc = breaker_ops tre /\ tc = te /\ bc = be /\ kc' = ke'.
Proof.
  intros R NC MA. unfold policy_call, with_mode. cbn [pc_mode pc_retry pc_cfg pc_env pc_coe pc_gap]. rewrite R. cbn [negb andb].
  destruct (match kco with Some kc => do_allow kc (pc_cfg x) start ks | None => (true, CLOSED, ks, []) end) as [[[al ast] ks1] atr].
  destruct al; cbn [negb].
  2:{ repeat split; reflexivity. }
  pose proof (call_execute_agree (pc_cfg x) (pc_env x) start b) as (TR & FS & _).
  pose proof (settle_call_execute (pc_cfg x) (pc_env x) start b (pc_coe x) NC MA) as SE.
  unfold run_trace, run_final, run_delivery in *.
  destruct (run MCall (pc_cfg x) (pc_env x) start b) as [[dc sfc] trc].
  destruct (run MExec (pc_cfg x) (pc_env x) start b) as [[de sfe] tre]. cbn [fst snd] in *.
  destruct (settle_of (pc_env x) (pc_coe x) dc) as [exc skc]. destruct (settle_of (pc_env x) (pc_coe x) de) as [exe ske].
  cbn [snd] in SE. subst ske.
  assert (N: now sfc = now sfe) by (apply (f_equal now) in FS; exact FS).
  assert (B: bev sfc = bev sfe) by (apply (f_equal bev) in FS; exact FS).
  rewrite N, B.
  destruct kco as [kc|].
  - destruct (do_settle kc (pc_cfg x) (now sfe) skc ks1) as [ks2 str].
    rewrite !breaker_ops_app, !breaker_ops_PE. repeat split; reflexivity.
  - rewrite !breaker_ops_app, !breaker_ops_PE. repeat split; reflexivity.
Qed.

(** a policy without a breaker is its retry component: same delivery, same loop trace (call() only adds
    the classifier call made for the breaker's benefit) *)
Theorem policy_without_breaker x start b ks :
  pc_retry x = true ->
  let '(d, tr, t, b', ks') := policy_call None x start b ks in
  d = PD (run_delivery (pc_mode x) (pc_cfg x) (pc_env x) start b) /\
  tr = map PE (run_trace (pc_mode x) (pc_cfg x) (pc_env x) start b ++
               fst (settle_of (pc_env x) (pc_coe x) (run_delivery (pc_mode x) (pc_cfg x) (pc_env x) start b))) /\
  ks' = ks.
Proof.
  intros R. unfold policy_call, run_delivery, run_trace. rewrite R. cbn [negb andb].
  destruct (run (pc_mode x) (pc_cfg x) (pc_env x) start b) as [[d sf] tr]. cbn [fst snd].
  destruct (settle_of (pc_env x) (pc_coe x) d) as [extra sk]. cbn [fst]. rewrite app_nil_r. repeat split; reflexivity.
Qed.
