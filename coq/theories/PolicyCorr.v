(** PolicyCorr.v — in-Coq comparison of the Policy model with traces observed on the implementation. *)
From Redress Require Import Base Window Budget Breaker Runner Corr Policy.

Definition optn_eqb := opt_eqb evname_eqb.

Definition pev_eqb (a b : pev) : bool :=
  match a, b with
  | PE x, PE y => ev_eqb x y
  | PAllow a1 s1 n1, PAllow a2 s2 n2 => Bool.eqb a1 a2 && cstate_eqb s1 s2 && optn_eqb n1 n2
  | PSucc n1, PSucc n2 => optn_eqb n1 n2
  | PFail k1 n1, PFail k2 n2 => klass_eqb k1 k2 && optn_eqb n1 n2
  | PCancel, PCancel => true
  | PBMetric n1 s1 k1 o1, PBMetric n2 s2 k2 o2 => evname_eqb n1 n2 && cstate_eqb s1 s2 && optk_eqb k1 k2 && Bool.eqb o1 o2
  | PBLog n1 s1 k1 o1, PBLog n2 s2 k2 o2 => evname_eqb n1 n2 && cstate_eqb s1 s2 && optk_eqb k1 k2 && Bool.eqb o1 o2
  | _, _ => false
  end.

Definition pdel_eqb (a b : pdel) : bool :=
  match a, b with
  | PD x, PD y => delivery_eqb x y
  | PDOpen s, PDOpen t => cstate_eqb s t
  | PDOutcomeOpen s, PDOutcomeOpen t => cstate_eqb s t
  | _, _ => false
  end.

Definition PUnexpected : pdel := PD DUnexpected.

Definition mk_pcall (m : mode) (retry : bool) (c : cfg) (e : env) (coe : list bool) (gap : Z) : pcall :=
  {| pc_mode := m; pc_retry := retry; pc_cfg := c; pc_env := e; pc_coe := nth_d coe false; pc_gap := gap |}.

Fixpoint pfirst_div (a b : list pev) (n : nat) : option nat :=
  match a, b with
  | [], [] => None
  | x :: r, y :: s => if pev_eqb x y then pfirst_div r s (S n) else Some n
  | _, _ => Some n
  end.

Record pprojection := { ppj_ev : pev -> option pev; ppj_del : pdel -> pdel }.

Definition pcall_cmp (pj : pprojection) (m o : pdel * list pev) : bool * bool :=
  let n := pfirst_div (snd m) (snd o) 0 in
  let tr_ok := list_eqb pev_eqb (filtermap (ppj_ev pj) (cut n (snd m))) (filtermap (ppj_ev pj) (cut n (snd o))) in
  match n with
  | None => (tr_ok && pdel_eqb (ppj_del pj (fst m)) (ppj_del pj (fst o)), pdel_eqb (fst m) (fst o))
  | Some _ => (tr_ok, false)
  end.

Fixpoint pseq_cmp (pj : pprojection) (ms os : list (pdel * list pev)) : bool :=
  match ms, os with
  | [], [] => true
  | m :: mr, o :: or_ =>
      let '(p_ok, all_ok) := pcall_cmp pj m o in
      if all_ok then pseq_cmp pj mr or_ else p_ok
  | _, _ => false
  end.

Record pcase := { pk_breaker : option kcfg; pk_calls : list pcall; pk_t0 : Z; pk_obs : list (pdel * list pev) }.
Definition pcase_ok (pj : pprojection) (k : pcase) : bool :=
  pseq_cmp pj (policy_seq (pk_breaker k) (pk_calls k) (pk_t0 k) [] kinit) (pk_obs k).

(** ---------------- projections ---------------- *)
Definition pdel_kind (d : pdel) : pdel := match d with PD x => PD (del_kind x) | _ => d end.
Definition pdel_none (d : pdel) : pdel := PDOpen CLOSED.

Definition pkeep_all : pprojection := {| ppj_ev := fun x => Some x; ppj_del := fun d => d |}.

Definition is_breaker_op (x : pev) : bool :=
  match x with PAllow _ _ _ | PSucc _ | PFail _ _ | PCancel => true | _ => false end.

(** C09 / C08: what the breaker is told (allow, record_success, record_failure, record_cancel), and the kind of delivery *)
Definition proj_P09 : pprojection :=
  {| ppj_ev := (fun x => if is_breaker_op x then Some x else None); ppj_del := pdel_kind |}.
(** C07: admission decisions against operation invocations *)
Definition proj_P07 : pprojection :=
  {| ppj_ev := fun x => match x with
                        | PAllow _ _ _ => Some x
                        | PE (EInvoke a _) => Some (PE (EInvoke a 0))
                        | PSucc _ | PFail _ _ | PCancel => Some x
                        | _ => None end;
     ppj_del := pdel_kind |}.
(** C14 / C15 at policy level: breaker events reported to the hooks *)
Definition proj_P14 : pprojection :=
  {| ppj_ev := fun x => match x with
                        | PBMetric _ _ _ _ | PBLog _ _ _ _ => Some x
                        | PE (EMetric _ _ _ _) | PE (ELog _ _ _ _ _) => Some x
                        | _ => None end;
     ppj_del := pdel_kind |}.
(** C12: everything *)
Definition proj_P12 : pprojection := pkeep_all.

(** diagnosis: for the first call that differs, (call index, position of the first differing event,
    the model's and the implementation's event there, deliveries equal?) *)
Fixpoint pseq_diff (ms os : list (pdel * list pev)) (j : nat) : option (nat * option nat * option pev * option pev * bool * pdel) :=
  match ms, os with
  | m :: mr, o :: or_ =>
      let n := pfirst_div (snd m) (snd o) 0 in
      let de := pdel_eqb (fst m) (fst o) in
      match n with
      | None => if de then pseq_diff mr or_ (S j) else Some (j, None, None, None, false, fst m)
      | Some k => Some (j, Some k, nth_error (snd m) k, nth_error (snd o) k, de, fst m)
      end
  | [], [] => None
  | _, _ => Some (j, None, None, None, false, PUnexpected)
  end.
Definition pcase_diff (k : pcase) :=
  pseq_diff (policy_seq (pk_breaker k) (pk_calls k) (pk_t0 k) [] kinit) (pk_obs k) 0.
