(** PolicyInterleave.v — interleavings of concurrently running policy calls on one breaker (C07).
    A call touches the breaker at exactly two points: admission (allow) and settlement (one record_*;
    C09).  A system history is therefore a sequence of [HAdmit i t] / [HSettle i k t] over call ids,
    in any interleaving.  Hypothesis on histories ([step] returns None otherwise): a settlement belongs
    to a call that was admitted and has not settled yet, and a call admitted while the circuit was CLOSED
    does not settle while the circuit is HALF_OPEN (the complement is the known finding "stale settle";
    an unadmitted settlement is the known finding "unadmitted cancel"). *)
From Redress Require Import Base Window Budget Breaker Runner Corr Policy PolicyCorr PolicyProofs.

Inductive hop := HAdmit (i : nat) (t : Z) | HSettle (i : nat) (k : settle) (t : Z).

(** outstanding calls: id and the breaker state they were admitted in *)
Definition outst := list (nat * cstate).
Fixpoint take_out (i : nat) (o : outst) : option (cstate * outst) :=
  match o with
  | [] => None
  | (j, a) :: r => if Nat.eqb i j then Some (a, r)
                   else match take_out i r with Some (b, r') => Some (b, (j, a) :: r') | None => None end
  end.

Definition settle_state (kc : kcfg) (t : Z) (k : settle) (ks : kst) : kst :=
  match k with
  | SSucc => snd (record_success ks)
  | SFail c => snd (record_failure kc c t ks)
  | SCancel => snd (record_cancel ks)
  end.

(** one step; the admission decision is returned for HAdmit *)
Definition istep (kc : kcfg) (x : hop) (s : kst * outst) : option (kst * outst * option bool) :=
  let '(ks, o) := s in
  match x with
  | HAdmit i t =>
      match fst (allow kc t ks) with
      | KDecision true a _ => Some (snd (allow kc t ks), (i, a) :: o, Some true)
      | _ => Some (snd (allow kc t ks), o, Some false)
      end
  | HSettle i k t =>
      match take_out i o with
      | Some (a, o') =>
          if cstate_eqb a HALF_OPEN || negb (cstate_eqb (st ks) HALF_OPEN)
          then Some (settle_state kc t k ks, o', None) else None
      | None => None
      end
  end.

Fixpoint irun (kc : kcfg) (h : list hop) (s : kst * outst) : option (kst * outst) :=
  match h with
  | [] => Some s
  | x :: r => match istep kc x s with Some (ks, o, _) => irun kc r (ks, o) | None => None end
  end.

Definition probes (o : outst) : nat := length (filter (fun p => cstate_eqb (snd p) HALF_OPEN) o).

(** the invariant: the number of outstanding calls admitted as half-open probes is 1 exactly when a
    probe is in flight, 0 otherwise *)
Definition IInv (s : kst * outst) : Prop :=
  probe_ok (fst s) /\
  probes (snd s) = (if cstate_eqb (st (fst s)) HALF_OPEN && probe (fst s) then 1 else 0)%nat.

Lemma take_out_probes i o a o' :
  take_out i o = Some (a, o') -> probes o = ((if cstate_eqb a HALF_OPEN then 1 else 0) + probes o')%nat.
Proof.
  revert a o'. induction o as [|[j b] r IH]; intros a o' H; simpl in H; [discriminate|].
  destruct (Nat.eqb i j).
  - inversion H; subst. unfold probes. simpl. destruct (cstate_eqb a HALF_OPEN); reflexivity.
  - destruct (take_out i r) as [[b' r']|]; [|discriminate]. inversion H; subst.
    specialize (IH _ _ eq_refl). unfold probes in *. simpl. destruct (cstate_eqb b HALF_OPEN); simpl; lia.
Qed.

Lemma istep_inv kc x s ks o d : IInv s -> istep kc x s = Some (ks, o, d) -> IInv (ks, o).
Proof.
  destruct s as [ks0 o0]. unfold IInv. simpl. intros [PO PR] H. destruct x as [i t|i k t]; simpl in H.
  - (* admission *)
    pose proof (allow_probe_ok kc t ks0 PO) as PO'.
    unfold allow in *. destruct (st ks0) eqn:S.
    + (* CLOSED *) simpl in H. inversion H; subst. split; [exact PO'|]. unfold probes in *. simpl. rewrite S in *. simpl in *. exact PR.
    + (* OPEN *) destruct (k_rto kc <=? _); simpl in *; inversion H; subst; (split; [exact PO'|]); unfold probes in *; simpl in *; lia.
    + (* HALF_OPEN *) destruct (probe ks0) eqn:P; simpl in *; inversion H; subst; (split; [exact PO'|]);
        unfold probes in *; simpl in *; rewrite ?S, ?P in *; simpl in *; lia.
  - (* settlement *)
    destruct (take_out i o0) as [[a o']|] eqn:T; [|discriminate].
    destruct (cstate_eqb a HALF_OPEN || negb (cstate_eqb (st ks0) HALF_OPEN)) eqn:W; [|discriminate].
    inversion H; subst. apply take_out_probes in T.
    assert (PO': probe_ok (settle_state kc t k ks0)).
    { destruct k; unfold settle_state.
      - pose proof (probe_ok_settle kc (mk_cfg 0 0 None [] [] None [] None) t SSucc ks0 PO) as X. unfold do_settle in X.
        destruct (record_success ks0); exact X.
      - pose proof (probe_ok_settle kc (mk_cfg 0 0 None [] [] None [] None) t (SFail k) ks0 PO) as X. unfold do_settle in X.
        destruct (record_failure kc k t ks0); exact X.
      - pose proof (probe_ok_settle kc (mk_cfg 0 0 None [] [] None [] None) t SCancel ks0 PO) as X. unfold do_settle in X.
        destruct (record_cancel ks0); exact X. }
    split; [exact PO'|].
    destruct (cstate_eqb a HALF_OPEN) eqn:A.
    + (* the probe settles: whatever the record, no probe is in flight afterwards *)
      assert (HP: st ks0 = HALF_OPEN /\ probe ks0 = true).
      { destruct (cstate_eqb (st ks0) HALF_OPEN && probe ks0) eqn:E; [|lia].
        apply andb_true_iff in E as [E1 E2]. split; [destruct (st ks0); simpl in E1; congruence|exact E2]. }
      destruct HP as [S P]. rewrite S, P in PR. simpl in PR.
      assert (probes o = 0)%nat by lia. rewrite H0.
      destruct k; unfold settle_state, record_success, record_failure, record_cancel; rewrite S; simpl; reflexivity.
    + (* a call admitted while CLOSED settles while the circuit is not HALF_OPEN *)
      simpl in W. apply negb_true_iff in W. rewrite W in PR. simpl in PR, T.
      assert (probes o = 0)%nat by lia. rewrite H0.
      assert (NP: probe ks0 = false).
      { destruct (probe ks0) eqn:P; [|reflexivity]. specialize (PO P). rewrite PO in W. discriminate. }
      destruct k; unfold settle_state, record_success, record_failure, record_cancel.
      * destruct (st ks0) eqn:S; simpl in *; try discriminate; rewrite ?S, ?NP; simpl; rewrite ?andb_false_r; reflexivity.
      * destruct (st ks0) eqn:S; simpl in *; try discriminate.
        -- destruct (negb (trips kc k)); simpl; [rewrite S; reflexivity|].
           destruct (note_failure kc k t ks0) as [[so f'] cf']. destruct so; reflexivity.
        -- rewrite S. reflexivity.
      * destruct (st ks0) eqn:S; simpl in *; try discriminate; rewrite ?S; simpl; reflexivity.
Qed.

Theorem irun_inv kc : forall h s s', IInv s -> irun kc h s = Some s' -> IInv s'.
Proof.
  induction h as [|x r IH]; intros s s' I H; simpl in H; [inversion H; subst; exact I|].
  destruct (istep kc x s) as [[[ks o] d]|] eqn:E; [|discriminate].
  eapply IH; [|exact H]. eapply istep_inv; eauto.
Qed.

Lemma IInv_init : IInv (kinit, []).
Proof. split; [intros X; discriminate|reflexivity]. Qed.

(** in every interleaving: at most one admitted half-open probe is outstanding at any time, and while it
    is outstanding every other caller is rejected *)
Theorem single_probe_interleaved kc h ks o :
  irun kc h (kinit, []) = Some (ks, o) ->
  (probes o <= 1)%nat /\
  (probes o = 1%nat -> forall t, exists n, fst (allow kc t ks) = KDecision false HALF_OPEN n).
Proof.
  intros H. pose proof (irun_inv kc h _ _ IInv_init H) as [PO PR]. simpl in *.
  split; [destruct (cstate_eqb (st ks) HALF_OPEN && probe ks); lia|].
  intros P1 t. rewrite P1 in PR.
  destruct (cstate_eqb (st ks) HALF_OPEN && probe ks) eqn:E; [|discriminate].
  apply andb_true_iff in E as [E1 E2]. unfold allow.
  destruct (st ks); simpl in E1; try discriminate. rewrite E2. eexists. reflexivity.
Qed.
