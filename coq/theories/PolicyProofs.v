(** PolicyProofs.v — the policy wrapper and the breaker: one record per admitted call (C09), every
    admitted call settles and no probe slot leaks (C08), rejected calls do nothing (C07). *)
From Redress Require Import Base Window Budget Breaker Runner Corr Policy PolicyCorr.

Definition breaker_ops (tr : list pev) : list pev := filter is_breaker_op tr.

Lemma breaker_ops_app a b : breaker_ops (a ++ b) = breaker_ops a ++ breaker_ops b.
Proof. apply filter_app. Qed.
Lemma breaker_ops_PE l : breaker_ops (map PE l) = [].
Proof. induction l as [|x l IH]; simpl; [reflexivity|exact IH]. Qed.
Lemma breaker_ops_evs c n s k : breaker_ops (breaker_evs c n s k) = [].
Proof. unfold breaker_evs. destruct n; [|reflexivity]. destruct (has_metric c); destruct (has_log c); reflexivity. Qed.

(** the single record of a settlement *)
Definition record_of (kc : kcfg) (t : Z) (x : settle) (ks : kst) : pev :=
  match x with
  | SSucc => PSucc (ev_of (fst (record_success ks)))
  | SFail k => PFail k (ev_of (fst (record_failure kc k t ks)))
  | SCancel => PCancel
  end.

Lemma do_settle_ops kc c t x ks : breaker_ops (snd (do_settle kc c t x ks)) = [record_of kc t x ks].
Proof.
  unfold do_settle, record_of. destruct x.
  - destruct (record_success ks) as [r ks']. simpl. rewrite breaker_ops_evs. reflexivity.
  - destruct (record_failure kc k t ks) as [r ks']. simpl. rewrite breaker_ops_evs. reflexivity.
  - destruct (record_cancel ks) as [r ks']. reflexivity.
Qed.

Lemma allow_is_decision kc t ks : exists a s n, fst (allow kc t ks) = KDecision a s n.
Proof.
  unfold allow. destruct (st ks).
  - do 3 eexists; reflexivity.
  - destruct (k_rto kc <=? _); do 3 eexists; reflexivity.
  - destruct (probe ks); do 3 eexists; reflexivity.
Qed.

Lemma do_allow_ops kc c t ks a s ks' tr :
  do_allow kc c t ks = (a, s, ks', tr) ->
  exists n, fst (allow kc t ks) = KDecision a s n /\ ks' = snd (allow kc t ks) /\ breaker_ops tr = [PAllow a s n].
Proof.
  unfold do_allow. destruct (allow_is_decision kc t ks) as (a0 & s0 & n & E).
  destruct (allow kc t ks) as [r ks1]. simpl in E. subst r.
  intros H; inversion H; subst. exists n. simpl. rewrite breaker_ops_evs. auto.
Qed.

(** a pre-flight abort: no retry component, abort_if given and answering True *)
Definition preflight_abort (x : pcall) : bool :=
  negb (pc_retry x) && has_abort (pc_cfg x) && abort (pc_env x) 0%nat.

(** the inner run of an admitted call and the way it is settled *)
Definition inner_settle (x : pcall) (start : Z) (b : list Z) : settle :=
  if pc_retry x then
    snd (settle_of (pc_env x) (pc_coe x) (fst (fst (run (pc_mode x) (pc_cfg x) (pc_env x) start b))))
  else snd (fst (fst (noretry_inner (pc_mode x) (pc_env x) (pc_coe x) start))).
Definition inner_end (x : pcall) (start : Z) (b : list Z) : Z :=
  if pc_retry x then now (snd (fst (run (pc_mode x) (pc_cfg x) (pc_env x) start b)))
  else snd (noretry_inner (pc_mode x) (pc_env x) (pc_coe x) start).

(** (C09) what the breaker is told by one call: a rejected call only asks for admission; an admitted
    call asks for admission and then reports exactly once, whatever way it ends *)
Theorem one_record_per_call kc x start b ks :
  preflight_abort x = false ->
  let '(d, tr, tend, b', ks') := policy_call (Some kc) x start b ks in
  exists a s n, fst (allow kc start ks) = KDecision a s n /\
    if a then
      breaker_ops tr = [PAllow true s n; record_of kc (inner_end x start b) (inner_settle x start b) (snd (allow kc start ks))] /\
      ks' = fst (do_settle kc (pc_cfg x) (inner_end x start b) (inner_settle x start b) (snd (allow kc start ks))) /\
      exists d0, d = PD d0
    else
      breaker_ops tr = [PAllow false s n] /\ ks' = snd (allow kc start ks) /\
      d = (match pc_mode x with MCall => PDOpen s | MExec => PDOutcomeOpen s end) /\ tend = start /\ b' = b.
Proof.
  intros PF. unfold policy_call, preflight_abort, inner_settle, inner_end in *.
  set (pre := if negb (pc_retry x) && has_abort (pc_cfg x) then Some (abort (pc_env x) 0%nat) else None).
  assert (PR: pre = Some false \/ pre = None).
  { unfold pre. destruct (negb (pc_retry x) && has_abort (pc_cfg x)); simpl in PF; [rewrite PF; auto|auto]. }
  assert (PT: breaker_ops (match pre with Some a => [PE (EPoll a)] | None => [] end) = []).
  { destruct PR as [-> | ->]; reflexivity. }
  assert (E: match pre with
             | Some true => True
             | _ => True end) by (destruct pre as [[]|]; exact I).
  destruct (do_allow kc (pc_cfg x) start ks) as [[[a s] ks1] atr] eqn:DA.
  apply do_allow_ops in DA as (n & AL & -> & AO).
  assert (GOAL:
    let '(d, tr, tend, b', ks') :=
      (if negb a
       then (match pc_mode x with MCall => PDOpen s | MExec => PDOutcomeOpen s end,
             match pre with Some a0 => [PE (EPoll a0)] | None => [] end ++ atr, start, b, snd (allow kc start ks))
       else
         let '(d, sk, itr, tend, b') :=
           if pc_retry x
           then let '(d, sf, tr) := run (pc_mode x) (pc_cfg x) (pc_env x) start b in
                let '(extra, sk) := settle_of (pc_env x) (pc_coe x) d in (d, sk, tr ++ extra, now sf, bev sf)
           else let '(d, sk, tr, tend) := noretry_inner (pc_mode x) (pc_env x) (pc_coe x) start in (d, sk, tr, tend, b) in
         let '(ks2, str) := do_settle kc (pc_cfg x) tend sk (snd (allow kc start ks)) in
         (PD d, match pre with Some a0 => [PE (EPoll a0)] | None => [] end ++ atr ++ map PE itr ++ str, tend, b', ks2)) in
    exists a0 s0 n0, fst (allow kc start ks) = KDecision a0 s0 n0 /\
      if a0 then
        breaker_ops tr = [PAllow true s0 n0; record_of kc
            (if pc_retry x then now (snd (fst (run (pc_mode x) (pc_cfg x) (pc_env x) start b)))
             else snd (noretry_inner (pc_mode x) (pc_env x) (pc_coe x) start))
            (if pc_retry x then snd (settle_of (pc_env x) (pc_coe x) (fst (fst (run (pc_mode x) (pc_cfg x) (pc_env x) start b))))
             else snd (fst (fst (noretry_inner (pc_mode x) (pc_env x) (pc_coe x) start)))) (snd (allow kc start ks))] /\
        ks' = fst (do_settle kc (pc_cfg x)
            (if pc_retry x then now (snd (fst (run (pc_mode x) (pc_cfg x) (pc_env x) start b)))
             else snd (noretry_inner (pc_mode x) (pc_env x) (pc_coe x) start))
            (if pc_retry x then snd (settle_of (pc_env x) (pc_coe x) (fst (fst (run (pc_mode x) (pc_cfg x) (pc_env x) start b))))
             else snd (fst (fst (noretry_inner (pc_mode x) (pc_env x) (pc_coe x) start)))) (snd (allow kc start ks))) /\
        exists d0, d = PD d0
      else
        breaker_ops tr = [PAllow false s0 n0] /\ ks' = snd (allow kc start ks) /\
        d = (match pc_mode x with MCall => PDOpen s0 | MExec => PDOutcomeOpen s0 end) /\ tend = start /\ b' = b).
  { destruct a; cbn [negb].
    - destruct (pc_retry x).
      + destruct (run (pc_mode x) (pc_cfg x) (pc_env x) start b) as [[d sf] tr] eqn:R. cbn [fst snd].
        destruct (settle_of (pc_env x) (pc_coe x) d) as [extra sk] eqn:SO. cbn [fst snd].
        destruct (do_settle kc (pc_cfg x) (now sf) sk (snd (allow kc start ks))) as [ks2 str] eqn:DS.
        exists true, s, n. split; [exact AL|]. split.
        * rewrite !breaker_ops_app, PT, AO, breaker_ops_PE.
          pose proof (do_settle_ops kc (pc_cfg x) (now sf) sk (snd (allow kc start ks))) as DO. rewrite DS in DO. simpl in DO.
          rewrite DO. reflexivity.
        * split; [reflexivity|eauto].
      + destruct (noretry_inner (pc_mode x) (pc_env x) (pc_coe x) start) as [[[d sk] tr] tend] eqn:NI. cbn [fst snd].
        destruct (do_settle kc (pc_cfg x) tend sk (snd (allow kc start ks))) as [ks2 str] eqn:DS.
        exists true, s, n. split; [exact AL|]. split.
        * rewrite !breaker_ops_app, PT, AO, breaker_ops_PE.
          pose proof (do_settle_ops kc (pc_cfg x) tend sk (snd (allow kc start ks))) as DO. rewrite DS in DO. simpl in DO.
          rewrite DO. reflexivity.
        * split; [reflexivity|eauto].
    - exists false, s, n. split; [exact AL|]. rewrite breaker_ops_app, PT, AO. repeat split; reflexivity. }
  destruct PR as [-> | ->]; exact GOAL.
Qed.

(** (C09) the kind of the record, by what the caller gets *)
Theorem record_kind e coe d :
  snd (settle_of e coe d) =
  match d with
  | DReturn _ => SSucc
  | DOutcome o => if o_ok o then SSucc
                  else match o_stop o with Some S_ABORT => SCancel | _ => SFail (or_unknown (o_class o)) end
  | DRaiseOp a => if coe (Z.to_nat (a - 1)) then SCancel else SFail (op_class e a)
  | DExhausted _ _ lc _ _ _ => SFail (or_unknown lc)
  | DNested _ => SFail nested_class
  | DRuntimeError => SFail UNKNOWN
  | DAbort | DCancel _ _ | DCancelSleep _ _ => SCancel
  end.
Proof. destruct d; simpl; try reflexivity. destruct (coe (Z.to_nat (att - 1))); reflexivity. Qed.

(** (C09) failed attempts inside a call that goes on to retry are not reported: the events of the
    retry loop contain no breaker operation *)
Theorem loop_events_not_reported l : breaker_ops (map PE l) = [].
Proof. exact (breaker_ops_PE l). Qed.

(** ---------------- C08: no probe slot is leaked ---------------- *)
(** breaker states reachable from the initial state satisfy: a probe is in flight only while HALF_OPEN *)
Definition probe_ok (ks : kst) : Prop := probe ks = true -> st ks = HALF_OPEN.

Lemma allow_probe_ok kc t ks : probe_ok ks -> probe_ok (snd (allow kc t ks)).
Proof.
  unfold probe_ok, allow. intros H. destruct (st ks) eqn:S; simpl.
  - intros P. specialize (H P). discriminate.
  - destruct (k_rto kc <=? _); simpl; [reflexivity|]. intros P. specialize (H P). discriminate.
  - destruct (probe ks) eqn:P; simpl; [intros _; exact S|reflexivity].
Qed.

Lemma settle_releases kc c t x ks :
  probe_ok ks -> st ks <> OPEN -> probe (fst (do_settle kc c t x ks)) = false.
Proof.
  unfold probe_ok. intros H NO. unfold do_settle. destruct x.
  - unfold record_success. destruct (st ks) eqn:S; simpl; try reflexivity; try congruence.
    destruct (probe ks); [specialize (H eq_refl); congruence|reflexivity].
  - unfold record_failure. destruct (st ks) eqn:S; simpl; try reflexivity; try congruence.
    assert (P: probe ks = false) by (destruct (probe ks); [specialize (H eq_refl); congruence|reflexivity]).
    destruct (negb (trips kc k)); simpl; [exact P|].
    destruct (note_failure kc k t ks) as [[so f'] cf']. destruct so; simpl; exact P.
  - unfold record_cancel. destruct (st ks) eqn:S; simpl; try reflexivity; try congruence.
    destruct (probe ks); [specialize (H eq_refl); congruence|reflexivity].
Qed.

Lemma allow_admitted_not_open kc t ks a s n :
  fst (allow kc t ks) = KDecision a s n -> a = true -> st (snd (allow kc t ks)) <> OPEN /\ s = st (snd (allow kc t ks)).
Proof.
  unfold allow. destruct (st ks) eqn:S; simpl.
  - intros H _; inversion H; subst. rewrite S. split; [discriminate|reflexivity].
  - destruct (k_rto kc <=? _); simpl; intros H A; inversion H; subst; [split; [discriminate|reflexivity]|discriminate].
  - destruct (probe ks); simpl; intros H A; inversion H; subst; [discriminate|split; [discriminate|reflexivity]].
Qed.

Lemma allow_rejected_keeps_probe kc t ks a s n :
  fst (allow kc t ks) = KDecision a s n -> a = false -> probe (snd (allow kc t ks)) = probe ks.
Proof.
  unfold allow. destruct (st ks) eqn:S; simpl.
  - intros H A; inversion H; subst; discriminate.
  - destruct (k_rto kc <=? _); simpl; intros H A; inversion H; subst; [discriminate|reflexivity].
  - destruct (probe ks) eqn:P; simpl; intros H A; inversion H; subst; [rewrite P; reflexivity|discriminate].
Qed.

Lemma probe_ok_settle kc c t x ks : probe_ok ks -> probe_ok (fst (do_settle kc c t x ks)).
Proof.
  unfold probe_ok, do_settle. intros H. destruct x.
  - unfold record_success. destruct (st ks) eqn:S; simpl; try (intros P; specialize (H P); congruence). discriminate.
  - unfold record_failure. destruct (st ks) eqn:S; simpl; try (intros P; specialize (H P); congruence); try discriminate.
    destruct (negb (trips kc k)); simpl; [intros P; specialize (H P); congruence|].
    destruct (note_failure kc k t ks) as [[so f'] cf']. destruct so; simpl; intros P; specialize (H P); congruence.
  - unfold record_cancel. destruct (st ks) eqn:S; simpl; try (intros P; specialize (H P); congruence). discriminate.
Qed.

(** the quiescent invariant: between calls no probe is in flight (and the state is well formed) *)
Definition quiescent (ks : kst) : Prop := probe ks = false.

Theorem call_keeps_quiescent kco x start b ks :
  quiescent ks -> quiescent (snd (policy_call kco x start b ks)).
Proof.
  unfold quiescent. intros Q.
  destruct kco as [kc|].
  2:{ unfold policy_call.
      destruct (if negb (pc_retry x) && has_abort (pc_cfg x) then Some (abort (pc_env x) 0%nat) else None) as [[]|]; simpl; try exact Q.
      - destruct (if pc_retry x then _ else _) as [[[[d sk] itr] tend] b']. exact Q.
      - destruct (if pc_retry x then _ else _) as [[[[d sk] itr] tend] b']. exact Q. }
  destruct (preflight_abort x) eqn:PF.
  - unfold policy_call, preflight_abort in *.
    destruct (negb (pc_retry x) && has_abort (pc_cfg x)); simpl in PF; [|discriminate]. rewrite PF. simpl.
    unfold record_cancel. destruct (st ks); simpl; try exact Q. reflexivity.
  - pose proof (one_record_per_call kc x start b ks PF) as H.
    destruct (policy_call (Some kc) x start b ks) as [[[[d tr] tend] b'] ks']. simpl.
    destruct H as (a & s & n & AL & H). destruct a.
    + destruct H as (_ & -> & _).
      assert (PO: probe_ok ks) by (unfold probe_ok; rewrite Q; discriminate).
      apply settle_releases.
      * apply allow_probe_ok. exact PO.
      * apply (allow_admitted_not_open kc start ks true s n AL eq_refl).
    + destruct H as (_ & -> & _). rewrite (allow_rejected_keeps_probe kc start ks false s n AL eq_refl). exact Q.
Qed.

Lemma policy_seq_final kco : forall calls start b ks,
  quiescent ks ->
  forall pre x, calls = pre ++ [x] ->
  exists start' b' ks0, quiescent ks0 /\
    nth_error (policy_seq kco calls start b ks) (length pre) = Some (fst (fst (fst (fst (policy_call kco x start' b' ks0)))),
                                                                     snd (fst (fst (fst (policy_call kco x start' b' ks0))))).
Proof.
  induction calls as [|y r IH]; intros start b ks Q pre x E.
  - destruct pre; discriminate.
  - destruct pre as [|p pre]; simpl in E; inversion E; subst.
    + simpl. destruct (policy_call kco x (start + pc_gap x) b ks) as [[[[d tr] tend] b'] ks'] eqn:PC.
      exists (start + pc_gap x), b, ks. split; [exact Q|]. rewrite PC. reflexivity.
    + simpl. destruct (policy_call kco p (start + pc_gap p) b ks) as [[[[d tr] tend] b'] ks'] eqn:PC.
      simpl. apply IH; [|reflexivity].
      pose proof (call_keeps_quiescent kco p (start + pc_gap p) b ks Q) as K. rewrite PC in K. exact K.
Qed.

(** (C08) hence: after any sequence of calls, each of which has ended, no probe is in flight ... *)
Fixpoint final_breaker (kco : option kcfg) (calls : list pcall) (start : Z) (b : list Z) (ks : kst) : Z * kst :=
  match calls with
  | [] => (start, ks)
  | x :: r => let '(_, _, tend, b', ks') := policy_call kco x (start + pc_gap x) b ks in final_breaker kco r tend b' ks'
  end.

Theorem no_phantom_probe kco : forall calls start b ks,
  quiescent ks -> quiescent (snd (final_breaker kco calls start b ks)).
Proof.
  induction calls as [|x r IH]; intros start b ks Q; simpl; [exact Q|].
  pose proof (call_keeps_quiescent kco x (start + pc_gap x) b ks Q) as K.
  destruct (policy_call kco x (start + pc_gap x) b ks) as [[[[d tr] tend] b'] ks']. simpl in K. apply IH. exact K.
Qed.

(** ... and the next call is admitted as soon as recovery_timeout_s has elapsed (or at once when the
    breaker is not open): the breaker can never be wedged *)
Theorem no_wedge kc t ks :
  quiescent ks ->
  (st ks = OPEN -> exists oa, opened_at ks = Some oa /\ k_rto kc <= t - oa) ->
  exists s n, fst (allow kc t ks) = KDecision true s n.
Proof.
  unfold quiescent, allow. intros Q H. destruct (st ks) eqn:S.
  - do 2 eexists; reflexivity.
  - destruct (H eq_refl) as (oa & -> & R). replace (k_rto kc <=? t - oa) with true by lia. do 2 eexists; reflexivity.
  - rewrite Q. do 2 eexists; reflexivity.
Qed.

(** ---------------- C07 at policy level ---------------- *)
(** an open breaker rejects until recovery_timeout_s has elapsed ... *)
Theorem policy_open_rejects kc t ks oa :
  st ks = OPEN -> opened_at ks = Some oa -> t - oa < k_rto kc ->
  fst (allow kc t ks) = KDecision false OPEN (Some N_CIRCUIT_REJECTED) /\
  st (snd (allow kc t ks)) = OPEN /\ opened_at (snd (allow kc t ks)) = Some oa /\
  fails (snd (allow kc t ks)) = fails ks /\ probe (snd (allow kc t ks)) = probe ks.
Proof.
  intros S O R. unfold allow. rewrite S, O. replace (k_rto kc <=? t - oa) with false by lia. simpl. auto.
Qed.

Definition is_invocation (x : pev) : bool := match x with PE (EInvoke _ _) => true | _ => false end.
Definition is_record (x : pev) : bool := match x with PSucc _ | PFail _ _ | PCancel => true | _ => false end.

(** ... and a rejected call does not invoke the operation, is not counted, and fails fast *)
Theorem policy_rejected_call kc x start b ks a s n :
  preflight_abort x = false -> fst (allow kc start ks) = KDecision a s n -> a = false ->
  let '(d, tr, tend, b', ks') := policy_call (Some kc) x start b ks in
  filter is_invocation tr = [] /\ filter is_record tr = [] /\
  d = (match pc_mode x with MCall => PDOpen s | MExec => PDOutcomeOpen s end) /\
  tend = start /\ b' = b /\ ks' = snd (allow kc start ks).
Proof.
  intros PF AL ->. unfold policy_call, preflight_abort in *.
  set (pre := if negb (pc_retry x) && has_abort (pc_cfg x) then Some (abort (pc_env x) 0%nat) else None).
  assert (PR: pre = Some false \/ pre = None).
  { unfold pre. destruct (negb (pc_retry x) && has_abort (pc_cfg x)); simpl in PF; [rewrite PF; auto|auto]. }
  unfold do_allow. destruct (allow kc start ks) as [r ks1]. simpl in AL. subst r. cbn [negb].
  assert (BE: forall k0, filter is_invocation (breaker_evs (pc_cfg x) n s k0) = [] /\ filter is_record (breaker_evs (pc_cfg x) n s k0) = []).
  { intros k0. unfold breaker_evs. destruct n; [|split; reflexivity].
    destruct (has_metric (pc_cfg x)); destruct (has_log (pc_cfg x)); split; reflexivity. }
  destruct (BE None) as [B1 B2].
  destruct PR as [-> | ->]; simpl; rewrite B1, B2; repeat split; reflexivity.
Qed.
