(** C01 — Attempt caps (global, per-class, UNKNOWN, non-retryable) are never exceeded.
    Only statements; each closed by [exact <lemma>] and followed by Print Assumptions.
    All statements hold for both delivery modes (call / execute), every configuration [c], every
    environment [e] (outcome sequences of either cause, durations, abort answers, strategy returns,
    handler decisions, hook faults), every start time and every state of the shared budget. *)
From Redress Require Import Base Window Budget Runner Corr RunnerProofs RunnerSpec RunnerC01.

(** The operation is invoked at most max_attempts times (not at all when max_attempts <= 0). *)
Theorem C01_invocations : forall m c e start b,
  Z.of_nat (length (filter is_invoke (run_trace m c e start b))) <= Z.max 0 (max_attempts c).
Proof. exact invocations_bounded. Qed.
Print Assumptions C01_invocations.

(** Every invocation in the trace is the attempt of an executed loop iteration (attempts are numbered
    1, 2, ... by iteration). *)
Theorem C01_invocation_is_iteration : forall m c e start b a t,
  In (EInvoke a t) (run_trace m c e start b) ->
  exists r, In r (run_iters m c e start b) /\ a = Z.of_nat (ir_i r) + 1.
Proof. exact invoke_has_record. Qed.
Print Assumptions C01_invocation_is_iteration.

(** After an attempt whose failure (exception- or result-caused) is classified PERMANENT, AUTH or
    PERMISSION, the operation is never invoked again: every invocation has an attempt number not
    beyond that attempt. *)
Theorem C01_nonretryable_last : forall m c e start b r cl cs a t,
  In r (run_iters m c e start b) -> rec_fail c e r = Some (cl, cs) -> nonretryable (cl_k cl) = true ->
  In (EInvoke a t) (run_trace m c e start b) -> a <= Z.of_nat (ir_i r) + 1.
Proof. exact nonretryable_last. Qed.
Print Assumptions C01_nonretryable_last.

(** A later attempt exists only if the earlier iteration "continued" (a retry was granted and
    carried out) ... *)
Theorem C01_retry_means_continued : forall m c e start b r r',
  In r (run_iters m c e start b) -> In r' (run_iters m c e start b) -> (ir_i r < ir_i r')%nat -> continued r = true.
Proof. exact later_record_means_continued. Qed.
Print Assumptions C01_retry_means_continued.

(** ... and the number of iterations that continued after a failure of class k never exceeds
    per_class_max_attempts[k] ... *)
Theorem C01_per_class : forall m c e start b k l,
  per_class c k = Some l ->
  Z.of_nat (length (filter (cont_class c e k) (run_iters m c e start b))) <= Z.max 0 l.
Proof. exact per_class_bound. Qed.
Print Assumptions C01_per_class.

(** ... nor, for UNKNOWN, max_unknown_attempts. *)
Theorem C01_unknown : forall m c e start b l,
  max_unknown c = Some l ->
  Z.of_nat (length (filter (cont_class c e UNKNOWN) (run_iters m c e start b))) <= Z.max 0 l.
Proof. exact unknown_bound. Qed.
Print Assumptions C01_unknown.

(** No counter carries over between calls on the same policy object: each call of a sequence is a
    run from a fresh state (only the clock and the shared budget carry on), so all bounds above hold
    per call. *)
Theorem C01_fresh_per_call : forall calls start b j k d tr,
  nth_error calls j = Some k -> nth_error (run_seq calls start b) j = Some (d, tr) ->
  exists start' b', d = run_delivery (cs_mode k) (cs_cfg k) (cs_env k) start' b' /\
                    tr = run_trace (cs_mode k) (cs_cfg k) (cs_env k) start' b'.
Proof. exact run_seq_fresh. Qed.
Print Assumptions C01_fresh_per_call.

(** Non-vacuity: max_attempts 5, per-class cap 1 for RATE_LIMIT, UNKNOWN cap 1: the run
    RATE_LIMIT, UNKNOWN, RATE_LIMIT stops at the third attempt on the per-class cap. *)
Example C01_nonvacuous :
  let c := mk_cfg 5 1000 (Some 1) [(RATE_LIMIT, 1)] [] (Some false) [] None in
  let e := mk_env [(ORaise {| cl_k := RATE_LIMIT; cl_ra := None |}, 1);
                        (ORaise {| cl_k := UNKNOWN; cl_ra := None |}, 1);
                        (ORaise {| cl_k := RATE_LIMIT; cl_ra := None |}, 1);
                        (OValue None, 1)] [] [SFin 2; SFin 2; SFin 2] [] [] [] [] [] [] [] in
  filter is_invoke (run_trace MCall c e 0 []) = [EInvoke 1 0; EInvoke 2 3; EInvoke 3 6] /\
  run_delivery MCall c e 0 [] = DRaiseOp 3 /\
  length (filter (cont_class c e RATE_LIMIT) (run_iters MCall c e 0 [])) = 1%nat.
Proof. vm_compute. repeat split; reflexivity. Qed.
