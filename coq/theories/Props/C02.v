(** C02 — Deadline envelope: no attempt starts and no sleep extends past deadline_s.
    Only statements; each closed by [exact <lemma>] and followed by Print Assumptions.
    Times are ticks of the monotonic clock; [start] is the clock value when call()/execute() began.
    The model has no wall-clock input at all; that wall-clock jumps have no influence is carried by
    the correspondence run, in which time.time() jumps on every read. *)
From Redress Require Import Base Window Budget Runner Corr RunnerProofs RunnerSpec RunnerC01 RunnerC03 RunnerFull RunnerLoop RunnerC02.

(** Every attempt other than the first is started with at most deadline_s elapsed. *)
Theorem C02_attempt_start : forall m c e start b a t,
  In (EInvoke a t) (run_trace m c e start b) -> 2 <= a -> t - start <= deadline c.
Proof. exact attempt_start_within_deadline. Qed.
Print Assumptions C02_attempt_start.

(** Every sleep requested from the sleeper is non-negative and no longer than the time remaining
    before the deadline at the moment it is requested. *)
Theorem C02_sleep_within_remaining : forall m c e start b w d t,
  In (ESleep w d t) (run_trace m c e start b) -> 0 <= d <= deadline c - (t - start).
Proof. exact sleep_within_remaining. Qed.
Print Assumptions C02_sleep_within_remaining.

(** Hence, if attempts take non-negative time and the sleeper sleeps at least what it is asked, the
    total sleep requested in one call never exceeds deadline_s. *)
Theorem C02_total_sleep : forall m c e start b,
  timing_ok e -> 0 <= total_sleep (run_trace m c e start b) <= Z.max 0 (deadline c).
Proof. exact total_sleep_bounded. Qed.
Print Assumptions C02_total_sleep.

(** A failure observed at or after the deadline is never retried: that iteration consults no
    strategy, asks for no budget token, reports no `retry`, calls neither sleep handler, before_sleep
    nor sleeper, and ends the run. *)
Theorem C02_no_retry_at_deadline : forall m c e i s res s2 tr cl cs,
  iter m c e i s = (res, s2, tr) -> pa c e s 0 = false -> fail_of c (fst (op e i)) = Some (cl, cs) ->
  deadline c <= elapsed (at_fail e i s) ->
  filter is_retry_work tr = [] /\ exists fn, res = inr fn.
Proof. exact no_retry_at_deadline. Qed.
Print Assumptions C02_no_retry_at_deadline.

(** The elapsed time used by all of these is measured from the start of this call. *)
Theorem C02_measured_from_call_start : forall m c e start b r,
  In r (run_iters m c e start b) -> t0 (ir_pre r) = start.
Proof. intros m c e start b r H. exact (top_t0 _ _ _ _ (run_top m c e start b r H)). Qed.
Print Assumptions C02_measured_from_call_start.

(** Non-vacuity: deadline 10, attempts of 3 ticks, strategy asking for 100: sleeps of 7 (clamped to
    the remaining time) and then the failure observed at elapsed 13 >= 10 is not retried. *)
Example C02_nonvacuous :
  let c := mk_cfg 5 10 None [] [] (Some false) [] None in
  let e := mk_env [(ORaise {| cl_k := TRANSIENT; cl_ra := None |}, 3);
                   (ORaise {| cl_k := TRANSIENT; cl_ra := None |}, 3);
                   (OValue None, 1)] [] [SFin 100; SFin 100] [] [] [] [] [] [] [] in
  strip (run_trace MCall c e 50 []) =
    [EInvoke 1 50; EClassify 1; EStrat SidDefault false 1 TRANSIENT None None (Some 7) (Some CExc);
     ESleep WDefault 7 53; EInvoke 2 60; EClassify 2] /\
  total_sleep (run_trace MCall c e 50 []) = 7 /\ timing_ok e.
Proof.
  split; [vm_compute; reflexivity|]. split; [vm_compute; reflexivity|].
  split; intros i; do 4 (destruct i as [|i]; [vm_compute; congruence|]); vm_compute; congruence.
Qed.
