(** C03 — Retry exactly when permitted: no premature give-up, no wasted backoff.
    Only statements; each closed by [exact <lemma>] and followed by Print Assumptions.
    [iter m c e i s] is one pass of the retry loop for attempt i+1 from loop-top state s;
    returning [inl _] means: the loop goes on to the next attempt. *)
From Redress Require Import Base Window Budget Runner Corr RunnerProofs RunnerSpec RunnerC01 RunnerC03.

(** A failed attempt is followed by another attempt if and only if, at that moment: the failure class
    is retryable and has a strategy, no attempt cap (global, per-class, UNKNOWN) is reached, the
    deadline has not passed, the budget grants a token, no abort is requested (at any of the three
    polls) and the sleep handler neither defers nor aborts — [permitted] spells these out. The one
    thing the library cannot know when it starts the sleep is whether the deadline passes during it
    (sleeper overshoot) or the sleep is cancelled; those are the last conjuncts of [permitted]. *)
Theorem C03_continue_iff : forall m c e i s,
  (exists s1 s2 tr, iter m c e i s = (inl s1, s2, tr)) <-> permitted c e i s.
Proof. exact iter_continue_iff. Qed.
Print Assumptions C03_continue_iff.

(** Loop level: an invocation of attempt a+1 appears in the trace only if attempt a was permitted to
    be retried. *)
Theorem C03_next_attempt_only_if : forall m c e start b r t,
  In r (run_iters m c e start b) ->
  In (EInvoke (Z.of_nat (ir_i r) + 2) t) (run_trace m c e start b) ->
  permitted c e (ir_i r) (ir_pre r).
Proof. exact next_attempt_only_if. Qed.
Print Assumptions C03_next_attempt_only_if.

(** ... and a permitted retry makes the loop start the next iteration whenever attempts remain. *)
Theorem C03_next_iteration_exists : forall m c e fuel i s n r s1,
  nth_error (iters m c e fuel i s) n = Some r -> ir_res r = inl s1 -> (S n < fuel)%nat ->
  exists r', nth_error (iters m c e fuel i s) (S n) = Some r' /\ ir_pre r' = s1.
Proof. exact iters_next. Qed.
Print Assumptions C03_next_iteration_exists.

(** A successful attempt always ends the run at once (nothing but the success report follows). *)
Theorem C03_success_ends : forall m c e i s res s2 tr,
  iter m c e i s = (res, s2, tr) -> pa c e s 0 = false ->
  fail_of c (fst (op e i)) = None ->
  (forall rc, fst (op e i) = OValue rc) ->
  res = inr (FSuccess (Z.of_nat i + 1)) /\
  strip tr = poll_event c false ++ [EInvoke (Z.of_nat i + 1) (now s)] ++ (if has_rc c then [ERClassify (Z.of_nat i + 1)] else []).
Proof. exact success_ends. Qed.
Print Assumptions C03_success_ends.

(** The budget is asked exactly when the failure passes every stop condition that can be evaluated
    when it is observed (and no abort was requested); hence no token is spent — and, by
    [C03_grant_iff_verdict], no retry is granted — after the last permitted attempt. *)
Theorem C03_budget_asked_iff : forall m c e i s res s2 tr cl cs g,
  iter m c e i s = (res, s2, tr) -> pa c e s 0 = false -> fail_of c (fst (op e i)) = Some (cl, cs) ->
  (In (EBudget g) tr <->
   pa c e s 1 = false /\ static_ok c e i s (cl_k cl) /\
   exists b, budget c = Some b /\
             g = match fst (consume b (now (at_fail e i s)) 1 (bev s)) with RGrant => true | _ => false end).
Proof. exact budget_asked_iff. Qed.
Print Assumptions C03_budget_asked_iff.

(** A retry is granted (delay computed, `retry` reported) iff the static conditions hold and the
    budget grants. *)
Theorem C03_grant_iff_verdict : forall c e i s k d,
  hf_verdict c e i (Z.of_nat i + 1) k (at_fail e i s) = inr d <->
  static_ok c e i s k /\ budget_grants c e i s /\
  d = sanitize (strat e i) (deadline c - elapsed (at_fail e i s)).
Proof. exact hf_retry_iff. Qed.
Print Assumptions C03_grant_iff_verdict.

(** The sleeper is called exactly for granted retries that are not pre-empted by an abort request,
    a DEFER/ABORT of the sleep handler or a cancelled before_sleep. *)
Theorem C03_sleep_iff : forall m c e i s res s2 tr w d t,
  iter m c e i s = (res, s2, tr) ->
  (In (ESleep w d t) tr <->
   exists cl cs bv, iter_verdict c e i s = IBackoff cl cs d bv /\ handler_dec c e i = HSleep /\
                    bs_cancelled c e i = None /\ w = sleeper_who c /\ t = now (at_fail e i s)).
Proof. exact sleep_iff. Qed.
Print Assumptions C03_sleep_iff.

(** No wasted backoff: once the library has slept, the only reason not to go on is that the deadline
    passed during that sleep; in particular it never sleeps after the last permitted attempt
    (MAX_ATTEMPTS_GLOBAL after a sleep is impossible). *)
Theorem C03_no_wasted_backoff : forall c e i s cl cs d bv,
  iter_verdict c e i s = IBackoff cl cs d bv ->
  match bv with
  | BStop r => r = S_DEADLINE /\ deadline c < now (at_fail e i s) + d + over e i - t0 s
  | _ => True
  end.
Proof. exact no_wasted_backoff. Qed.
Print Assumptions C03_no_wasted_backoff.

(** The stop reason reported when a failure is not retried is one of the stop conditions that holds. *)
Theorem C03_stop_reason_sound : forall c e i s k r,
  hf_verdict c e i (Z.of_nat i + 1) k (at_fail e i s) = inl r -> reason_holds c e i s k r.
Proof. exact stop_reason_sound. Qed.
Print Assumptions C03_stop_reason_sound.

(** Non-vacuity: with max_attempts = 3 and three TRANSIENT failures the third failure is not retried:
    two sleeps, two budget tokens, and MAX_ATTEMPTS_GLOBAL reported at attempt 3 without a sleep
    (the witness of the defect repaired by the fix: commit — before it, a third sleep and token). *)
Example C03_nonvacuous :
  let c := mk_cfg 3 100000 None [] [] (Some false) [] (Some {| bmax := 5; bwin := 1000 |}) in
  let e := mk_env [(ORaise {| cl_k := TRANSIENT; cl_ra := None |}, 1);
                   (ORaise {| cl_k := TRANSIENT; cl_ra := None |}, 1);
                   (ORaise {| cl_k := TRANSIENT; cl_ra := None |}, 1)] [] [SFin 2; SFin 2; SFin 2] [] [] [] [] [] [] [] in
  strip (run_trace MCall c e 0 []) =
    [EInvoke 1 0; EClassify 1; EStrat SidDefault false 1 TRANSIENT None None (Some 99999) (Some CExc); EBudget true;
     ESleep WDefault 2 1;
     EInvoke 2 3; EClassify 2; EStrat SidDefault false 2 TRANSIENT None (Some 2) (Some 99996) (Some CExc); EBudget true;
     ESleep WDefault 2 4;
     EInvoke 3 6; EClassify 3] /\
  run_delivery MCall c e 0 [] = DRaiseOp 3 /\
  permitted c e 0 (init_rst 0 []).
Proof.
  split; [vm_compute; reflexivity|]. split; [vm_compute; reflexivity|].
  unfold permitted. split; [reflexivity|].
  exists {| cl_k := TRANSIENT; cl_ra := None |}, CExc.
  split; [reflexivity|]. split; [reflexivity|].
  split. { unfold static_ok. repeat split; try reflexivity; try discriminate; vm_compute; congruence. }
  split. { intros b H. inversion H; subst. reflexivity. }
  repeat split; try reflexivity. vm_compute. congruence.
Qed.
