(** C04 — call() surfaces exactly the last attempt's value or exception.
    Only statements; each closed by [exact <lemma>] and followed by Print Assumptions.
    Values and exception objects are identified by the attempt that produced them: [DReturn a] returns
    the very object attempt a returned, [DRaiseOp a] re-raises the very exception object attempt a
    raised (identity `is` and the innermost traceback frame are checked by the correspondence driver;
    tracebacks as such are not modelled).  [final_pass m c e start b r fn]: r is the last executed pass
    of the run, it ended the run in the way [fn], and the run delivers [deliver m c (ir_post r) fn]. *)
From Redress Require Import Base Window Budget Runner Corr RunnerProofs RunnerSpec RunnerC01 RunnerC03 RunnerFull RunnerLoop
  RunnerVerdict RunnerC02 RunnerC13 RunnerC14 RunnerDeliver.

(** Every run with max_attempts >= 1 has a final pass that determines what is delivered. *)
Theorem C04_final_pass_exists : forall m c e start b,
  1 <= max_attempts c -> exists r fn, final_pass m c e start b r fn.
Proof. exact run_has_final_pass. Qed.
Print Assumptions C04_final_pass_exists.

(** It is the last attempt: no invocation of the run has a larger attempt number. *)
Theorem C04_final_pass_is_last_attempt : forall m c e start b r fn a t,
  final_pass m c e start b r fn -> In (EInvoke a t) (run_trace m c e start b) -> a <= Z.of_nat (ir_i r) + 1.
Proof. exact final_pass_is_last. Qed.
Print Assumptions C04_final_pass_is_last_attempt.

(** How the run ended, in terms of that attempt: success means this attempt's outcome is a value
    classified as success (and, by C03_success_ends, it is the first such attempt); a stop on a
    failure means this attempt's outcome is that classified failure, recorded in the state together
    with the stop reason; next_sleep_s is set exactly when the sleep handler deferred. *)
Theorem C04_final_pass_facts : forall m c e start b r fn,
  final_pass m c e start b r fn ->
  let i := ir_i r in let s := ir_pre r in let s2 := ir_post r in
  last_stop s = None /\
  match fn with
  | FSuccess a => a = Z.of_nat i + 1 /\ fail_of c (fst (op e i)) = None /\ (exists rc, fst (op e i) = OValue rc) /\
                  iter_verdict c e i s = ISuccess
  | FStop a cs nx =>
      a = Z.of_nat i + 1 /\
      exists cl r0, fail_of c (fst (op e i)) = Some (cl, cs) /\ last_fail s2 = Some (cl, cs, a) /\ last_stop s2 = Some r0 /\
                    (forall d, nx = Some d <-> exists bvd, iter_verdict c e i s = IBackoff cl cs d bvd /\ bvd = BDefer) /\
                    (nx <> None -> r0 = S_SCHED) /\ (nx = None -> r0 <> S_SCHED /\ r0 <> S_ABORT)
  | FAbort a => last_stop s2 = Some S_ABORT /\ (a = Z.of_nat i + 1 \/ a = Z.of_nat i) /\
                (a = Z.of_nat i <-> iter_verdict c e i s = IAbortTop)
  | FCancel k a => a = Z.of_nat i + 1 /\ fst (op e i) = OCancel k
  | FCancelSleep k a => a = Z.of_nat i + 1
  | FNested a => a = Z.of_nat i + 1 /\ fst (op e i) = ONested
  end.
Proof. exact final_pass_facts. Qed.
Print Assumptions C04_final_pass_facts.

(** call() returns the object returned by the successful attempt. *)
Theorem C04_return : forall c s a, deliver MCall c s (FSuccess a) = DReturn a.
Proof. reflexivity. Qed.
Print Assumptions C04_return.

(** When retries stop on an exception-caused failure call() re-raises that attempt's own exception;
    on a result-caused failure or a deferral it raises RetryExhaustedError describing that attempt:
    stop_reason, attempts, last_class, exactly one of last_exception / last_result, next_sleep_s. *)
Theorem C04_stop_delivery : forall c s a cs nx cl r,
  last_fail s = Some (cl, cs, a) -> last_stop s = Some r ->
  deliver MCall c s (FStop a cs nx) =
  match cs, nx with
  | CExc, None => DRaiseOp a
  | CExc, Some d => DExhausted r a (Some (cl_k cl)) (Some a) None (Some d)
  | CRes, _ => DExhausted r a (Some (cl_k cl)) None (Some a) nx
  end.
Proof. exact deliver_call_stop. Qed.
Print Assumptions C04_stop_delivery.

(** Non-vacuity: exception, result, then a result failure on which retries stop (per-class cap):
    RetryExhaustedError carrying the third attempt's result and no exception. *)
Example C04_nonvacuous :
  let c := mk_cfg 5 1000 None [(RATE_LIMIT, 1)] [] (Some false) [true] None in
  let e := mk_env [(ORaise {| cl_k := TRANSIENT; cl_ra := None |}, 1);
                   (OValue (Some {| cl_k := RATE_LIMIT; cl_ra := None |}), 1);
                   (OValue (Some {| cl_k := RATE_LIMIT; cl_ra := None |}), 1)] [] [SFin 2; SFin 2] [] [] [] [] [] [] [] in
  run_delivery MCall c e 0 [] = DExhausted S_PERCLASS 3 (Some RATE_LIMIT) None (Some 3) None.
Proof. vm_compute. reflexivity. Qed.
