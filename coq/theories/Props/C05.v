(** C05 — Backoff delay = the failure class's strategy output, sanitised and capped.
    Only statements; each closed by [exact <lemma>] and followed by Print Assumptions.
    [EStrat sid legacy attempt klass retry_after prev remaining cause] records one strategy call with
    the arguments it received ([legacy] = the 3-argument signature (attempt, klass, prev_sleep_s));
    [strat e i] is the raw value the strategy consulted at attempt i+1 returns (finite, NaN or +-inf). *)
From Redress Require Import Base Window Budget Runner Corr RunnerProofs RunnerSpec RunnerC01 RunnerC03 RunnerFull RunnerLoop
  RunnerVerdict RunnerC02 RunnerC13 RunnerC16 RunnerC05.

(** The strategy registered for the failure's class, else the default strategy. *)
Theorem C05_strategy_selected : forall c k,
  select_strategy c k =
  match strat_tab c k with
  | Some legacy => Some (SidClass k, legacy)
  | None => match strat_default c with Some legacy => Some (SidDefault, legacy) | None => None end
  end.
Proof. exact select_strategy_spec. Qed.
Print Assumptions C05_strategy_selected.

(** Which passes call a strategy: every granted retry, a retry refused only by the budget, and no other. *)
Theorem C05_strategy_calls : forall m c e i s res s2 tr,
  iter m c e i s = (res, s2, tr) ->
  filter is_strat tr =
  match iter_verdict c e i s with
  | IStop cl cs _ =>
      if hf_consulted c (Z.of_nat i + 1) (cl_k cl) (at_fail e i s)
      then strat_event c (Z.of_nat i + 1) cl cs (at_fail e i s) else []
  | IAbortAfterGrant cl cs _ | IBackoff cl cs _ _ => strat_event c (Z.of_nat i + 1) cl cs (at_fail e i s)
  | _ => []
  end.
Proof. exact strat_calls_by_verdict. Qed.
Print Assumptions C05_strategy_calls.

(** At most once per failed attempt ... *)
Theorem C05_at_most_once : forall m c e i s res s2 tr,
  iter m c e i s = (res, s2, tr) -> (length (filter is_strat tr) <= 1)%nat.
Proof. exact strat_at_most_once. Qed.
Print Assumptions C05_at_most_once.

(** ... and exactly once for each granted retry. *)
Theorem C05_exactly_once_per_grant : forall m c e i s res s2 tr cl cs d bv,
  iter m c e i s = (res, s2, tr) -> iter_verdict c e i s = IBackoff cl cs d bv ->
  length (filter is_strat tr) = 1%nat.
Proof. exact strat_exactly_once_per_grant. Qed.
Print Assumptions C05_exactly_once_per_grant.

(** Its arguments: the true attempt number, the classifier's classification (class and retry_after_s),
    the previously applied delay, the time remaining before the deadline, and the cause; a legacy
    strategy receives exactly (attempt, class, previous delay). [s] is the state when the failure is
    handled. *)
Theorem C05_context : forall c att cl cs s,
  strat_event c att cl cs s =
  match select_strategy c (cl_k cl) with
  | Some (sd, true) => [EStrat sd true att (cl_k cl) None (prev s) None None]
  | Some (sd, false) => [EStrat sd false att (cl_k cl) (cl_ra cl) (prev s) (Some (deadline c - elapsed s)) (Some cs)]
  | None => []
  end.
Proof. exact strat_event_spec. Qed.
Print Assumptions C05_context.

(** The previous delay is None on the first attempt and otherwise the delay granted by the previous pass. *)
Theorem C05_prev_first : forall m c e start b r,
  In r (run_iters m c e start b) -> ir_i r = 0%nat -> prev (ir_pre r) = None.
Proof. exact first_attempt_no_prev. Qed.
Print Assumptions C05_prev_first.

Theorem C05_prev_chain : forall m c e i s s1 s2 tr,
  iter m c e i s = (inl s1, s2, tr) ->
  exists cl cs d, iter_verdict c e i s = IBackoff cl cs d BContinue /\ prev s1 = Some d.
Proof. exact prev_is_previous_delay. Qed.
Print Assumptions C05_prev_chain.

(** The granted delay: non-finite or negative strategy output replaced by 0, capped at the time remaining. *)
Theorem C05_delay : forall c e i s cl cs d bv,
  iter_verdict c e i s = IBackoff cl cs d bv ->
  d = sanitize (strat e i) (deadline c - elapsed (at_fail e i s)) /\ 0 <= d <= deadline c - elapsed (at_fail e i s).
Proof. exact granted_delay. Qed.
Print Assumptions C05_delay.

Theorem C05_sanitize : forall v rem,
  sanitize v rem = Z.min (Z.max 0 (match v with SFin z => z | _ => 0 end)) rem.
Proof. exact sanitize_spec. Qed.
Print Assumptions C05_sanitize.

(** That same delay is what the sleep handler, before_sleep and the sleeper receive and what the
    `retry` and `scheduled` reports carry (next_sleep_s: C16_defer_delivery). *)
Theorem C05_same_delay_everywhere : forall m c e i s res s2 tr cl cs d bv,
  iter m c e i s = (res, s2, tr) -> iter_verdict c e i s = IBackoff cl cs d bv -> Forall (carries d) tr.
Proof. exact same_delay_everywhere. Qed.
Print Assumptions C05_same_delay_everywhere.

(** Non-vacuity: per-class legacy strategy for RATE_LIMIT, default context strategy; NaN and a value
    above the remaining time are sanitised. *)
Example C05_nonvacuous :
  let c := mk_cfg 5 10 None [] [(RATE_LIMIT, true)] (Some false) [false; false; false; false; false; false; false; false; true] None in
  let e := mk_env [(ORaise {| cl_k := TRANSIENT; cl_ra := Some (HFin 7) |}, 1);
                   (ORaise {| cl_k := RATE_LIMIT; cl_ra := None |}, 1);
                   (OValue None, 0)] [] [SNaN; SFin 100] [] [] [] [] [] [] [] in
  strip (run_trace MCall c e 0 []) =
    [EInvoke 1 0; EClassify 1; EStrat SidDefault false 1 TRANSIENT (Some (HFin 7)) None (Some 9) (Some CExc); ESleep WDefault 0 1;
     EInvoke 2 1; EClassify 2; EStrat (SidClass RATE_LIMIT) true 2 RATE_LIMIT None (Some 0) None None; ESleep WDefault 8 2;
     EInvoke 3 10].
Proof. vm_compute. reflexivity. Qed.
