(** C06 — Breaker opens exactly when counted failures reach a threshold in the window.
    Only statements; each closed by [exact <lemma>] and followed by Print Assumptions. *)
From Redress Require Import Base Window Breaker BreakerProofs.

(** For every configuration and every history of allow / record_success / record_failure(class) /
    record_cancel / state with non-decreasing clock readings, the pruned deques of circuit.py answer
    exactly like the specification that keeps the whole epoch (all counted failures recorded while
    CLOSED since the last state change) and looks only at entries younger than the window. *)
Theorem C06_refinement : forall c t0 h,
  0 < k_win c -> kmono t0 h -> fst (krun c kinit h) = fst (srun c sinit h).
Proof. exact breaker_refinement. Qed.
Print Assumptions C06_refinement.

(** The opening rule: a record_failure(k) at [now] while CLOSED reports circuit_opened (and the state
    becomes OPEN) iff k is a counted class and, counting this failure, the epoch holds at least
    failure_threshold failures younger than window_s, or at least class_thresholds[k] such failures
    of class k. *)
Theorem C06_opens_iff : forall c k now s,
  s_st s = CLOSED ->
  (fst (sfailure c k now s) = KEvent (Some N_CIRCUIT_OPENED) <->
   trips c k = true /\ should_open c k now (s_epoch s) = true).
Proof. exact opens_iff. Qed.
Print Assumptions C06_opens_iff.

Theorem C06_opens_state_iff : forall c k now s,
  s_st s = CLOSED ->
  (s_st (snd (sfailure c k now s)) = OPEN <-> trips c k = true /\ should_open c k now (s_epoch s) = true).
Proof. exact opens_state_iff. Qed.
Print Assumptions C06_opens_state_iff.

Theorem C06_rule : forall c k now e,
  should_open c k now e = true <->
  k_thr c <= zlen (live (now - k_win c) (times_of (e ++ [(now, k)]))) \/
  exists th, k_cthr c k = Some th /\
             th <= zlen (live (now - k_win c) (times_of (of_class k (e ++ [(now, k)])))).
Proof. exact should_open_unfold. Qed.
Print Assumptions C06_rule.

(** "only at that moment": no other operation takes a CLOSED breaker out of CLOSED *)
Theorem C06_only_failure_opens : forall c s x,
  s_st s = CLOSED -> s_st (snd (sstep c s x)) <> CLOSED ->
  exists k, snd x = KFail k /\ trips c k = true /\ should_open c k (fst x) (s_epoch s) = true /\
            s_st (snd (sstep c s x)) = OPEN.
Proof. exact only_failure_opens. Qed.
Print Assumptions C06_only_failure_opens.

(** failures of classes outside trip_on (and without a class threshold) change nothing *)
Theorem C06_ignored_class : forall c k now s,
  trips c k = false -> s_st s = CLOSED -> sfailure c k now s = (KEvent None, s).
Proof. exact ignored_class. Qed.
Print Assumptions C06_ignored_class.

(** failures whose age has reached window_s never contribute (age == window is excluded) *)
Theorem C06_ignored_old : forall c k now e,
  0 < k_win c -> should_open c k now e = should_open c k now (young (now - k_win c) e).
Proof. exact ignored_old. Qed.
Print Assumptions C06_ignored_old.

(** failures recorded before the last open/close transition never contribute: every change of state
    leaves an empty epoch (OPEN -> HALF_OPEN carries the epoch over, which is empty by [C06_epoch_inv]) *)
Theorem C06_epoch_reset : forall c s x,
  s_st (snd (sstep c s x)) <> s_st s -> s_epoch (snd (sstep c s x)) = [] \/
  (s_st s = OPEN /\ s_st (snd (sstep c s x)) = HALF_OPEN /\ s_epoch (snd (sstep c s x)) = s_epoch s).
Proof. exact epoch_reset. Qed.
Print Assumptions C06_epoch_reset.

Theorem C06_epoch_inv : forall c s x, epoch_inv s -> epoch_inv (snd (sstep c s x)).
Proof. exact epoch_inv_step. Qed.
Print Assumptions C06_epoch_inv.

(** ... and therefore in every reachable state: after any history whatever, a breaker that is not
    CLOSED holds no counted failure (nothing recorded before the last transition can contribute) *)
Theorem C06_epoch_inv_reachable : forall c h, epoch_inv (snd (srun c sinit h)).
Proof. exact epoch_inv_reachable. Qed.
Print Assumptions C06_epoch_inv_reachable.
(** successes (and cancels, and admissions) while closed change nothing *)
Theorem C06_closed_noops : forall c now s,
  s_st s = CLOSED ->
  ssuccess s = (KEvent None, s) /\ scancel s = (KUnit, s) /\ sallow c now s = (KDecision true CLOSED None, s).
Proof. exact closed_noops. Qed.
Print Assumptions C06_closed_noops.

(** Non-vacuity: threshold 4, window 10, class threshold 2 for RATE_LIMIT; ages exactly at the
    window boundary do not count. *)
Example C06_nonvacuous :
  let c := mk_kcfg 4 10 5 [TRANSIENT] [(RATE_LIMIT, 2)] in
  let h := [(0, KFail TRANSIENT); (1, KFail AUTH); (2, KFail TRANSIENT); (10, KFail TRANSIENT);
            (11, KFail RATE_LIMIT); (21, KFail RATE_LIMIT); (22, KFail RATE_LIMIT); (22, KState)] in
  kmono 0 h /\
  fst (krun c kinit h) = [KEvent None; KEvent None; KEvent None; KEvent None; KEvent None; KEvent None;
                          KEvent (Some N_CIRCUIT_OPENED); KStateIs OPEN].
Proof. split; [simpl; repeat split; lia|vm_compute; reflexivity]. Qed.
