(** C07 — Open breaker fails fast; recovery admits exactly one probe.
    Only statements; each closed by [exact <lemma>] and followed by Print Assumptions.
    Breaker-level statements are about the specification machine of Breaker.v, which
    [C06_refinement] shows answers exactly like the circuit.py model on every monotone history. *)
From Redress Require Import Base Window Breaker BreakerProofs Budget Runner Corr Policy PolicyCorr PolicyProofs PolicyInterleave.

(** While OPEN and before recovery_timeout_s has elapsed, allow() rejects and changes nothing. *)
Theorem C07_open_rejects : forall c now s t0,
  s_st s = OPEN -> s_opened_at s = Some t0 -> now - t0 < k_rto c ->
  sallow c now s = (KDecision false OPEN (Some N_CIRCUIT_REJECTED), s).
Proof. exact open_rejects. Qed.
Print Assumptions C07_open_rejects.

(** From the moment it opens until the timeout has elapsed: whatever operations are applied (allow,
    record_success, record_failure of any class, record_cancel, state), every allow() is rejected and
    the breaker state — including its failure history — does not change; in particular rejections and
    late records are not counted as failures. *)
Theorem C07_open_window : forall c t0 h s,
  s_st s = OPEN -> s_opened_at s = Some t0 ->
  (forall x, In x h -> fst x - t0 < k_rto c) ->
  snd (srun c s h) = s /\
  forall i x, nth_error h i = Some x -> snd x = KAllow ->
              nth_error (fst (srun c s h)) i = Some (KDecision false OPEN (Some N_CIRCUIT_REJECTED)).
Proof. exact open_window. Qed.
Print Assumptions C07_open_window.

(** At (boundary included) or after the timeout the next allow() admits one probe: HALF_OPEN, probe in flight. *)
Theorem C07_probe_admitted_at_timeout : forall c now s t0,
  s_st s = OPEN -> s_opened_at s = Some t0 -> k_rto c <= now - t0 ->
  sallow c now s = (KDecision true HALF_OPEN (Some N_CIRCUIT_HALF_OPEN),
                    {| s_st := HALF_OPEN; s_opened_at := Some t0; s_probe := true; s_epoch := s_epoch s |}).
Proof. exact probe_admitted_at_timeout. Qed.
Print Assumptions C07_probe_admitted_at_timeout.

(** ... and all others are rejected until its result is recorded. *)
Theorem C07_single_probe : forall c h s,
  s_st s = HALF_OPEN -> s_probe s = true ->
  (forall x, In x h -> snd x = KAllow \/ snd x = KState) ->
  snd (srun c s h) = s /\
  forall i x, nth_error h i = Some x -> snd x = KAllow ->
              nth_error (fst (srun c s h)) i = Some (KDecision false HALF_OPEN (Some N_CIRCUIT_REJECTED)).
Proof. exact single_probe_window. Qed.
Print Assumptions C07_single_probe.

(** A successful probe closes the circuit with an empty failure history. *)
Theorem C07_probe_success_closes : forall s,
  s_st s = HALF_OPEN -> ssuccess s = (KEvent (Some N_CIRCUIT_CLOSED), sinit).
Proof. exact probe_success_closes. Qed.
Print Assumptions C07_probe_success_closes.

Theorem C07_after_close_single_failure : forall c k now,
  0 < k_win c ->
  (should_open c k now [] = true <-> k_thr c <= 1 \/ exists th, k_cthr c k = Some th /\ th <= 1).
Proof. exact after_close_single_failure. Qed.
Print Assumptions C07_after_close_single_failure.

(** A failed probe (failure of any class) re-opens with a fresh timeout: opened_at = now. *)
Theorem C07_probe_failure_reopens : forall c k now s,
  s_st s = HALF_OPEN -> sfailure c k now s = (KEvent (Some N_CIRCUIT_OPENED), sopened now).
Proof. exact probe_failure_reopens. Qed.
Print Assumptions C07_probe_failure_reopens.

(** A cancelled probe frees the slot, and a free slot admits exactly the next caller. *)
Theorem C07_probe_cancel_frees : forall s,
  s_st s = HALF_OPEN ->
  scancel s = (KUnit, {| s_st := HALF_OPEN; s_opened_at := s_opened_at s; s_probe := false; s_epoch := s_epoch s |}).
Proof. exact probe_cancel_frees. Qed.
Print Assumptions C07_probe_cancel_frees.

Theorem C07_half_open_free_admits : forall c now s,
  s_st s = HALF_OPEN -> s_probe s = false ->
  fst (sallow c now s) = KDecision true HALF_OPEN None /\ s_probe (snd (sallow c now s)) = true.
Proof. exact half_open_free_admits. Qed.
Print Assumptions C07_half_open_free_admits.

(** ---------------- policy level ---------------- *)
(** Through the policy, an open breaker rejects every call until recovery_timeout_s has elapsed, leaving
    its failure history and its opening instant unchanged ... *)
Theorem C07_policy_open_rejects : forall kc t ks oa,
  st ks = OPEN -> opened_at ks = Some oa -> t - oa < k_rto kc ->
  fst (allow kc t ks) = KDecision false OPEN (Some N_CIRCUIT_REJECTED) /\
  st (snd (allow kc t ks)) = OPEN /\ opened_at (snd (allow kc t ks)) = Some oa /\
  fails (snd (allow kc t ks)) = fails ks /\ probe (snd (allow kc t ks)) = probe ks.
Proof. exact policy_open_rejects. Qed.
Print Assumptions C07_policy_open_rejects.

(** ... and a rejected call (call(): CircuitOpenError; execute(): not-ok outcome with zero attempts)
    does not invoke the operation, is not recorded (not counted as a failure), takes no time and spends
    no budget. *)
Theorem C07_policy_rejected_call : forall kc x start b ks a s n,
  preflight_abort x = false -> fst (allow kc start ks) = KDecision a s n -> a = false ->
  let '(d, tr, tend, b', ks') := policy_call (Some kc) x start b ks in
  filter is_invocation tr = [] /\ filter is_record tr = [] /\
  d = (match pc_mode x with MCall => PDOpen s | MExec => PDOutcomeOpen s end) /\
  tend = start /\ b' = b /\ ks' = snd (allow kc start ks).
Proof. exact policy_rejected_call. Qed.
Print Assumptions C07_policy_rejected_call.

(** Interleavings of concurrently running calls.  A call touches the breaker at two points only, admission
    and settlement (C09), so every interleaving of concurrent (async) policy calls is a history of
    [HAdmit i t] / [HSettle i kind t] steps.  For every such history in which a settlement belongs to an
    admitted, not yet settled call and a call admitted while CLOSED does not settle while the circuit is
    HALF_OPEN ([irun] is defined exactly on those): at most one admitted half-open probe is outstanding
    at any time, and while it is outstanding every other caller is rejected. *)
Theorem C07_single_probe_interleaved : forall kc h ks o,
  irun kc h (kinit, []) = Some (ks, o) ->
  (probes o <= 1)%nat /\
  (probes o = 1%nat -> forall t, exists n, fst (allow kc t ks) = KDecision false HALF_OPEN n).
Proof. exact single_probe_interleaved. Qed.
Print Assumptions C07_single_probe_interleaved.

(** In every reachable state of the breaker specification (after any history of allow / record_* /
    state with any clock readings) the probe slot is taken only while HALF_OPEN, and a breaker that
    is not CLOSED remembers when it opened -- so the recovery timeout is always measured from a real
    opening instant and an OPEN or CLOSED breaker never carries a stale probe flag. *)
Theorem C07_shape_reachable : forall c h,
  let s := snd (srun c sinit h) in
  (s_probe s = true -> s_st s = HALF_OPEN) /\ (s_st s <> CLOSED -> s_opened_at s <> None).
Proof. exact shape_inv_reachable. Qed.
Print Assumptions C07_shape_reachable.

(** Non-vacuity of the interleaving theorem: A and B admitted while CLOSED, A fails and opens the circuit,
    B ends (harmlessly, the circuit is OPEN), P is admitted as the probe after the timeout, Q is rejected,
    P succeeds. *)
Example C07_interleaving_nonvacuous :
  let kc := mk_kcfg 1 100 5 [TRANSIENT] [] in
  exists ks o, irun kc [HAdmit 0 0; HAdmit 1 0; HSettle 0 (SFail TRANSIENT) 1; HSettle 1 SSucc 2;
                        HAdmit 2 6; HAdmit 3 6; HSettle 2 SSucc 7] (kinit, []) = Some (ks, o) /\ st ks = CLOSED /\ o = [].
Proof. eexists _, _. vm_compute. repeat split; reflexivity. Qed.

(** ---------------- the two known findings (kept, not repaired; DESIGN.md §7.5) ---------------- *)
(** "All others are rejected until its result is recorded" fails when a record is issued by a call that
    is not the probe.  (a) A policy call WITHOUT retry component whose abort_if answers True calls
    record_cancel before it asks for admission: with a probe outstanding, the slot is freed and the next
    caller becomes a second probe. *)
Theorem C07_unadmitted_cancel_refuted :
  exists kc ks x t,
    st ks = HALF_OPEN /\ probe ks = true /\ preflight_abort x = true /\
    let ks' := snd (policy_call (Some kc) x t [] ks) in
    filter is_breaker_op (snd (fst (fst (fst (policy_call (Some kc) x t [] ks))))) = [PCancel] /\
    fst (allow kc t ks') = KDecision true HALF_OPEN None.
Proof.
  exists (mk_kcfg 1 100 5 [TRANSIENT] []),
         (snd (krun (mk_kcfg 1 100 5 [TRANSIENT] []) kinit [(0, KFail TRANSIENT); (5, KAllow)])),
         (mk_pcall MExec false (mk_cfg 1 1000 None [] [] None [false; true] None) (mk_env [] [true] [] [] [] [] [] [] [] []) [] 0),
         5.
  vm_compute. repeat split; reflexivity.
Qed.
Print Assumptions C07_unadmitted_cancel_refuted.

(** (b) A call admitted while CLOSED that ends while the breaker is HALF_OPEN settles the probe's slot:
    its success closes the circuit although the probe has not reported. *)
Theorem C07_stale_settle_refuted :
  exists c h, fst (krun c kinit h) =
    [KDecision true CLOSED None;                          (* call A admitted while CLOSED *)
     KEvent (Some N_CIRCUIT_OPENED);                      (* another call fails: OPEN *)
     KDecision true HALF_OPEN (Some N_CIRCUIT_HALF_OPEN); (* after the timeout probe P is admitted *)
     KEvent (Some N_CIRCUIT_CLOSED);                      (* A ends with success: the circuit closes, P still outstanding *)
     KStateIs CLOSED].
Proof.
  exists (mk_kcfg 1 100 5 [TRANSIENT] []), [(0, KAllow); (0, KFail TRANSIENT); (5, KAllow); (5, KSucc); (5, KState)].
  vm_compute. reflexivity.
Qed.
Print Assumptions C07_stale_settle_refuted.

(** Non-vacuity: open at t=0 (threshold 1), rejected until 4, probe at 5 (== timeout), second caller
    rejected, probe fails at 6 -> fresh timeout: rejected at 10, probe at 11, success closes. *)
Example C07_nonvacuous :
  let c := mk_kcfg 1 10 5 [TRANSIENT] [] in
  let h := [(0, KFail TRANSIENT); (4, KAllow); (5, KAllow); (5, KAllow); (6, KFail AUTH); (10, KAllow);
            (11, KAllow); (12, KSucc); (12, KState)] in
  fst (srun c sinit h) =
    [KEvent (Some N_CIRCUIT_OPENED); KDecision false OPEN (Some N_CIRCUIT_REJECTED);
     KDecision true HALF_OPEN (Some N_CIRCUIT_HALF_OPEN); KDecision false HALF_OPEN (Some N_CIRCUIT_REJECTED);
     KEvent (Some N_CIRCUIT_OPENED); KDecision false OPEN (Some N_CIRCUIT_REJECTED);
     KDecision true HALF_OPEN (Some N_CIRCUIT_HALF_OPEN); KEvent (Some N_CIRCUIT_CLOSED); KStateIs CLOSED].
Proof. vm_compute. reflexivity. Qed.
