(** C08 — Every admitted call settles the breaker; no half-open probe slot is leaked.
    Only statements; each closed by [exact <lemma>] and followed by Print Assumptions.
    The wrapper model is the code as repaired by the fix: commit recorded in known-findings.txt
    (before it the property failed on the real code for many terminations; the check demonstrates
    that on the pinned tree, see DESIGN.md §7.2).  "However the call ends" is the universal
    quantification over the environment [pc_env x] / [pc_coe x] of the call: value, ordinary
    exception of any class, result exhaustion, abort, CancelledError / KeyboardInterrupt / SystemExit /
    GeneratorExit from the operation, before_sleep or the sleeper, nested RetryExhaustedError, nested
    CircuitOpenError.  Raising attempt hooks / classifiers are outside the runner model; they are
    exercised by the fault-injection part of the correspondence run only. *)
From Redress Require Import Base Window Budget Breaker Runner Corr Policy PolicyCorr PolicyProofs.

(** Every admitted call tells the breaker exactly once that it is over (C09_exactly_one restated for
    the admitted case): the breaker's state after the call is the state after that record. *)
Theorem C08_settles : forall kc x start b ks,
  preflight_abort x = false ->
  let '(d, tr, tend, b', ks') := policy_call (Some kc) x start b ks in
  exists a s n, fst (allow kc start ks) = KDecision a s n /\
    if a then
      breaker_ops tr = [PAllow true s n; record_of kc (inner_end x start b) (inner_settle x start b) (snd (allow kc start ks))] /\
      ks' = fst (do_settle kc (pc_cfg x) (inner_end x start b) (inner_settle x start b) (snd (allow kc start ks))) /\
      exists d0, d = PD d0
    else
      breaker_ops tr = [PAllow false s n] /\ ks' = snd (allow kc start ks) /\
      d = (match pc_mode x with MCall => PDOpen s | MExec => PDOutcomeOpen s end) /\ tend = start /\ b' = b.
Proof. exact one_record_per_call. Qed.
Print Assumptions C08_settles.

(** Any record releases the probe slot. *)
Theorem C08_settle_releases : forall kc c t x ks,
  probe_ok ks -> st ks <> OPEN -> probe (fst (do_settle kc c t x ks)) = false.
Proof. exact settle_releases. Qed.
Print Assumptions C08_settle_releases.

(** Hence a call that has ended never leaves a probe in flight ... *)
Theorem C08_call_keeps_quiescent : forall kco x start b ks,
  quiescent ks -> quiescent (snd (policy_call kco x start b ks)).
Proof. exact call_keeps_quiescent. Qed.
Print Assumptions C08_call_keeps_quiescent.

(** ... after any sequence of calls (each of which has ended) on policies sharing the breaker ... *)
Theorem C08_no_phantom_probe : forall kco calls start b ks,
  quiescent ks -> quiescent (snd (final_breaker kco calls start b ks)).
Proof. exact no_phantom_probe. Qed.
Print Assumptions C08_no_phantom_probe.

(** ... and once recovery_timeout_s has elapsed with no call outstanding, the next call is admitted. *)
Theorem C08_no_wedge : forall kc t ks,
  quiescent ks ->
  (st ks = OPEN -> exists oa, opened_at ks = Some oa /\ k_rto kc <= t - oa) ->
  exists s n, fst (allow kc t ks) = KDecision true s n.
Proof. exact no_wedge. Qed.
Print Assumptions C08_no_wedge.

(** Non-vacuity: a half-open probe whose operation raises GeneratorExit, then a call that is admitted
    as the next probe. *)
Example C08_nonvacuous :
  let kc := mk_kcfg 1 100 10 [TRANSIENT] [] in
  let c := mk_cfg 1 1000 None [] [] (Some false) [] None in
  let fail := mk_pcall MExec true c (mk_env [(ORaise {| cl_k := TRANSIENT; cl_ra := None |}, 1)] [] [] [] [] [] [] [] [] []) [] 0 in
  let genexit := mk_pcall MExec true c (mk_env [(OCancel KGenExit, 1)] [] [] [] [] [] [] [] [] []) [] 10 in
  let ok := mk_pcall MExec true c (mk_env [(OValue None, 1)] [] [] [] [] [] [] [] [] []) [] 0 in
  map (fun r => breaker_ops (snd r)) (policy_seq (Some kc) [fail; genexit; ok] 0 [] kinit) =
  [[PAllow true CLOSED None; PFail TRANSIENT (Some N_CIRCUIT_OPENED)];
   [PAllow true HALF_OPEN (Some N_CIRCUIT_HALF_OPEN); PCancel];
   [PAllow true HALF_OPEN None; PSucc (Some N_CIRCUIT_CLOSED)]].
Proof. vm_compute. reflexivity. Qed.
