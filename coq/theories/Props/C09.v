(** C09 — One breaker record per policy call, by final outcome, not per attempt.
    Only statements; each closed by [exact <lemma>] and followed by Print Assumptions.
    [policy_call (Some kc) x start b ks] is one Policy.call / Policy.execute (sync or async, with or
    without a retry component) against a breaker in state ks; [breaker_ops tr] are the calls the
    breaker receives (allow / record_success / record_failure(class) / record_cancel), in order.
    Excluded by hypothesis: the pre-flight abort of a policy without retry component, which happens
    BEFORE admission (the call is never admitted; see the known finding under C07). *)
From Redress Require Import Base Window Budget Breaker Runner Corr Policy PolicyCorr PolicyProofs.

(** A rejected call only asks for admission; an admitted call asks for admission and then reports
    exactly once, however it ends. *)
Theorem C09_exactly_one : forall kc x start b ks,
  preflight_abort x = false ->
  let '(d, tr, tend, b', ks') := policy_call (Some kc) x start b ks in
  exists a s n, fst (allow kc start ks) = KDecision a s n /\
    if a then
      breaker_ops tr = [PAllow true s n; record_of kc (inner_end x start b) (inner_settle x start b) (snd (allow kc start ks))] /\
      ks' = fst (do_settle kc (pc_cfg x) (inner_end x start b) (inner_settle x start b) (snd (allow kc start ks))) /\
      exists d0, d = PD d0
    else
      breaker_ops tr = [PAllow false s n] /\ ks' = snd (allow kc start ks) /\
      d = (match pc_mode x with MCall => PDOpen s | MExec => PDOutcomeOpen s end) /\ tend = start /\ b' = b.
Proof. exact one_record_per_call. Qed.
Print Assumptions C09_exactly_one.

(** The kind of that record is decided by the final outcome: success iff a value is delivered
    (even after retries); failure with the class of the final failure if retries stopped (UNKNOWN
    when no class is recorded; the class carried by a nested RetryExhaustedError); cancel if aborted
    or cancelled.  A nested CircuitOpenError surfacing from call() is not counted as a failure (it is
    settled as cancel) — execute() counts it, see the known finding under C12. *)
Theorem C09_kind : forall e coe d,
  snd (settle_of e coe d) =
  match d with
  | DReturn _ => SSucc
  | DOutcome o => if o_ok o then SSucc
                  else match o_stop o with Some S_ABORT => SCancel | _ => SFail (or_unknown (o_class o)) end
  | DRaiseOp a => if coe (Z.to_nat (a - 1)) then SCancel else SFail (op_class e a)
  | DExhausted _ _ lc _ _ _ => SFail (or_unknown lc)
  | DNested _ => SFail nested_class
  | DRuntimeError => SFail UNKNOWN
  | DAbort | DCancel _ _ | DCancelSleep _ _ => SCancel
  end.
Proof. exact record_kind. Qed.
Print Assumptions C09_kind.

(** Failed attempts inside a call that goes on to retry are not reported. *)
Theorem C09_not_per_attempt : forall l, breaker_ops (map PE l) = [].
Proof. exact loop_events_not_reported. Qed.
Print Assumptions C09_not_per_attempt.

(** Non-vacuity: threshold 2; a call that fails three attempts counts once; the second call opens. *)
Example C09_nonvacuous :
  let kc := mk_kcfg 2 100 10 [TRANSIENT] [] in
  let c := mk_cfg 3 1000 None [] [] (Some false) [] None in
  let e := mk_env [(ORaise {| cl_k := TRANSIENT; cl_ra := None |}, 1);
                   (ORaise {| cl_k := TRANSIENT; cl_ra := None |}, 1);
                   (ORaise {| cl_k := TRANSIENT; cl_ra := None |}, 1)] [] [SFin 1; SFin 1; SFin 1] [] [] [] [] [] [] [] in
  let x := mk_pcall MCall true c e [] 0 in
  map (fun r => breaker_ops (snd r)) (policy_seq (Some kc) [x; x] 0 [] kinit) =
  [[PAllow true CLOSED None; PFail TRANSIENT None];
   [PAllow true CLOSED None; PFail TRANSIENT (Some N_CIRCUIT_OPENED)]].
Proof. vm_compute. reflexivity. Qed.
