(** C10 — Shared retry budget: at most max_retries retries per rolling window.
    Only statements; each closed by [exact <lemma>] and followed by Print Assumptions. *)
From Redress Require Import Base Window Budget BudgetProofs.

(** Budget.consume/remaining on its pruned deque answers exactly as the specification over the
    full grant history, for every history with non-decreasing clock readings. *)
Theorem C10_refinement : forall c t0 h,
  0 < bwin c -> mono t0 h -> fst (brun c [] h) = fst (arun c [] h).
Proof. exact budget_refinement. Qed.
Print Assumptions C10_refinement.

(** In any half-open interval [a, a + window) the grant history holds at most max_retries grants. *)
Theorem C10_window_bound : forall c t0 h a,
  0 < bwin c -> 0 <= bmax c -> mono t0 h ->
  win_count a (bwin c) (snd (arun c [] h)) <= bmax c.
Proof. exact budget_window_bound. Qed.
Print Assumptions C10_window_bound.

(** A retry is refused only when the window really is full (and granted whenever it is not). *)
Theorem C10_refuse_only_when_full : forall c now cost g,
  1 <= cost ->
  (fst (aconsume c now cost g) = RRefuse <-> bmax c < zlen (live (now - bwin c) g) + cost) /\
  (fst (aconsume c now cost g) = RGrant <-> zlen (live (now - bwin c) g) + cost <= bmax c).
Proof. exact budget_refuse_iff. Qed.
Print Assumptions C10_refuse_only_when_full.

(** Capacity returns exactly when old grants age out: remaining() counts the grants whose age is
    strictly below the window; a grant of age exactly [window] no longer counts. *)
Theorem C10_remaining : forall c now g,
  fst (aremaining c now g) = RRem (Z.max (bmax c - zlen (live (now - bwin c) g)) 0).
Proof. exact budget_remaining. Qed.
Print Assumptions C10_remaining.

Theorem C10_boundary : forall c now t, In t (live (now - bwin c) [t]) <-> now - t < bwin c.
Proof. exact live_boundary. Qed.
Print Assumptions C10_boundary.

(** Non-vacuity: a concrete history meets the hypotheses, refuses when full, and grants again at
    age == window. *)
Example C10_nonvacuous :
  let c := {| bmax := 2; bwin := 10 |} in
  let h := [(0, BConsume 1); (3, BConsume 1); (9, BConsume 1); (10, BRemaining); (10, BConsume 1); (12, BConsume 2)] in
  mono 0 h /\ fst (brun c [] h) = [RGrant; RGrant; RRefuse; RRem 1; RGrant; RRefuse].
Proof. vm_compute. repeat split; discriminate. Qed.
