(** C11 — execute() returns a faithful RetryOutcome and does not raise for failures.
    Only statements; each closed by [exact <lemma>] and followed by Print Assumptions.
    See Props/C04.v for [final_pass]; the facts about the final pass (C04_final_pass_facts) hold for
    both delivery modes and are restated here for execute().
    Reading of "the final failure": a failure is an attempt outcome the loop has processed
    (classified and counted); when abort_if answers True at the poll that sits between an attempt's
    outcome and its classification, the outcome describes the previous processed failure, or none
    (DESIGN.md §4 C11).  Callback errors (strategy, classifier, sleeper raising ordinary exceptions)
    are outside the model; the property permits them to propagate.  The no-retry builders of
    policy/execution.py are covered by the policy-level correspondence (C09/C12 drivers). *)
From Redress Require Import Base Window Budget Runner Corr RunnerProofs RunnerSpec RunnerC01 RunnerC03 RunnerFull RunnerLoop
  RunnerVerdict RunnerC02 RunnerC13 RunnerC14 RunnerDeliver.

Theorem C11_final_pass_exists : forall c e start b,
  1 <= max_attempts c -> exists r fn, final_pass MExec c e start b r fn.
Proof. intros c e start b. exact (run_has_final_pass MExec c e start b). Qed.
Print Assumptions C11_final_pass_exists.

Theorem C11_final_pass_facts : forall c e start b r fn,
  final_pass MExec c e start b r fn ->
  let i := ir_i r in let s := ir_pre r in let s2 := ir_post r in
  last_stop s = None /\
  match fn with
  | FSuccess a => a = Z.of_nat i + 1 /\ fail_of c (fst (op e i)) = None /\ (exists rc, fst (op e i) = OValue rc) /\
                  iter_verdict c e i s = ISuccess
  | FStop a cs nx =>
      a = Z.of_nat i + 1 /\
      exists cl r0, fail_of c (fst (op e i)) = Some (cl, cs) /\ last_fail s2 = Some (cl, cs, a) /\ last_stop s2 = Some r0 /\
                    (forall d, nx = Some d <-> exists bvd, iter_verdict c e i s = IBackoff cl cs d bvd /\ bvd = BDefer) /\
                    (nx <> None -> r0 = S_SCHED) /\ (nx = None -> r0 <> S_SCHED /\ r0 <> S_ABORT)
  | FAbort a => last_stop s2 = Some S_ABORT /\ (a = Z.of_nat i + 1 \/ a = Z.of_nat i) /\
                (a = Z.of_nat i <-> iter_verdict c e i s = IAbortTop)
  | FCancel k a => a = Z.of_nat i + 1 /\ fst (op e i) = OCancel k
  | FCancelSleep k a => a = Z.of_nat i + 1
  | FNested a => a = Z.of_nat i + 1 /\ fst (op e i) = ONested
  end.
Proof. intros c e start b. exact (final_pass_facts MExec c e start b). Qed.
Print Assumptions C11_final_pass_facts.

(** ok is true exactly when the final attempt succeeded; value is then that attempt's result and
    every failure field is None. *)
Theorem C11_success_outcome : forall c s a,
  deliver MExec c s (FSuccess a) =
  DOutcome {| o_ok := true; o_value := Some a; o_stop := None; o_attempts := a; o_class := None; o_exc := None;
              o_res := None; o_cause := None; o_elapsed := elapsed s; o_next := None;
              o_tl := if capture_tl c then Some (tl s) else None |}.
Proof. exact deliver_exec_success. Qed.
Print Assumptions C11_success_outcome.

(** Otherwise: stop_reason is the reason recorded when retries stopped (sound by C03), last_class,
    cause and exactly one of last_exception / last_result describe the final failure, next_sleep_s
    is set exactly for deferred runs (nx, C11_final_pass_facts). *)
Theorem C11_failure_outcome : forall c s a cs nx cl r,
  last_fail s = Some (cl, cs, a) -> last_stop s = Some r ->
  deliver MExec c s (FStop a cs nx) =
  DOutcome {| o_ok := false; o_value := None; o_stop := Some r; o_attempts := a; o_class := Some (cl_k cl);
              o_exc := (match cs with CExc => Some a | CRes => None end);
              o_res := (match cs with CRes => Some a | CExc => None end);
              o_cause := Some cs; o_elapsed := elapsed s; o_next := nx;
              o_tl := if capture_tl c then Some (tl s) else None |}.
Proof. exact deliver_exec_stop. Qed.
Print Assumptions C11_failure_outcome.

(** Aborted: ABORTED, the failure recorded last if any (none if aborted before any failure). *)
Theorem C11_abort_outcome : forall c s n,
  last_stop s = Some S_ABORT ->
  deliver MExec c s (FAbort n) =
  DOutcome {| o_ok := false; o_value := None; o_stop := Some S_ABORT; o_attempts := n; o_class := last_class s;
              o_exc := last_exc s; o_res := last_res s; o_cause := last_cause s; o_elapsed := elapsed s; o_next := None;
              o_tl := if capture_tl c then Some (tl s) else None |}.
Proof. exact deliver_exec_abort. Qed.
Print Assumptions C11_abort_outcome.

(** attempts equals the number of times the operation was invoked. *)
Theorem C11_attempts_count : forall m c e start b r fn a,
  1 <= max_attempts c -> final_pass m c e start b r fn -> fin_attempts fn = Some a ->
  Z.of_nat (length (filter is_invoke (run_trace m c e start b))) = a.
Proof. exact attempts_count. Qed.
Print Assumptions C11_attempts_count.

(** Only cancellation-type exceptions and a nested RetryExhaustedError propagate out of execute(). *)
Theorem C11_propagates_only : forall c s fn,
  match deliver MExec c s fn with
  | DOutcome _ => match fn with FCancel _ _ | FCancelSleep _ _ | FNested _ => False | _ => True end
  | DCancel _ _ => exists k a, fn = FCancel k a
  | DCancelSleep _ _ => exists k a, fn = FCancelSleep k a
  | DNested _ => exists a, fn = FNested a
  | _ => False
  end.
Proof. exact execute_propagates_only. Qed.
Print Assumptions C11_propagates_only.

(** Non-vacuity: a deferred run. *)
Example C11_nonvacuous :
  let c := mk_cfg 5 1000 None [] [] (Some false) [false; false; true] None in
  let e := mk_env [(ORaise {| cl_k := TRANSIENT; cl_ra := None |}, 1);
                   (ORaise {| cl_k := SERVER_ERROR; cl_ra := None |}, 1)] [] [SFin 2; SFin 7] [HSleep; HDefer] [] [] [] [] [] [] in
  run_delivery MExec c e 0 [] =
  DOutcome {| o_ok := false; o_value := None; o_stop := Some S_SCHED; o_attempts := 2; o_class := Some SERVER_ERROR;
              o_exc := Some 2; o_res := None; o_cause := Some CExc; o_elapsed := 4; o_next := Some 7; o_tl := None |}.
Proof. vm_compute. reflexivity. Qed.
