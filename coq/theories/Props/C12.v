(** C12 — All entry points agree: sync/async, call/execute, Policy/Retry/sugar.
    Only statements; each closed by [exact <lemma>] and followed by Print Assumptions.
    Proved here (separate definitions in the model): call() vs execute() of the retry loop, call() vs
    execute() through the policy wrapper, Policy without a breaker vs its retry component.
    The sync/async twins and the sugar (RetryPolicy, context managers, the @retry decorator) have no
    model of their own: each of the 20 entry points must correspond to this one model, which is what
    the correspondence run checks (plus a pairwise comparison of the implementation's own traces).
    Hypotheses of the policy-level theorems: the final exception is not a nested CircuitOpenError, and
    (model-wide) decision callbacks do not raise — the complements are the two known findings, see
    C12_nested_coe_refuted and known-findings.txt. *)
From Redress Require Import Base Window Budget Breaker Runner Corr RunnerProofs RunnerSpec RunnerC01 RunnerC03 RunnerFull
  RunnerLoop RunnerVerdict RunnerC02 RunnerC13 RunnerC14 RunnerDeliver RunnerC12 Policy PolicyCorr PolicyProofs PolicyC12.

(** call() and execute() perform the same operation invocations, polls, classifier and strategy calls,
    budget calls, hook calls and sleeps, in the same order with the same arguments; they leave the same
    state (clock, counters, shared budget) up to the captured timeline; and what call() delivers is
    execute()'s outcome seen as return / raise. *)
Theorem C12_call_execute : forall c e start b,
  run_trace MCall c e start b = run_trace MExec c e start b /\
  drop (run_final MCall c e start b) = drop (run_final MExec c e start b) /\
  run_delivery MCall c e start b = call_view (run_delivery MExec c e start b).
Proof. exact call_execute_agree. Qed.
Print Assumptions C12_call_execute.

(** One pass of the loop, call vs execute. *)
Theorem C12_iter : forall c e i s,
  iter MCall c e i (drop s) = (let '(r, s', tr) := iter MExec c e i s in (map_res r, drop s', tr)).
Proof. exact iter_drop. Qed.
Print Assumptions C12_iter.

(** The record issued to the breaker is the same. *)
Theorem C12_settle_call_execute : forall c e start b coe,
  (forall i, coe i = false) -> 1 <= max_attempts c ->
  snd (settle_of e coe (run_delivery MCall c e start b)) = snd (settle_of e coe (run_delivery MExec c e start b)).
Proof. exact settle_call_execute. Qed.
Print Assumptions C12_settle_call_execute.

(** Through the policy wrapper: same breaker operations, same duration, same budget, same breaker state. *)
Theorem C12_policy_call_execute : forall kco x start b ks,
  pc_retry x = true -> (forall i, pc_coe x i = false) -> 1 <= max_attempts (pc_cfg x) ->
  let '(dc, trc, tc, bc, kc') := policy_call kco (with_mode x MCall) start b ks in
  let '(de, tre, te, be, ke') := policy_call kco (with_mode x MExec) start b ks in
  breaker_ops trc = breaker_ops tre /\ tc = te /\ bc = be /\ kc' = ke'.
Proof. exact policy_call_execute_agree. Qed.
Print Assumptions C12_policy_call_execute.

(** Policy without a breaker = its retry component. *)
Theorem C12_policy_without_breaker : forall x start b ks,
  pc_retry x = true ->
  let '(d, tr, t, b', ks') := policy_call None x start b ks in
  d = PD (run_delivery (pc_mode x) (pc_cfg x) (pc_env x) start b) /\
  tr = map PE (run_trace (pc_mode x) (pc_cfg x) (pc_env x) start b ++
               fst (settle_of (pc_env x) (pc_coe x) (run_delivery (pc_mode x) (pc_cfg x) (pc_env x) start b))) /\
  ks' = ks.
Proof. exact policy_without_breaker. Qed.
Print Assumptions C12_policy_without_breaker.

(** Known finding (kept): when the operation raises CircuitOpenError (a nested breaker), call() settles
    the call as cancelled (not counted) while execute() records a failure of the classified class. *)
Theorem C12_nested_coe_refuted :
  exists kc x, pc_retry x = true /\ pc_coe x 0%nat = true /\
    breaker_ops (snd (fst (fst (fst (policy_call (Some kc) (with_mode x MCall) 0 [] kinit))))) <>
    breaker_ops (snd (fst (fst (fst (policy_call (Some kc) (with_mode x MExec) 0 [] kinit))))).
Proof.
  exists (mk_kcfg 1 100 5 [TRANSIENT] []),
         (mk_pcall MCall true (mk_cfg 1 1000 None [] [] (Some false) [] None)
                   (mk_env [(ORaise {| cl_k := TRANSIENT; cl_ra := None |}, 1)] [] [] [] [] [] [] [] [] []) [true] 0).
  split; [reflexivity|]. split; [reflexivity|]. vm_compute. discriminate.
Qed.
Print Assumptions C12_nested_coe_refuted.

(** Non-vacuity: a run with a retry, a result failure and a per-class stop, seen by call and execute. *)
Example C12_nonvacuous :
  let c := mk_cfg 5 1000 None [(RATE_LIMIT, 0)] [] (Some false) [true; false; false; false; false; false; false; false; true] None in
  let e := mk_env [(ORaise {| cl_k := TRANSIENT; cl_ra := None |}, 1);
                   (OValue (Some {| cl_k := RATE_LIMIT; cl_ra := None |}), 1)] [] [SFin 2; SFin 2] [] [] [] [] [] [] [] in
  length (run_trace MCall c e 0 []) = 8%nat /\
  run_delivery MCall c e 0 [] = DExhausted S_PERCLASS 2 (Some RATE_LIMIT) None (Some 2) None /\
  call_view (run_delivery MExec c e 0 []) = run_delivery MCall c e 0 [].
Proof. vm_compute. repeat split; reflexivity. Qed.
