(** C13 — Abort and cancellation stop work immediately and are never retried.
    Only statements; each closed by [exact <lemma>] and followed by Print Assumptions.
    [iter m c e i s] is one pass of the retry loop for attempt i+1 from loop-top state s;
    [pa c e s j] is the answer of the j-th abort_if poll of that pass (0: loop top, 1: after the
    failure, 2: after the retry decision); false when no abort_if is configured. *)
From Redress Require Import Base Window Budget Runner Corr RunnerProofs RunnerSpec RunnerC01 RunnerC03 RunnerFull RunnerLoop
  RunnerVerdict RunnerC02 RunnerC13.

(** abort_if is consulted immediately before every attempt ... *)
Theorem C13_poll_before_attempt : forall m c e i s res s2 tr a t,
  iter m c e i s = (res, s2, tr) -> has_abort c = true -> In (EInvoke a t) tr ->
  exists l2, tr = EPoll false :: EInvoke a t :: l2.
Proof. exact poll_before_attempt. Qed.
Print Assumptions C13_poll_before_attempt.

(** ... and before every backoff sleep, after the retry decision: between that poll and the sleeper
    call there is no invocation, classification, strategy call, budget call or further poll. *)
Theorem C13_poll_before_sleep : forall m c e i s res s2 tr w d t,
  iter m c e i s = (res, s2, tr) -> has_abort c = true -> In (ESleep w d t) tr ->
  exists l1 l2, tr = l1 ++ EPoll false :: l2 /\ In (ESleep w d t) l2 /\ filter is_decision l2 = [].
Proof. exact poll_before_sleep. Qed.
Print Assumptions C13_poll_before_sleep.

(** Which passes see abort_if return True. *)
Theorem C13_abort_verdict_iff : forall c e i s,
  abort_verdict (iter_verdict c e i s) = true <->
  pa c e s 0 = true \/
  (exists cl cs, fail_of c (fst (op e i)) = Some (cl, cs) /\
     (pa c e s 1 = true \/
      exists d, hf_verdict c e i (Z.of_nat i + 1) (cl_k cl) (at_fail e i s) = inr d /\ pa c e s 2 = true)).
Proof. exact abort_verdict_iff. Qed.
Print Assumptions C13_abort_verdict_iff.

(** Once abort_if returns True the run ends as aborted, and nothing but the `aborted` report follows
    that poll: no invocation, no sleep, no budget call, no strategy call. *)
Theorem C13_abort_request_ends : forall m c e i s res s2 tr,
  iter m c e i s = (res, s2, tr) -> abort_verdict (iter_verdict c e i s) = true ->
  (exists n, res = inr (FAbort n)) /\ last_stop s2 = Some S_ABORT /\
  exists l a, tr = l ++ EPoll true :: aborted_evs c a.
Proof. exact abort_request_ends. Qed.
Print Assumptions C13_abort_request_ends.

(** The operation raising AbortRetryError ends the run as aborted at once. *)
Theorem C13_abort_error_ends : forall m c e i s res s2 tr,
  iter m c e i s = (res, s2, tr) -> pa c e s 0 = false -> fst (op e i) = OAbort ->
  res = inr (FAbort (Z.of_nat i + 1)) /\ last_stop s2 = Some S_ABORT /\
  tr = poll_event c false ++ [EInvoke (Z.of_nat i + 1) (now s)] ++ aborted_once_evs c s (Z.of_nat i + 1).
Proof. exact abort_error_ends. Qed.
Print Assumptions C13_abort_error_ends.

(** An abort is delivered as AbortRetryError by call() and as an ABORTED outcome by execute(). *)
Theorem C13_abort_delivery : forall m c s n,
  last_stop s = Some S_ABORT ->
  match deliver m c s (FAbort n) with
  | DAbort => m = MCall
  | DOutcome o => m = MExec /\ o_ok o = false /\ o_stop o = Some S_ABORT /\ o_attempts o = n /\ o_next o = None
  | _ => False
  end.
Proof. exact abort_delivery. Qed.
Print Assumptions C13_abort_delivery.

(** A pass that ended the run is the last pass of the loop. *)
Theorem C13_ended_is_last : forall m c e start b r,
  In r (run_iters m c e start b) -> continued r = false ->
  forall r', In r' (run_iters m c e start b) -> (ir_i r' <= ir_i r)%nat.
Proof. exact ended_is_last. Qed.
Print Assumptions C13_ended_is_last.

(** CancelledError / KeyboardInterrupt / SystemExit / GeneratorExit raised by the operation
    propagate at once and unchanged: nothing follows the invocation. *)
Theorem C13_cancel_propagates : forall m c e i s res s2 tr k,
  iter m c e i s = (res, s2, tr) -> pa c e s 0 = false -> fst (op e i) = OCancel k ->
  res = inr (FCancel k (Z.of_nat i + 1)) /\
  tr = poll_event c false ++ [EInvoke (Z.of_nat i + 1) (now s)] /\
  (forall m' s', deliver m' c s' (FCancel k (Z.of_nat i + 1)) = DCancel k (Z.of_nat i + 1)).
Proof. exact cancel_propagates. Qed.
Print Assumptions C13_cancel_propagates.

(** ... and so do those raised during the backoff: the trace ends with that callback's invocation. *)
Theorem C13_sleep_cancel_propagates : forall m c e i s res s2 tr cl cs d kk,
  iter m c e i s = (res, s2, tr) -> iter_verdict c e i s = IBackoff cl cs d (BCancel kk) ->
  res = inr (FCancelSleep kk (Z.of_nat i + 1)) /\
  (exists l x, tr = l ++ [x] /\
     match x with ESleep _ d' _ => d' = d | EBeforeSleep _ _ d' => d' = d | _ => False end) /\
  (forall m' s', deliver m' c s' (FCancelSleep kk (Z.of_nat i + 1)) = DCancelSleep kk (Z.of_nat i + 1)).
Proof. exact sleep_cancel_propagates. Qed.
Print Assumptions C13_sleep_cancel_propagates.

(** Non-vacuity: abort_if turns True at the poll after the retry decision of attempt 2. *)
Example C13_nonvacuous :
  let c := mk_cfg 5 1000 None [] [] (Some false) [false; true; false; false; false; false; false; false; true] None in
  let e := mk_env [(ORaise {| cl_k := TRANSIENT; cl_ra := None |}, 1);
                   (ORaise {| cl_k := TRANSIENT; cl_ra := None |}, 1)]
                  [false; false; false; false; false; true] [SFin 2; SFin 2] [] [] [] [] [] [] [] in
  run_trace MCall c e 0 [] =
    [EPoll false; EInvoke 1 0; EPoll false; EClassify 1;
     EStrat SidDefault false 1 TRANSIENT None None (Some 999) (Some CExc);
     EMetric N_RETRY 1 2 (mk_tags c (Some TRANSIENT) true None (Some CExc));
     EPoll false; ESleep WDefault 2 1;
     EPoll false; EInvoke 2 3; EPoll false; EClassify 2;
     EStrat SidDefault false 2 TRANSIENT None (Some 2) (Some 996) (Some CExc);
     EMetric N_RETRY 2 2 (mk_tags c (Some TRANSIENT) true None (Some CExc));
     EPoll true; EMetric N_ABORTED 2 0 (mk_tags c None false (Some S_ABORT) None)] /\
  run_delivery MCall c e 0 [] = DAbort.
Proof. split; vm_compute; reflexivity. Qed.
