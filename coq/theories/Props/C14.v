(** C14 — Event stream explains every run: retry* then exactly one terminal event.
    Only statements; each closed by [exact <lemma>] and followed by Print Assumptions.
    A [report] is one emitted event (name, attempt, sleep_s, tags, retry_after_s) before it is fanned
    out to the sinks; [run_reports] is the sequence of reports of one call()/execute();
    [wf_stream a l] says: l is zero or more `retry` reports with attempts a, a+1, ... followed by
    exactly one report that is not `retry`.
    Proved for the metric hook, the log hook and the captured timeline (its elapsed_s stamps are
    compared by the correspondence run only); the breaker events of Policy (attempt 0, breaker state)
    are tied by the correspondence run and the oracle only. *)
From Redress Require Import Base Window Budget Runner Corr RunnerProofs RunnerSpec RunnerC01 RunnerC03 RunnerFull RunnerLoop
  RunnerVerdict RunnerC02 RunnerC13 RunnerC14 RunnerTimeline.

(** What the two hooks receive is exactly the run's report sequence ... *)
Theorem C14_metric_sink : forall m c e start b,
  filtermap metric_core (run_trace m c e start b) = if has_metric c then map (rep_core c) (run_reports m c e start b) else [].
Proof. exact metric_sink. Qed.
Print Assumptions C14_metric_sink.

Theorem C14_log_sink : forall m c e start b,
  filtermap log_core (run_trace m c e start b) = if has_log c then map (rep_core c) (run_reports m c e start b) else [].
Proof. exact log_sink. Qed.
Print Assumptions C14_log_sink.

(** ... hence the same sequence. *)
Theorem C14_sinks_equal : forall m c e start b,
  has_metric c = true -> has_log c = true ->
  filtermap metric_core (run_trace m c e start b) = filtermap log_core (run_trace m c e start b).
Proof. exact sinks_equal. Qed.
Print Assumptions C14_sinks_equal.

(** The captured timeline holds the same sequence (entry = attempt, event, sleep_s, class, stop_reason,
    cause), and it is what the RetryOutcome carries. *)
Theorem C14_timeline : forall c e start b,
  capture_tl c = true ->
  map tlc (tl (run_final MExec c e start b)) = map rep_tlc (run_reports MExec c e start b).
Proof. exact timeline_is_reports. Qed.
Print Assumptions C14_timeline.

Theorem C14_outcome_timeline : forall c s fn o,
  deliver MExec c s fn = DOutcome o -> o_tl o = if capture_tl c then Some (tl s) else None.
Proof. exact outcome_timeline. Qed.
Print Assumptions C14_outcome_timeline.

(** The observability events of a run are exactly the fan-out of its reports, in order. *)
Theorem C14_obs_events : forall m c e start b,
  filter is_obs (run_trace m c e start b) = flat_map (emit_rep c) (run_reports m c e start b).
Proof. exact run_obs. Qed.
Print Assumptions C14_obs_events.

(** Grammar: a run that ends normally (no cancellation-type exception, no nested RetryExhaustedError
    propagating) reports retry_1 ... retry_n (the i-th with attempt = i) and then exactly one
    terminal event. *)
Theorem C14_grammar : forall m c e start b,
  normal_run m c e start b -> wf_stream 1 (run_reports m c e start b) = true.
Proof. exact run_stream. Qed.
Print Assumptions C14_grammar.

(** The reports of each pass, by verdict (the `retry` report carries the delay applied, C05). *)
Theorem C14_reports_of_pass : forall m c e i s res s2 tr,
  iter m c e i s = (res, s2, tr) -> filter is_obs tr = flat_map (emit_rep c) (iter_reports c e i s).
Proof. exact iter_obs. Qed.
Print Assumptions C14_reports_of_pass.

(** The terminal report of the pass that ends the run: `success` on success; `aborted` carrying only
    the stop reason on abort; otherwise the report named after the stop reason left in the state
    (which is what the caller is given: C14_delivered_stop), with class, err (exception-caused only)
    and cause of the failure recorded last. *)
Theorem C14_terminal : forall m c e i s res s2 tr fn,
  iter m c e i s = (res, s2, tr) -> last_stop s = None -> res = inr fn ->
  abnormal (iter_verdict c e i s) = false ->
  exists rs t, iter_reports c e i s = rs ++ [t] /\
    match fn with
    | FSuccess a => t = rep_success a
    | FAbort a => t = rep_aborted a /\ last_stop s2 = Some S_ABORT
    | FStop a cs nx =>
        exists cl r, last_fail s2 = Some (cl, cs, a) /\ last_stop s2 = Some r /\
          t = match nx with Some d => rep_sched a d (cl_k cl) cs | None => rep_stop r a (cl_k cl) cs end /\
          (nx <> None -> r = S_SCHED)
    | _ => False
    end.
Proof. exact terminal_of_ended_pass. Qed.
Print Assumptions C14_terminal.

Theorem C14_delivered_stop : forall m c s fn,
  match fn with FStop _ _ _ | FAbort _ => True | _ => False end ->
  (forall a cs nx, fn = FStop a cs nx -> exists r, last_stop s = Some r) ->
  match deliver m c s fn with
  | DExhausted r _ _ _ _ _ => last_stop s = Some r
  | DAbort => fn = FAbort (match fn with FAbort n => n | _ => 0 end)
  | DOutcome o => o_stop o = last_stop s
  | DRaiseOp _ => True
  | _ => False
  end.
Proof. exact delivered_stop. Qed.
Print Assumptions C14_delivered_stop.

(** Every pass starts with no stop reason recorded (so C14_terminal applies to every pass of a run). *)
Theorem C14_top_no_stop : forall m c e start b r,
  In r (run_iters m c e start b) -> last_stop (ir_pre r) = None.
Proof. intros m c e start b r H. exact (top_stop _ _ _ _ (run_top m c e start b r H)). Qed.
Print Assumptions C14_top_no_stop.

(** Non-vacuity: two retries then per-class cap; both sinks; operation tag. *)
Example C14_nonvacuous :
  let c := mk_cfg 5 1000 None [(TRANSIENT, 2)] [] (Some false)
             [false; false; false; false; false; false; false; false; true; true; true] None in
  let e := mk_env [(ORaise {| cl_k := TRANSIENT; cl_ra := None |}, 1);
                   (ORaise {| cl_k := TRANSIENT; cl_ra := Some (HFin 4) |}, 1);
                   (ORaise {| cl_k := TRANSIENT; cl_ra := None |}, 1)] [] [SFin 2; SFin 3] [] [] [] [] [] [] [] in
  map r_name (run_reports MCall c e 0 []) = [N_RETRY; N_RETRY; N_MAX_ATTEMPTS_EXCEEDED] /\
  map r_att (run_reports MCall c e 0 []) = [1; 2; 3] /\
  map r_sleep (run_reports MCall c e 0 []) = [2; 3; 0] /\
  map r_stop (run_reports MCall c e 0 []) = [None; None; Some S_PERCLASS] /\
  wf_stream 1 (run_reports MCall c e 0 []) = true /\
  length (filtermap log_core (run_trace MCall c e 0 [])) = 3%nat.
Proof. vm_compute. repeat split; reflexivity. Qed.
