(** C15 — Observability hooks can never alter control flow.
    Only statements; each closed by [exact <lemma>] and followed by Print Assumptions.
    In the model every invocation of on_metric, on_log and before_sleep goes through [guarded]
    (try: hook(...) except Exception: pass); whether the n-th invocation of each hook raises is an
    input of the run ([metric_raises], [log_raises], [bs_raises]).  The theorems say that these inputs
    have no influence on anything: every hook call site of the loop is guarded.  That the CODE guards
    every site is what the correspondence run checks, by injecting faults at each invocation index.
    Breaker events emitted by Policy (policy_helpers._emit_breaker_event) are covered by the
    correspondence run with a breaker configured, not by these theorems. *)
From Redress Require Import Base Window Budget Runner Corr RunnerProofs RunnerSpec RunnerFull RunnerC15.

(** Two worlds that differ only in which hook invocations raise give the same run: the same trace
    (invocations, polls, strategy calls, budget calls, hook calls with the same arguments, sleeps),
    the same delivery, the same final state including the shared budget. *)
Theorem C15_noninterference : forall e e', same_world e e' ->
  forall m c start b, run m c e start b = run m c e' start b.
Proof. exact run_same. Qed.
Print Assumptions C15_noninterference.

(** In particular: the same as with silent hooks. *)
Theorem C15_same_as_silent : forall m c e start b, run m c e start b = run m c (silence e) start b.
Proof. exact hooks_cannot_interfere. Qed.
Print Assumptions C15_same_as_silent.

(** ... for whole sequences of calls sharing a budget. *)
Theorem C15_sequences : forall calls calls' start b,
  Forall2 (fun k k' => cs_mode k = cs_mode k' /\ cs_cfg k = cs_cfg k' /\ cs_gap k = cs_gap k' /\
                       same_world (cs_env k) (cs_env k')) calls calls' ->
  run_seq calls start b = run_seq calls' start b.
Proof. exact run_seq_same. Qed.
Print Assumptions C15_sequences.

(** A failing hook does not prevent the other hook or the timeline from receiving the same event:
    what one emission sends to on_metric, on_log and the timeline does not depend on the world. *)
Theorem C15_both_sinks_always : forall m c e s n att sl k err r cs ra,
  snd (emit m c e s n att sl k err r cs ra) = emit_evs c n att sl k err r cs ra /\
  tl (fst (emit m c e s n att sl k err r cs ra)) =
    if (match m with MExec => capture_tl c | MCall => false end) then tl s ++ [tl_entry s n att sl k r cs] else tl s.
Proof. exact both_sinks_always. Qed.
Print Assumptions C15_both_sinks_always.

(** Non-vacuity: a world whose hooks always raise, run against its silent twin. *)
Example C15_nonvacuous :
  let c := mk_cfg 3 1000 None [] [] (Some false)
             [false; false; false; false; true; false; false; false; true; true; false; true] None in
  let e := mk_env [(ORaise {| cl_k := TRANSIENT; cl_ra := None |}, 1); (OValue None, 1)] [] [SFin 2] [] [] []
                  [true; true; true] [true; true] [true] [] in
  same_world e (silence e) /\ metric_raises e 0%nat = true /\
  length (run_trace MExec c e 0 []) = 10%nat.
Proof. split; [apply same_world_silence|]. split; vm_compute; reflexivity. Qed.
