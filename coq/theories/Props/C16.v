(** C16 — Sleep-handler protocol: SLEEP sleeps, DEFER schedules, ABORT aborts.
    Only statements; each closed by [exact <lemma>] and followed by Print Assumptions.
    A pass with verdict [IBackoff cl cs d bv] is a granted retry with computed delay [d] that was not
    pre-empted by the abort poll which follows the grant (C13); [backoff_calls] lists, in order, the
    calls the pass makes to the sleep handler, before_sleep and the sleeper. *)
From Redress Require Import Base Window Budget Runner Corr RunnerProofs RunnerSpec RunnerC01 RunnerC03 RunnerFull RunnerLoop
  RunnerVerdict RunnerC02 RunnerC13 RunnerC16.

(** For each granted retry the handler is consulted exactly once (when configured) with the computed
    delay; passes that do not reach the backoff call none of the three callbacks. *)
Theorem C16_backoff_calls : forall m c e i s res s2 tr,
  iter m c e i s = (res, s2, tr) ->
  filter is_backoff_call tr =
  match iter_verdict c e i s with
  | IBackoff cl cs d _ => backoff_calls c e i s cl d
  | _ => []
  end.
Proof. exact backoff_calls_by_verdict. Qed.
Print Assumptions C16_backoff_calls.

Theorem C16_handler_consulted_once : forall c e i att k d,
  handler_event c e i att k d =
  match resolve (handler_p c) (handler_c c) with
  | Some w => [EHandler w att k d (handler e i)]
  | None => []
  end.
Proof. exact handler_event_once. Qed.
Print Assumptions C16_handler_consulted_once.

(** SLEEP (or no handler): before_sleep and then exactly one sleeper call with that delay; then the
    next attempt, unless the deadline passed during the sleep or the backoff was cancelled. *)
Theorem C16_sleep : forall m c e i s res s2 tr cl cs d bv,
  iter m c e i s = (res, s2, tr) -> iter_verdict c e i s = IBackoff cl cs d bv -> handler_dec c e i = HSleep ->
  filter is_backoff_call tr =
    handler_event c e i (Z.of_nat i + 1) (cl_k cl) d ++ bs_event c (Z.of_nat i + 1) d ++
    match bs_cancelled c e i with Some _ => [] | None => [ESleep (sleeper_who c) d (now (at_fail e i s))] end /\
  match bv with
  | BContinue => res = inl s2
  | BStop r => r = S_DEADLINE /\ res = inr (FStop (Z.of_nat i + 1) cs None)
  | BCancel kk => res = inr (FCancelSleep kk (Z.of_nat i + 1))
  | _ => False
  end.
Proof. exact sleep_decision. Qed.
Print Assumptions C16_sleep.

(** DEFER: no before_sleep, no sleep, no further attempt; SCHEDULED; the trace ends with the
    `scheduled` report carrying the delay. *)
Theorem C16_defer : forall m c e i s res s2 tr cl cs d bv,
  iter m c e i s = (res, s2, tr) -> iter_verdict c e i s = IBackoff cl cs d bv -> handler_dec c e i = HDefer ->
  bv = BDefer /\
  filter is_backoff_call tr = handler_event c e i (Z.of_nat i + 1) (cl_k cl) d /\
  res = inr (FStop (Z.of_nat i + 1) cs (Some d)) /\ last_stop s2 = Some S_SCHED /\
  last_fail s2 = Some (cl, cs, Z.of_nat i + 1) /\
  exists l, tr = l ++ sched_evs c (Z.of_nat i + 1) d (cl_k cl) cs.
Proof. exact defer_decision. Qed.
Print Assumptions C16_defer.

(** ... delivered with next_sleep_s equal to the delay. *)
Theorem C16_defer_delivery : forall m c s att cs d cl,
  last_stop s = Some S_SCHED -> last_fail s = Some (cl, cs, att) ->
  match deliver m c s (FStop att cs (Some d)) with
  | DExhausted r a lc _ _ nx => m = MCall /\ r = S_SCHED /\ a = att /\ lc = Some (cl_k cl) /\ nx = Some d
  | DOutcome o => m = MExec /\ o_ok o = false /\ o_stop o = Some S_SCHED /\ o_attempts o = att /\ o_next o = Some d
  | _ => False
  end.
Proof. exact defer_delivery. Qed.
Print Assumptions C16_defer_delivery.

(** ABORT: neither; the run ends as ABORTED. *)
Theorem C16_abort : forall m c e i s res s2 tr cl cs d bv,
  iter m c e i s = (res, s2, tr) -> iter_verdict c e i s = IBackoff cl cs d bv -> handler_dec c e i = HAbort ->
  bv = BHAbort /\
  filter is_backoff_call tr = handler_event c e i (Z.of_nat i + 1) (cl_k cl) d /\
  res = inr (FAbort (Z.of_nat i + 1)) /\ last_stop s2 = Some S_ABORT.
Proof. exact abort_decision. Qed.
Print Assumptions C16_abort.

(** Per-call handlers, hooks and sleepers override the policy-level ones ... *)
Theorem C16_override : forall c e i att k d,
  handler_event c e i att k d =
    (if handler_c c then [EHandler WCall att k d (handler e i)]
     else if handler_p c then [EHandler WPolicy att k d (handler e i)] else []) /\
  bs_event c att d =
    (if bs_c c then [EBeforeSleep WCall att d] else if bs_p c then [EBeforeSleep WPolicy att d] else []) /\
  sleeper_who c = (if sleeper_c c then WCall else if sleeper_p c then WPolicy else WDefault).
Proof. exact who_of_callbacks. Qed.
Print Assumptions C16_override.

(** ... and without a handler every granted retry sleeps. *)
Theorem C16_no_handler_sleeps : forall c e i,
  handler_p c = false -> handler_c c = false -> handler_dec c e i = HSleep.
Proof. exact no_handler_sleeps. Qed.
Print Assumptions C16_no_handler_sleeps.

(** Non-vacuity: policy-level and call-level handler, SLEEP then DEFER. *)
Example C16_nonvacuous :
  let c := mk_cfg 5 1000 None [] [] (Some false) [false; false; true; true; true; false; false; true] None in
  let e := mk_env [(ORaise {| cl_k := TRANSIENT; cl_ra := None |}, 1);
                   (ORaise {| cl_k := RATE_LIMIT; cl_ra := None |}, 1)]
                  [] [SFin 2; SFin 5] [HSleep; HDefer] [] [] [] [] [] [] in
  filter is_backoff_call (run_trace MExec c e 0 []) =
    [EHandler WCall 1 TRANSIENT 2 HSleep; EBeforeSleep WPolicy 1 2; ESleep WCall 2 1;
     EHandler WCall 2 RATE_LIMIT 5 HDefer] /\
  match run_delivery MExec c e 0 [] with
  | DOutcome o => o_stop o = Some S_SCHED /\ o_next o = Some 5 /\ o_attempts o = 2
  | _ => False end.
Proof. split; vm_compute; [reflexivity|repeat split]. Qed.
