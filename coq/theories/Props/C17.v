(** C17 — Budget and CircuitBreaker are atomic under concurrent threads.
    Only statements; each closed by [exact <lemma>] and followed by Print Assumptions.
    Step model (Concurrency.v): a public method = local steps (clock read: the value read is an input of
    the call), acquire, a body of steps over the shared state, release, return; any number of threads, any
    programs, any schedule; a step is enabled unless it is an acquire while the lock is held.  That the
    CODE has this shape is the lock-discipline obligation checked on the structure regenerated from
    circuit.py / budget.py on every run (LockDiscipline.v), and the behavioural tie is a line-level
    schedule exploration of the real classes.  Not modelled: pre-emption within a source line, the GIL,
    lock fairness. *)
From Redress Require Import Base Window Budget Breaker Concurrency ConcInstances ConcCorollaries LockDiscipline.

(** Every complete execution yields results and a final state equal to executing the same calls
    atomically in some sequential order (the lock-acquisition order), which contains each thread's calls
    in program order. *)
Theorem C17_linearizable : forall (St L Out : Type) (s0 : St) (prog : nat -> list (opcall St L Out)) sch,
  (forall j, done St L Out (thr St L Out (exec St L Out sch (init St L Out s0 prog)) j) = true) ->
  let g' := exec St L Out sch (init St L Out s0 prog) in
  sh St L Out g' = seq_state St L Out (log St L Out g') s0 /\
  (forall j, outs St L Out (thr St L Out g' j) = seq_outs St L Out j (log St L Out g') s0) /\
  (forall j, calls_of St L Out j (log St L Out g') = prog j).
Proof. exact linearizable_from_init. Qed.
Print Assumptions C17_linearizable.

(** No interleaving deadlocks: while some thread is unfinished some step is enabled. *)
Theorem C17_deadlock_free : forall (St L Out : Type) (s0 : St) (prog : nat -> list (opcall St L Out)) sch i,
  done St L Out (thr St L Out (exec St L Out sch (init St L Out s0 prog)) i) = false ->
  exists j g', step St L Out j (exec St L Out sch (init St L Out s0 prog)) = Some g'.
Proof. exact deadlock_free_from_init. Qed.
Print Assumptions C17_deadlock_free.

(** Racing probes are never both admitted: of any number of allow() calls racing after the recovery
    timeout, exactly one is admitted. *)
Theorem C17_racing_probes : forall c oa (s0 : kst) prog sch,
  st s0 = OPEN -> opened_at s0 = Some oa ->
  (forall j x, In x (prog j) -> is_late_allow c oa x) ->
  (forall j, done _ _ _ (thr _ _ _ (exec _ _ _ sch (init _ _ _ s0 prog)) j) = true) ->
  let g' := exec _ _ _ sch (init _ _ _ s0 prog) in
  (forall j, outs _ _ _ (thr _ _ _ g' j) = seq_outs _ _ _ j (log _ _ _ g') s0) /\
  length (filter admitted (seq_results (log _ _ _ g') s0)) = match log _ _ _ g' with [] => 0 | _ => 1 end%nat.
Proof. exact racing_probes. Qed.
Print Assumptions C17_racing_probes.

(** Racing failures open the circuit at most once (exactly once when a threshold is reached: C06). *)
Theorem C17_racing_failures : forall c (s0 : kst) prog sch,
  (forall j x, In x (prog j) -> is_failure c x) ->
  (forall j, done _ _ _ (thr _ _ _ (exec _ _ _ sch (init _ _ _ s0 prog)) j) = true) ->
  let g' := exec _ _ _ sch (init _ _ _ s0 prog) in
  (forall j, outs _ _ _ (thr _ _ _ g' j) = seq_outs _ _ _ j (log _ _ _ g') s0) /\
  (length (filter opened_ev (seq_results (log _ _ _ g') s0)) <= 1)%nat.
Proof. exact racing_failures. Qed.
Print Assumptions C17_racing_failures.

(** Racing consume() calls never over-grant: the grants are exactly the capacity that was left. *)
Theorem C17_racing_consumes : forall c t (ev0 : list Z) prog sch,
  (forall j x, In x (prog j) -> is_consume1 c t x) ->
  (forall y, In y ev0 -> y <= t) -> sorted ev0 -> 0 < bwin c ->
  (forall j, done _ _ _ (thr _ _ _ (exec _ _ _ sch (init _ _ _ ev0 prog)) j) = true) ->
  let g' := exec _ _ _ sch (init _ _ _ ev0 prog) in
  (forall j, outs _ _ _ (thr _ _ _ g' j) = seq_outs _ _ _ j (log _ _ _ g') ev0) /\
  Z.of_nat (length (filter granted (seq_results (log _ _ _ g') ev0))) =
    Z.min (Z.of_nat (length (log _ _ _ g'))) (Z.max 0 (bmax c - zlen (prune (t - bwin c) ev0))).
Proof. exact racing_consumes. Qed.
Print Assumptions C17_racing_consumes.

(** What the lock-discipline obligation buys: outside the locked block a public method touches no
    mutable state. *)
Theorem C17_discipline_shape : forall m,
  meth_ok m = true -> m_public m = true ->
  forall s, In s (m_segs m) -> s_locked s = false -> s_mutable s = false /\ s_helper s = false.
Proof. exact disciplined_shape. Qed.
Print Assumptions C17_discipline_shape.

(** Non-vacuity: two threads racing allow() after the timeout under one particular schedule. *)
Example C17_nonvacuous :
  let c := mk_kcfg 1 100 5 [TRANSIENT] [] in
  let s0 := snd (krun c kinit [(0, KFail TRANSIENT)]) in
  let prog := fun j => match j with 0%nat => [kcall c 5 KAllow] | 1%nat => [kcall c 6 KAllow] | _ => [] end in
  let g' := exec _ _ _ [0; 1; 0; 1; 1; 1; 0; 1; 1; 0; 0; 0]%nat (init _ _ _ s0 prog) in
  outs _ _ _ (thr _ _ _ g' 0%nat) = [Some (KDecision false HALF_OPEN (Some N_CIRCUIT_REJECTED))] /\
  outs _ _ _ (thr _ _ _ g' 1%nat) = [Some (KDecision true HALF_OPEN (Some N_CIRCUIT_HALF_OPEN))] /\
  done _ _ _ (thr _ _ _ g' 0%nat) = true /\ done _ _ _ (thr _ _ _ g' 1%nat) = true.
Proof. vm_compute. repeat split; reflexivity. Qed.
