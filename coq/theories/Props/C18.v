(** C18 — Built-in backoff strategies are total and stay inside their envelopes.
    Only statements; each closed by [exact <lemma>] and followed by Print Assumptions.
    Exact rational arithmetic; the random draw r in [0, 1) is an input
    (random.uniform a b = a + (b - a) * r).  IEEE rounding is not modelled: on the correspondence grid
    (dyadic parameters) every float operation of the strategies is exact and the implementation's
    result must EQUAL the model's; off the grid the check samples the envelope with a 4-ulp tolerance.
    "None of them raises" is, in the model, totality of these functions; the one place where the code
    could raise (g ** attempt beyond the float range) is the defect repaired by the fix: commit — the
    [_pinned] definitions describe the code before it. *)
From Redress Require Import Strategies StrategiesProofs.
From Coq Require Import ZArith List.
Open Scope Q_scope.

Theorem C18_decorrelated : forall base max prev r,
  0 <= base -> base <= max -> (forall p, prev = Some p -> 0 <= p) -> 0 <= r -> r < 1 ->
  0 <= decorrelated base max prev r /\ decorrelated base max prev r <= max.
Proof. exact decorrelated_envelope. Qed.
Print Assumptions C18_decorrelated.

(** for EVERY attempt number (any integer), with the true, unbounded power in the cap *)
Theorem C18_equal_jitter : forall base max attempt r,
  0 <= base -> base <= max -> 0 <= r -> r < 1 ->
  let cap := cap_of base max 2 attempt in
  cap / 2 <= equal_jitter base max attempt r /\ equal_jitter base max attempt r <= cap /\ cap <= max.
Proof. exact equal_jitter_envelope. Qed.
Print Assumptions C18_equal_jitter.

Theorem C18_token_backoff : forall base max attempt r,
  0 <= base -> base <= max -> 0 <= r -> r < 1 ->
  let cap := cap_of base max (3 # 2) attempt in
  cap / 2 <= token_backoff base max attempt r /\ token_backoff base max attempt r <= cap /\ cap <= max.
Proof. exact token_backoff_envelope. Qed.
Print Assumptions C18_token_backoff.

Theorem C18_cap_definition : forall base max g attempt, cap_of base max g attempt = Qmin max (base * g ^ attempt).
Proof. reflexivity. Qed.
Print Assumptions C18_cap_definition.

(** adaptive(): whatever the observation window holds, the multiplier is within
    [min_multiplier, max_multiplier] ... *)
Theorem C18_adaptive_multiplier : forall minm maxm ts f t,
  minm <= maxm -> minm <= multiplier minm maxm ts f t /\ multiplier minm maxm ts f t <= maxm.
Proof. exact multiplier_bounds. Qed.
Print Assumptions C18_adaptive_multiplier.

(** ... hence, for every history of observations and every call time, the result is the fallback's
    value scaled by that factor and never below a non-negative fallback (min_multiplier >= 1). *)
Theorem C18_adaptive : forall minm maxm ts window now fallback l,
  1 <= minm -> minm <= maxm -> 0 <= fallback ->
  fallback <= adaptive_call minm maxm ts window now fallback l /\
  adaptive_call minm maxm ts window now fallback l <= fallback * maxm.
Proof. exact adaptive_scaled. Qed.
Print Assumptions C18_adaptive.

(** retry_after_or: finite, non-negative, and no larger than the remaining deadline when one is given,
    for every retry_after (None, finite, NaN, +-inf) and every fallback value (finite, NaN, +-inf). *)
Theorem C18_retry_after_or : forall ra jitter fallback remaining r,
  0 <= r -> r < 1 -> (forall m, remaining = Some m -> 0 <= m) ->
  0 <= retry_after_or ra jitter fallback remaining r /\
  (forall m, remaining = Some m -> retry_after_or ra jitter fallback remaining r <= m).
Proof. exact retry_after_or_envelope. Qed.
Print Assumptions C18_retry_after_or.

(** The defect on the pinned tree (repaired): the code raised at the float-range guard. *)
Theorem C18_equal_jitter_pinned_refuted : equal_jitter_pinned (1 # 4) 30 1024 (1 # 2) = None.
Proof. vm_compute. reflexivity. Qed.
Print Assumptions C18_equal_jitter_pinned_refuted.
Theorem C18_token_backoff_pinned_refuted : token_backoff_pinned (1 # 4) 20 1751 (1 # 2) = None.
Proof. vm_compute. reflexivity. Qed.
Print Assumptions C18_token_backoff_pinned_refuted.

(** Non-vacuity: attempt 1024, tiny base with a huge max (the case a saturate-to-infinity repair gets wrong). *)
Example C18_nonvacuous :
  Qeq_bool (equal_jitter (1 # 4) 30 1024 (1 # 2)) (45 # 2) = true /\
  Qeq_bool (cap_of (1 # (2 ^ 1000)) (2 ^ 100) 2 1024) (2 ^ 24) = true /\
  Qeq_bool (retry_after_or (Some (QFin 7)) (1 # 4) QNaN (Some 5) (1 # 2)) 5 = true /\
  Qeq_bool (multiplier 1 5 (9 # 10) 1 2) (25 # 9) = true.
Proof. vm_compute. repeat split; reflexivity. Qed.
