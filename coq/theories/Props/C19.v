(** C19 — Built-in classifiers are total and follow the documented table and precedence.
    Only statements; each closed by [exact <lemma>] and followed by Print Assumptions.
    Exceptions are modelled by what the classifiers can observe of them: which marker type (or
    TimeoutError) they are an instance of, three flags of the lower-cased type name, the values of the
    status / status_code / code / sqlstate attributes (absent = None) and the args tuple, over [pyval]:
    None, bools, ints of any size, floats (incl. NaN), strings, bytes, containers, plain objects.
    Reading of "whatever its args hold": args is the exception's argument TUPLE; objects whose
    truthiness, equality or str() raise are outside the value universe.  Totality: in the model the
    classifiers are total functions (C19_total states the obvious consequence); that the CODE does not
    raise on this universe is what the correspondence run checks.  Optional-library classifiers are
    modelled only on the branch taken when the library is absent. *)
From Redress Require Import Base Classify ClassifyProofs.
Open Scope Z_scope.

Theorem C19_total : forall e,
  In (default_classifier e) all_klasses /\ In (strict_classifier e) all_klasses /\ In (http_classifier e) all_klasses /\
  In (sqlstate_classifier e) all_klasses /\ In (pyodbc_classifier e) all_klasses.
Proof. exact classifiers_total. Qed.
Print Assumptions C19_total.

(** Marker exception types (and TimeoutError) win over numeric status/code and over names ... *)
Theorem C19_marker_wins : forall names e k, marker_class (e_kind e) = Some k -> classify names e = k.
Proof. exact marker_wins. Qed.
Print Assumptions C19_marker_wins.

(** ... which win over name heuristics ([status or code], an integer in the table) ... *)
Theorem C19_code_wins : forall names e z k,
  e_kind e = KPlain -> as_int (py_or (e_status e) (e_code e)) = Some z -> status_table z = Some k ->
  classify names e = k.
Proof. exact code_wins. Qed.
Print Assumptions C19_code_wins.

(** ... which apply last, and never in strict_classifier. *)
Theorem C19_names_last : forall e,
  e_kind e = KPlain ->
  (match as_int (py_or (e_status e) (e_code e)) with Some z => status_table z | None => None end) = None ->
  default_classifier e =
    (if e_name_auth e then AUTH else if e_name_perm e then PERMISSION else if e_name_trans e then TRANSIENT else UNKNOWN) /\
  strict_classifier e = UNKNOWN.
Proof. exact names_last. Qed.
Print Assumptions C19_names_last.

Theorem C19_strict_ignores_names : forall e a p t, strict_classifier (with_names e a p t) = strict_classifier e.
Proof. exact strict_ignores_names. Qed.
Print Assumptions C19_strict_ignores_names.

(** Every integer status maps as documented (default / strict) ... *)
Theorem C19_status_table : forall z,
  (z = 401 -> status_table z = Some AUTH) /\ (z = 403 -> status_table z = Some PERMISSION) /\
  (z = 400 \/ z = 404 \/ z = 422 -> status_table z = Some PERMANENT) /\ (z = 409 -> status_table z = Some CONCURRENCY) /\
  (z = 408 -> status_table z = Some TRANSIENT) /\ (z = 429 -> status_table z = Some RATE_LIMIT) /\
  (500 <= z < 600 -> status_table z = Some SERVER_ERROR) /\
  (z <> 401 -> z <> 403 -> z <> 400 -> z <> 404 -> z <> 422 -> z <> 409 -> z <> 408 -> z <> 429 -> ~ (500 <= z < 600) ->
   status_table z = None).
Proof. exact status_table_documented. Qed.
Print Assumptions C19_status_table.

(** ... and for http_classifier (status-driven: first integer among status / status_code / code, else the
    first integer argument in 100..599, else default_classifier). *)
Theorem C19_http_table : forall z,
  (z = 401 -> http_table z = AUTH) /\ (z = 403 -> http_table z = PERMISSION) /\ (z = 409 -> http_table z = CONCURRENCY) /\
  (z = 429 -> http_table z = RATE_LIMIT) /\ (z = 408 -> http_table z = TRANSIENT) /\
  (500 <= z < 600 -> http_table z = SERVER_ERROR) /\ (z = 400 \/ z = 404 -> http_table z = PERMANENT) /\
  (z <> 401 -> z <> 403 -> z <> 409 -> z <> 429 -> z <> 408 -> z <> 400 -> z <> 404 -> ~ (500 <= z < 600) -> http_table z = UNKNOWN).
Proof. exact http_table_documented. Qed.
Print Assumptions C19_http_table.

Theorem C19_http_status_order : forall e,
  coerce_status e =
  match as_int (e_status e), as_int (e_status_code e), as_int (e_code e) with
  | Some z, _, _ => Some z
  | None, Some z, _ => Some z
  | None, None, Some z => Some z
  | None, None, None =>
      match find (fun a => match as_int a with Some z => (100 <=? z) && (z <=? 599) | None => false end) (e_args e) with
      | Some a => as_int a | None => None end
  end.
Proof. exact http_status_order. Qed.
Print Assumptions C19_http_status_order.

(** Documented SQLSTATE codes. *)
Theorem C19_sqlstate_table : forall code,
  (code = s40001 \/ code = s40P01 -> sqlstate_table code = CONCURRENCY) /\
  (code = sHYT00 \/ code = sHYT01 \/ code = s08S01 -> sqlstate_table code = TRANSIENT) /\
  (starts_with s08 code = true -> sqlstate_table code = TRANSIENT) /\
  (starts_with s28 code = true -> sqlstate_table code = AUTH) /\
  (code = s42000 \/ code = s42P01 -> sqlstate_table code = PERMANENT).
Proof. exact sqlstate_table_documented. Qed.
Print Assumptions C19_sqlstate_table.

(** The sqlstate attribute before args; sqlstate_classifier falls back to default_classifier,
    pyodbc_classifier to UNKNOWN. *)
Theorem C19_sqlstate_attribute_first : forall search e,
  truthy (e_sqlstate e) = true -> sqlstate_text search e = Some (py_str (e_sqlstate e)).
Proof. exact sqlstate_attribute_first. Qed.
Print Assumptions C19_sqlstate_attribute_first.

Theorem C19_sqlstate_fallbacks : forall e,
  (sqlstate_text (search_sqlstate false) e = None -> sqlstate_classifier e = default_classifier e) /\
  (sqlstate_text search_bracketed e = None -> pyodbc_classifier e = UNKNOWN) /\
  (forall t, sqlstate_text (search_sqlstate false) e = Some t -> sqlstate_classifier e = sqlstate_table (codes t)) /\
  (forall t, sqlstate_text search_bracketed e = Some t -> pyodbc_classifier e = sqlstate_table (codes t)).
Proof. exact sqlstate_fallbacks. Qed.
Print Assumptions C19_sqlstate_fallbacks.

(** "ints of any size": an int sqlstate that CPython refuses to convert to text (4301 digits or more) yields UNKNOWN from
    both SQLSTATE classifiers. *)
Theorem C19_huge_int_sqlstate : forall e z t,
  e_sqlstate e = {| pv_kind := VInt z; pv_text := t |} -> str_limit <= Z.abs z ->
  sqlstate_classifier e = UNKNOWN /\ pyodbc_classifier e = UNKNOWN.
Proof. exact huge_int_sqlstate_unknown. Qed.
Print Assumptions C19_huge_int_sqlstate.

(** Each optional-library classifier equals default_classifier when its library is absent. *)
Theorem C19_optional_absent : forall w e, optional_classifier false w e = default_classifier e.
Proof. exact optional_absent. Qed.
Print Assumptions C19_optional_absent.

(** Non-vacuity: a plain exception named "...AuthTimeout..." with status = 0 (falsy) and code = 503. *)
Example C19_nonvacuous :
  let none := {| pv_kind := VNone; pv_text := [] |} in
  let e := {| e_kind := KPlain; e_name_auth := true; e_name_perm := false; e_name_trans := true;
              e_status := {| pv_kind := VInt 0; pv_text := [] |}; e_status_code := none;
              e_code := {| pv_kind := VInt 503; pv_text := [] |}; e_sqlstate := none;
              e_args := [{| pv_kind := VStr; pv_text := [(91, false); (52, true); (48, true); (48, true); (48, true); (49, true); (93, false)] |}] |} in
  default_classifier e = SERVER_ERROR /\ http_classifier e = UNKNOWN /\
  sqlstate_classifier e = CONCURRENCY /\ pyodbc_classifier e = CONCURRENCY.
Proof. vm_compute. repeat split; reflexivity. Qed.
