(** C20 — Retry-After hints are parsed safely and honoured exactly.
    Only statements; each closed by [exact <lemma>] and followed by Print Assumptions.
    Strings are lists of character classes (space / decimal digit with its value / + / - / _ / other),
    i.e. exactly what Python's str.strip() and int() look at; the stdlib HTTP-date parser is an oracle
    whose answer [date] for the string at hand is universally quantified (None = it raised one of the
    caught exceptions or returned None).  That it raises nothing else is trusted (and fuzzed by the
    check).  The model is the code as repaired by the fix: commit (float overflow => no hint). *)
From Redress Require Import Base RetryAfter Strategies StrategiesProofs RetryAfterProofs.
Open Scope Z_scope.

(** Never raises, and yields either no hint or a non-negative number of seconds (+inf only when the
    SDK itself supplied retry_after = inf as a float): for every string, number, container shape and
    every answer of the date oracle. *)
Theorem C20_parse_total : forall date s, hint_ok (hint_of (parse_retry_after date s)).
Proof. exact parse_total. Qed.
Print Assumptions C20_parse_total.

Theorem C20_coerce_total : forall direct k items, hint_ok (coerce_retry_after direct k items).
Proof. exact coerce_total. Qed.
Print Assumptions C20_coerce_total.

Theorem C20_classifier_total : forall k direct hk items, hint_ok (classifier_hint k direct hk items).
Proof. exact classifier_total. Qed.
Print Assumptions C20_classifier_total.

(** A decimal integer n within the exactly representable range gives n ... *)
Theorem C20_integer : forall date s n,
  s <> [] -> strip s <> [] -> py_int (strip s) = Some n -> 0 <= n < 2 ^ 53 ->
  exists q, parse_retry_after date s = Some q /\ (q == inject_Z n)%Q.
Proof. exact parse_integer. Qed.
Print Assumptions C20_integer.

(** ... in general the float nearest to it clamped at 0, and no hint beyond the float range. *)
Theorem C20_integer_general : forall date s n,
  s <> [] -> strip s <> [] -> py_int (strip s) = Some n ->
  parse_retry_after date s =
  match float_of_int n with Some f => Some (Qmax 0 (inject_Z f)) | None => None end.
Proof. exact parse_integer_general. Qed.
Print Assumptions C20_integer_general.

(** An HTTP-date gives the time until that date clamped at 0; garbage gives no hint. *)
Theorem C20_date_or_garbage : forall date s,
  s <> [] -> strip s <> [] -> py_int (strip s) = None ->
  parse_retry_after date s = match date with Some d => Some (Qmax 0 d) | None => None end.
Proof. exact parse_date. Qed.
Print Assumptions C20_date_or_garbage.

Theorem C20_blank : forall date s, strip s = [] -> parse_retry_after date s = None.
Proof. exact parse_blank. Qed.
Print Assumptions C20_blank.

(** The retry_after attribute wins over the headers; an unparsable attribute falls back to them. *)
Theorem C20_attribute_first : forall k items,
  (forall z f, float_of_int z = Some f -> coerce_retry_after (RInt z) k items = HSome (Qmax 0 (inject_Z f))) /\
  (forall q, coerce_retry_after (RFloat (FFin q)) k items = HSome (Qmax 0 q)) /\
  (forall s d q, parse_retry_after d s = Some q -> coerce_retry_after (RStr s d) k items = HSome q) /\
  (forall s d, parse_retry_after d s = None -> coerce_retry_after (RStr s d) k items = coerce_retry_after RAbsent k items).
Proof. exact coerce_attribute_first. Qed.
Print Assumptions C20_attribute_first.

(** A policy using retry_after_or waits at least the hinted time and at most the hint plus jitter_s,
    except where the remaining deadline is smaller: the delay the retry loop applies (C05: the
    strategy's output clamped at the remaining time). *)
Theorem C20_honoured : forall h jitter fallback rem r,
  (0 <= r)%Q -> (r < 1)%Q -> (0 <= h)%Q -> (0 <= jitter)%Q -> (0 < rem)%Q ->
  let d := Qmin (Qmax 0 (retry_after_or (Some (QFin h)) jitter fallback (Some rem) r)) rem in
  (Qmin h rem <= d)%Q /\ (d <= h + jitter)%Q /\ (d <= rem)%Q.
Proof. exact hint_honoured. Qed.
Print Assumptions C20_honoured.

(** Non-vacuity: "  1_2 " -> 12; 309 nines -> no hint (beyond the float range); "-5" -> 0. *)
Example C20_nonvacuous :
  hint_eqb (hint_of (parse_retry_after None [CSpace; CSpace; CDigit 1; CUnder; CDigit 2; CSpace])) (HSome 12) = true /\
  parse_retry_after None (repeat (CDigit 9) 309) = None /\
  hint_eqb (hint_of (parse_retry_after None [CMinus; CDigit 5])) (HSome 0) = true /\
  float_of_int (2 ^ 1024 - 2 ^ 970) = None /\ float_of_int (2 ^ 1024 - 2 ^ 970 - 1) = Some (2 ^ 1024 - 2 ^ 971).
Proof. vm_compute. repeat split; reflexivity. Qed.
