(** PyIR.v — a small deep embedding of the Python fragment in which redress/budget.py is written,
    with an interpreter.  harness/pyir_translate.py regenerates coq/gen/BudgetIR.v (the methods of Budget as
    [stmt] terms) from /repo's source on every run; BudgetIRProofs-style obligations in that generated file
    then prove that the translated methods compute exactly the hand-written model of Budget.v
    ([consume], [remaining]) — so for Budget the tie between model and code is syntactic translation +
    proof, not only differential testing.  The translator is a mechanical, fail-closed map from Python
    AST shapes to these constructors; the meaning of the constructors is fixed here. *)
From Redress Require Import Base Window Budget.
From Coq Require Import String.
Open Scope string_scope.

Inductive val := VI (z : Z) | VB (b : bool) | VD (d : list Z) | VN.

Inductive binop := OAdd | OSub.
Inductive cmpop := CLe | CLt | CGt | CGe.

Inductive expr :=
| EInt (z : Z)
| EBool (b : bool)
| ENone
| EVar (x : string)                     (* local variable / parameter *)
| EAttr (a : string)                    (* self.<a> *)
| EClock                                (* time.monotonic() *)
| ELen (e : expr)                       (* len(e) *)
| EHead (e : expr)                      (* e[0] *)
| EBin (o : binop) (a b : expr)
| ECmp (o : cmpop) (a b : expr)
| EAnd (a b : expr)                     (* a and b (short-circuit; truthiness of a deque = non-empty) *)
| EMax (a b : expr)                     (* max(a, b) *)
| EDeque                                (* deque() *)
| ELock.                                (* threading.Lock() *)

Inductive stmt :=
| SSkip
| SSeq (a b : stmt)
| SAssign (x : string) (e : expr)
| SSetAttr (a : string) (e : expr)      (* self.<a> = e *)
| SIf (c : expr) (t f : stmt)
| SWhile (c : expr) (body : stmt)
| SForRange (n : expr) (body : stmt)    (* for _ in range(n): body *)
| SAppend (a : string) (e : expr)       (* self.<a>.append(e) *)
| SPopLeft (a : string)                 (* self.<a>.popleft() *)
| SCall (helper : string) (args : list expr)   (* self.<helper>(args) *)
| SWithLock (body : stmt)               (* with self._lock: body *)
| SReturn (e : expr)
| SRaise.                               (* raise ValueError(...) *)

Definition env := list (string * val).
Fixpoint lookup (x : string) (l : env) : val :=
  match l with [] => VN | (y, v) :: r => if String.eqb x y then v else lookup x r end.
Definition update (x : string) (v : val) (l : env) : env := (x, v) :: l.

Record st := { attrs : env; locals : env; clock : Z }.

Definition truthy (v : val) : bool :=
  match v with VI z => negb (Z.eqb z 0) | VB b => b | VD d => match d with [] => false | _ => true end | VN => false end.

Fixpoint eval (s : st) (e : expr) : val :=
  match e with
  | EInt z => VI z
  | EBool b => VB b
  | ENone => VN
  | EVar x => lookup x (locals s)
  | EAttr a => lookup a (attrs s)
  | EClock => VI (clock s)
  | ELen e => match eval s e with VD d => VI (zlen d) | _ => VN end
  | EHead e => match eval s e with VD (t :: _) => VI t | _ => VN end
  | EBin o a b => match eval s a, eval s b with
                  | VI x, VI y => VI (match o with OAdd => Z.add x y | OSub => Z.sub x y end)
                  | _, _ => VN end
  | ECmp o a b => match eval s a, eval s b with
                  | VI x, VI y => VB (match o with CLe => Z.leb x y | CLt => Z.ltb x y | CGt => Z.ltb y x | CGe => Z.leb y x end)
                  | _, _ => VN end
  | EAnd a b => if truthy (eval s a) then eval s b else eval s a
  | EMax a b => match eval s a, eval s b with VI x, VI y => VI (Z.max x y) | _, _ => VN end
  | EDeque => VD []
  | ELock => VN
  end.

Inductive outcome := ONormal (s : st) | OReturn (s : st) (v : val) | ORaise (s : st) | OFuel.

Definition set_attr (s : st) (a : string) (v : val) : st := {| attrs := update a v (attrs s); locals := locals s; clock := clock s |}.
Definition set_local (s : st) (x : string) (v : val) : st := {| attrs := attrs s; locals := update x v (locals s); clock := clock s |}.

(** helper methods: name -> (parameter names, body) *)
Definition helpers := list (string * (list string * stmt)).
Fixpoint find_helper (h : string) (l : helpers) : option (list string * stmt) :=
  match l with [] => None | (n, d) :: r => if String.eqb h n then Some d else find_helper h r end.
Fixpoint bind (ps : list string) (vs : list val) : env :=
  match ps, vs with p :: pr, v :: vr => (p, v) :: bind pr vr | _, _ => [] end.

Section Interp.
  Variable hs : helpers.

  Fixpoint repeat_body (run : st -> outcome) (n : nat) (s : st) : outcome :=
    match n with
    | O => ONormal s
    | S k => match run s with ONormal s' => repeat_body run k s' | o => o end
    end.

  (** fuel is consumed only by loop iterations and helper calls; straight-line code is evaluated by
      structural recursion on the statement *)
  Fixpoint exec (fuel : nat) (c : stmt) (s : st) {struct fuel} : outcome :=
    let again := match fuel with O => fun _ _ => OFuel | S f => exec f end in
    (fix go (c : stmt) (s : st) {struct c} : outcome :=
       match c with
       | SSkip => ONormal s
       | SSeq a b => match go a s with ONormal s' => go b s' | o => o end
       | SAssign x e => ONormal (set_local s x (eval s e))
       | SSetAttr a e => ONormal (set_attr s a (eval s e))
       | SIf c t e => if truthy (eval s c) then go t s else go e s
       | SWhile cnd body =>
           if truthy (eval s cnd)
           then match go body s with ONormal s' => again (SWhile cnd body) s' | o => o end
           else ONormal s
       | SForRange n body =>
           match eval s n with
           | VI k => repeat_body (go body) (Z.to_nat k) s
           | _ => ORaise s
           end
       | SAppend a e => match lookup a (attrs s), eval s e with
                        | VD d, VI t => ONormal (set_attr s a (VD (d ++ [t])))
                        | _, _ => ORaise s end
       | SPopLeft a => match lookup a (attrs s) with
                       | VD (_ :: d) => ONormal (set_attr s a (VD d))
                       | _ => ORaise s end
       | SCall h args =>
           match find_helper h hs with
           | Some (ps, body) =>
               let callee := {| attrs := attrs s; locals := bind ps (map (eval s) args); clock := clock s |} in
               match again body callee with
               | ONormal s' | OReturn s' _ => ONormal {| attrs := attrs s'; locals := locals s; clock := clock s |}
               | ORaise s' => ORaise {| attrs := attrs s'; locals := locals s; clock := clock s |}
               | OFuel => OFuel
               end
           | None => ORaise s
           end
       | SWithLock body => go body s
       | SReturn e => OReturn s (eval s e)
       | SRaise => ORaise s
       end) c s.
End Interp.

(** a public method of Budget run on the object state (max_retries, window_s, _events) at clock reading [now] *)
Definition budget_attrs (c : bcfg) (ev : list Z) : env :=
  [("max_retries", VI (bmax c)); ("window_s", VI (bwin c)); ("_events", VD ev)].
Definition events_of (s : st) : list Z := match lookup "_events" (attrs s) with VD d => d | _ => [] end.

Definition run_method (hs : helpers) (fuel : nat) (ps : list string) (body : stmt) (c : bcfg) (ev : list Z) (now : Z) (args : list val)
    : outcome :=
  exec hs fuel body {| attrs := budget_attrs c ev; locals := bind ps args; clock := now |}.

(** the observable meaning of an outcome, in the vocabulary of Budget.v *)
Definition as_bres (o : outcome) : option (bres * list Z) :=
  match o with
  | OReturn s (VB true) => Some (RGrant, events_of s)
  | OReturn s (VB false) => Some (RRefuse, events_of s)
  | OReturn s (VI n) => Some (RRem n, events_of s)
  | ORaise s => Some (RErr, events_of s)
  | _ => None
  end.
