(** PyIRC.v — the decision-procedure fragment of Python in which redress/classify.py's [_classify] is written, over the
    abstraction of an exception object used by Classify.v ([pyexc]: which marker type it is an instance of, the values of
    its status / code attributes, and three facts about its lower-cased type name).  harness/pyir_classify.py regenerates
    [_classify] as a [cprog] from /repo's source on every run (fail-closed; the substring lists of the name heuristics must
    be exactly the ones the abstraction's three name facts stand for), and coq/templates/ClassifyIRProofs.v.in proves that the
    translated function is Classify.classify, hence default_classifier / strict_classifier. *)
From Redress Require Import Base Classify.

Inductive cexp :=
| CIsInst (k : exn_kind)                 (* isinstance(err, <TimeoutError | a redress marker type>) *)
| CCodeIsInt                             (* isinstance(code, int) *)
| CCodeEq (z : Z)                        (* code == z *)
| CCodeIn (zs : list Z)                  (* code in (z1, z2, ...) *)
| CCodeRange (lo hi : Z)                 (* lo <= code < hi *)
| CHeur                                  (* use_name_heuristics *)
| CNameAuth | CNamePerm | CNameTrans     (* "<s1>" in name or "<s2>" in name ... for the three documented substring lists *)
| CCodeIsNone                            (* status is None *)
| CSqlIsNone                             (* sqlstate is None / code is None *)
| CStrRefused                            (* str(sqlstate) raises ValueError *)
| CTextIn (cs : list (list Z))           (* code in {"...", ...}   (strings as code points) *)
| CTextStarts (p : list Z)               (* code.startswith("...") *)
| COr (a b : cexp)                       (* a or b *)
| CNot (a : cexp).                       (* not a *)

(** which regular expression _extract_sqlstate searches the string arguments with *)
Inductive sqsearch := SBoundary | SBracketed.   (* r"\b([0-9A-Z]{5})\b"  |  r"\[([0-9A-Z]{5})\]" *)
Definition search_of (r : sqsearch) : str -> option str :=
  match r with SBoundary => search_sqlstate false | SBracketed => search_bracketed end.

(** _coerce_status of extras/http.py: the first int among three attributes, else the first int argument in a range *)
Inductive pattr := AStatus | AStatusCode | ACode.
Definition attr_val (e : pyexc) (a : pattr) : pyval :=
  match a with AStatus => e_status e | AStatusCode => e_status_code e | ACode => e_code e end.
Inductive vprog :=
| VNoneRet                                (* return None *)
| VAttrInt (a : pattr) (rest : vprog)     (* val = getattr(exc, a, None); if isinstance(val, int): return val;  rest *)
| VArgInt (lo hi : Z) (rest : vprog).     (* args = getattr(exc, 'args', ()); if isinstance(args, Iterable): for arg in args: if isinstance(arg, int) and lo <= arg <= hi: return arg;  rest *)
Fixpoint vexec (e : pyexc) (p : vprog) : option Z :=
  match p with
  | VNoneRet => None
  | VAttrInt a rest => match as_int (attr_val e a) with Some z => Some z | None => vexec e rest end
  | VArgInt lo hi rest =>
      match find (fun a => match as_int a with Some z => (lo <=? z) && (z <=? hi) | None => false end) (e_args e) with
      | Some a => as_int a
      | None => vexec e rest
      end
  end.

Inductive cprog :=
| CFall                                  (* end of an if-body without return: control falls through *)
| CReturn (k : klass)
| CIf (c : cexp) (body rest : cprog)     (* if c: body;  rest *)
| CBindCode (rest : cprog)               (* code = getattr(err, "status", None) or getattr(err, "code", None) *)
| CBindName (rest : cprog)               (* name = type(err).__name__.lower() *)
| CBindStatus (v : vprog) (rest : cprog) (* status = _coerce_status(exc) *)
| CBindSql (r : sqsearch) (rest : cprog) (* sqlstate = getattr(exc, "sqlstate", None) or _extract_sqlstate(getattr(exc, "args", ())) *)
| CReturnDefault.                        (* return default_classifier(exc) *)

Definition kind_eqb (a b : exn_kind) : bool :=
  match a, b with
  | KTimeout, KTimeout | KPermanent, KPermanent | KRateLimit, KRateLimit | KConcurrency, KConcurrency
  | KServer, KServer | KPlain, KPlain => true
  | _, _ => false
  end.

Fixpoint ceval (heur : bool) (e : pyexc) (code : pyval) (sql : option str) (c : cexp) : bool :=
  match c with
  | CIsInst k => kind_eqb (e_kind e) k
  | CCodeIsInt => match as_int code with Some _ => true | None => false end
  | CCodeEq z => match as_int code with Some x => x =? z | None => false end
  | CCodeIn zs => match as_int code with Some x => existsb (Z.eqb x) zs | None => false end
  | CCodeRange lo hi => match as_int code with Some x => (lo <=? x) && (x <? hi) | None => false end
  | CHeur => heur
  | CNameAuth => e_name_auth e
  | CNamePerm => e_name_perm e
  | CNameTrans => e_name_trans e
  | CCodeIsNone => match pv_kind code with VNone => true | _ => false end
  | CSqlIsNone => match sql with None => true | Some _ => false end
  | CStrRefused => truthy (e_sqlstate e) && str_refused (e_sqlstate e)
  | CTextIn cs => match sql with Some t => existsb (zlist_eqb (codes t)) cs | None => false end
  | CTextStarts p => match sql with Some t => starts_with p (codes t) | None => false end
  | COr a b => ceval heur e code sql a || ceval heur e code sql b
  | CNot a => negb (ceval heur e code sql a)
  end.

Fixpoint cexec_sql (heur : bool) (e : pyexc) (code : pyval) (sql : option str) (p : cprog) : option klass :=
  match p with
  | CFall => None
  | CReturn k => Some k
  | CIf c body rest =>
      if ceval heur e code sql c
      then match cexec_sql heur e code sql body with Some k => Some k | None => cexec_sql heur e code sql rest end
      else cexec_sql heur e code sql rest
  | CBindCode rest => cexec_sql heur e (py_or (e_status e) (e_code e)) sql rest
  | CBindName rest => cexec_sql heur e code sql rest
  | CBindStatus v rest =>
      cexec_sql heur e (match vexec e v with Some z => {| pv_kind := VInt z; pv_text := [] |} | None => {| pv_kind := VNone; pv_text := [] |} end)
                sql rest
  | CBindSql r rest => cexec_sql heur e code (sqlstate_text (search_of r) e) rest
  | CReturnDefault => Some (default_classifier e)
  end.
Definition cexec (heur : bool) (e : pyexc) (code : pyval) (p : cprog) : option klass := cexec_sql heur e code None p.
