(** PyIRE.v — the fragment of Python in which the state operations of the retry loop are written (redress/policy/state.py:
    _RetryState.emit, check_abort, record_failure; policy/runner/timeline.py: the metric hook that captures the timeline): how
    the tags of an event are assembled, which sinks receive it in which order under which guards, when abort_if is polled and
    what a True answer does, what a recorded failure overwrites (C14, C15, C13, and every property that reads the event stream).
    harness/pyir_state.py regenerates them as token lists from /repo's source on every run (fail-closed);
    coq/templates/StateIRProofs.v.in proves that the translated functions are Runner.emit, Runner.check_abort and the
    last_fail update of Runner.handle_failure.  The meaning of the tokens is fixed here. *)
From Redress Require Import Base Window Budget Runner.

(** ---------------- emit ---------------- *)
Inductive etag := TClass | TErr | TStop | TCause | TOperation.

Inductive htok :=                 (* the timeline hook of _resolve_timeline *)
| HRecord                         (* collector.record(event, attempt, sleep_s, tags) *)
| HIfUser (body : list htok)      (* if on_metric is not None: *)
| HCallUser.                      (* on_metric(event, attempt, sleep_s, tags) *)

Inductive ltok2 :=                (* inside `if self.on_log is not None:` *)
| GFields                         (* fields = {"attempt": attempt, "sleep_s": sleep_s, **tags} *)
| GRetryAfterIf                   (* if event == RETRY and classification is not None and classification.retry_after_s is not None: fields["retry_after_s"] = ... *)
| GLogCall.                       (* try: self.on_log(event, fields) except Exception: pass *)

Inductive etok :=
| EInitTags                       (* tags: dict[str, Any] = {} *)
| ETagIf (t : etag)               (* if klass is not None: tags["class"] = klass.name  |  ... | if self.operation: tags["operation"] = ... *)
| EMetricGuarded                  (* if self.on_metric is not None: try: self.on_metric(event, attempt, sleep_s, tags) except Exception: pass *)
| ELogIf (body : list ltok2).     (* if self.on_log is not None: *)

Section Emit.
  Variables (m : mode) (c : cfg) (e : env) (n : evname) (att sleep : Z) (k : option klass) (err : bool) (r : option stop)
            (cs : option cause) (ra : option hint).

  Record estate := { es : rst; etr : list ev; etags : tags; efields : option (tags * option hint) }.

  Definition empty_tags : tags := {| t_class := None; t_err := false; t_stop := None; t_cause := None; t_op := false |}.
  Definition set_tag (g : tags) (t : etag) : tags :=
    match t with
    | TClass => {| t_class := k; t_err := t_err g; t_stop := t_stop g; t_cause := t_cause g; t_op := t_op g |}
    | TErr => {| t_class := t_class g; t_err := err; t_stop := t_stop g; t_cause := t_cause g; t_op := t_op g |}
    | TStop => {| t_class := t_class g; t_err := t_err g; t_stop := r; t_cause := t_cause g; t_op := t_op g |}
    | TCause => {| t_class := t_class g; t_err := t_err g; t_stop := t_stop g; t_cause := cs; t_op := t_op g |}
    | TOperation => {| t_class := t_class g; t_err := t_err g; t_stop := t_stop g; t_cause := t_cause g; t_op := has_opname c |}
    end.

  (** the timeline collector wraps the user's hook when execute() captures a timeline *)
  Definition timeline_on : bool := match m with MExec => capture_tl c | MCall => false end.

  (** the user's on_metric: it is called, and may raise an ordinary exception *)
  Definition user_metric (st : estate) : estate * bool :=
    ({| es := set_nmet (es st) (S (nmet (es st))); etr := etr st ++ [EMetric n att sleep (etags st)]; etags := etags st; efields := efields st |},
     metric_raises e (nmet (es st))).

  (** inside the timeline hook nothing is guarded: an exception of the user's hook leaves the hook at once (the guard is emit's) *)
  Fixpoint hstep2 (x : htok) (st : estate) {struct x} : estate * bool :=
    match x with
    | HRecord =>
        let g := etags st in
        ({| es := set_tl (es st) (tl (es st) ++ [{| tl_att := att; tl_name := n; tl_elapsed := elapsed (es st); tl_sleep := sleep;
                                                    tl_class := t_class g; tl_stop := t_stop g; tl_cause := t_cause g |}]);
            etr := etr st; etags := etags st; efields := efields st |}, false)
    | HIfUser body =>
        if has_metric c
        then (fix go (l : list htok) (st : estate) {struct l} : estate * bool :=
                match l with [] => (st, false) | y :: r0 => let '(st1, raised) := hstep2 y st in if raised then (st1, true) else go r0 st1 end) body st
        else (st, false)
    | HCallUser => user_metric st
    end.
  Fixpoint hrun2 (p : list htok) (st : estate) : estate * bool :=
    match p with [] => (st, false) | x :: r0 => let '(st1, raised) := hstep2 x st in if raised then (st1, true) else hrun2 r0 st1 end.

  Definition lstep2 (x : ltok2) (st : estate) : estate :=
    match x with
    | GFields => {| es := es st; etr := etr st; etags := etags st; efields := Some (etags st, None) |}
    | GRetryAfterIf =>
        match efields st with
        | Some (g, _) => {| es := es st; etr := etr st; etags := etags st; efields := Some (g, match n with N_RETRY => ra | _ => None end) |}
        | None => st
        end
    | GLogCall =>
        match efields st with
        | Some (g, h) =>
            guarded (log_raises e (nlog (es st)))
              {| es := set_nlog (es st) (S (nlog (es st))); etr := etr st ++ [ELog n att sleep g h]; etags := etags st; efields := efields st |}
        | None => st
        end
    end.

  Definition estep (hook : list htok) (x : etok) (st : estate) : estate :=
    match x with
    | EInitTags => {| es := es st; etr := etr st; etags := empty_tags; efields := efields st |}
    | ETagIf t => {| es := es st; etr := etr st; etags := set_tag (etags st) t; efields := efields st |}
    | EMetricGuarded =>
        (* self.on_metric is the timeline hook when a timeline is captured, else the user's hook (or None) *)
        (* try: ... except Exception: pass — whether or not the hook raised, emit goes on with whatever the hook had done *)
        if timeline_on then fst (hrun2 hook st) else if has_metric c then fst (user_metric st) else st
    | ELogIf body => if has_log c then fold_left (fun a y => lstep2 y a) body st else st
    end.

  Definition erun (hook : list htok) (p : list etok) (s : rst) : rst * list ev :=
    let st := fold_left (fun a x => estep hook x a) p {| es := s; etr := []; etags := empty_tags; efields := None |} in
    (es st, etr st).
End Emit.

(** ---------------- check_abort ---------------- *)
Inductive ctok :=
| CIfNoPredicateReturn            (* if self.abort_if is None: return *)
| CIfNotRequestedReturn           (* if not self.abort_if(): return *)
| CSetAborted                     (* self.last_stop_reason = StopReason.ABORTED *)
| CEmitAborted                    (* self.emit(EventName.ABORTED.value, attempt, 0.0, stop_reason=StopReason.ABORTED) *)
| CRaiseAbort.                    (* raise AbortRetryError() *)

Section Abort.
  Variables (m : mode) (c : cfg) (e : env) (att : Z).
  Inductive cres := CGo (s : rst) (tr : list ev) | CReturned (s : rst) (tr : list ev) | CRaised (s : rst) (tr : list ev).

  Definition cstep (x : ctok) (s : rst) (tr : list ev) : cres :=
    match x with
    | CIfNoPredicateReturn => if has_abort c then CGo s tr else CReturned s tr
    | CIfNotRequestedReturn =>
        let ans := abort e (npoll s) in
        let s1 := set_npoll s (S (npoll s)) in
        if ans then CGo s1 (tr ++ [EPoll true]) else CReturned s1 (tr ++ [EPoll false])
    | CSetAborted => CGo (set_last_stop s (Some S_ABORT)) tr
    | CEmitAborted => let '(s', t) := emit m c e s N_ABORTED att 0 None false (Some S_ABORT) None None in CGo s' (tr ++ t)
    | CRaiseAbort => CRaised s tr
    end.
  Fixpoint crun (p : list ctok) (s : rst) (tr : list ev) : cres :=
    match p with [] => CGo s tr | x :: r => match cstep x s tr with CGo s' tr' => crun r s' tr' | o => o end end.
  Definition check_abort_of (p : list ctok) (s : rst) : option (bool * rst * list ev) :=
    match crun p s [] with
    | CReturned s' tr => Some (false, s', tr)
    | CRaised s' tr => Some (true, s', tr)
    | CGo _ _ => None          (* fell off the end without returning or raising *)
    end.
End Abort.

(** ---------------- record_failure ---------------- *)
Inductive rfield := FLastClass | FLastClassification | FLastCause | FLastExc | FLastResult.
Inductive rval := RFromArg | RNone.
Inductive rtok :=
| RSet (f : rfield) (v : rval)                       (* self.<f> = <argument> | None *)
| RIfException (then_ else_ : list rtok).           (* if cause == "exception": ... else: ... *)

Record rfields := { rf_class : option klass; rf_classification : option classif; rf_cause : option cause;
                    rf_exc : option Z; rf_res : option Z }.
Section Record.
  Variables (cl : classif) (cs : cause) (att : Z).
  (** exc / result are identified by the attempt that produced them; handle_exception passes result=None, handle_result exc=None *)
  Definition arg_of (f : rfield) (old : rfields) : rfields :=
    match f with
    | FLastClass => {| rf_class := Some (cl_k cl); rf_classification := rf_classification old; rf_cause := rf_cause old; rf_exc := rf_exc old; rf_res := rf_res old |}
    | FLastClassification => {| rf_class := rf_class old; rf_classification := Some cl; rf_cause := rf_cause old; rf_exc := rf_exc old; rf_res := rf_res old |}
    | FLastCause => {| rf_class := rf_class old; rf_classification := rf_classification old; rf_cause := Some cs; rf_exc := rf_exc old; rf_res := rf_res old |}
    | FLastExc => {| rf_class := rf_class old; rf_classification := rf_classification old; rf_cause := rf_cause old;
                     rf_exc := match cs with CExc => Some att | CRes => None end; rf_res := rf_res old |}
    | FLastResult => {| rf_class := rf_class old; rf_classification := rf_classification old; rf_cause := rf_cause old; rf_exc := rf_exc old;
                        rf_res := match cs with CRes => Some att | CExc => None end |}
    end.
  Definition none_of (f : rfield) (old : rfields) : rfields :=
    match f with
    | FLastClass => {| rf_class := None; rf_classification := rf_classification old; rf_cause := rf_cause old; rf_exc := rf_exc old; rf_res := rf_res old |}
    | FLastClassification => {| rf_class := rf_class old; rf_classification := None; rf_cause := rf_cause old; rf_exc := rf_exc old; rf_res := rf_res old |}
    | FLastCause => {| rf_class := rf_class old; rf_classification := rf_classification old; rf_cause := None; rf_exc := rf_exc old; rf_res := rf_res old |}
    | FLastExc => {| rf_class := rf_class old; rf_classification := rf_classification old; rf_cause := rf_cause old; rf_exc := None; rf_res := rf_res old |}
    | FLastResult => {| rf_class := rf_class old; rf_classification := rf_classification old; rf_cause := rf_cause old; rf_exc := rf_exc old; rf_res := None |}
    end.
  Fixpoint rstep (x : rtok) (old : rfields) {struct x} : rfields :=
    match x with
    | RSet f RFromArg => arg_of f old
    | RSet f RNone => none_of f old
    | RIfException a b =>
        (fix go (l : list rtok) (o : rfields) {struct l} : rfields := match l with [] => o | y :: r => go r (rstep y o) end)
          (match cs with CExc => a | CRes => b end) old
    end.
  Fixpoint rrun (p : list rtok) (old : rfields) : rfields := match p with [] => old | x :: r => rrun r (rstep x old) end.
End Record.

(** what Runner.v keeps of a recorded failure, seen as the five fields *)
Definition fields_of (s : rst) : rfields :=
  {| rf_class := last_class s; rf_classification := match last_fail s with Some (cl, _, _) => Some cl | None => None end;
     rf_cause := last_cause s; rf_exc := last_exc s; rf_res := last_res s |}.
