(** PyIRF.v — the fragment of Python in which [_RetryState._handle_failure] (redress/policy/state.py) is written: the function
    that decides, for one failed attempt, whether a retry is granted and with which delay (C01, C03, C05).  Statements are the
    ones that function uses (counter updates, guarded stop blocks, strategy selection and call, sanitisation, the budget);
    conditions are comparisons between named quantities of the run.  harness/pyir_failure.py regenerates the function as a
    [list hstmt] from /repo's source on every run (fail-closed); coq/templates/FailureIRProofs.v.in proves that the translated
    function is Runner.handle_failure — same decision, same state, same events — for every configuration, environment and
    state.  The meaning of the constructors is fixed here in terms of the state operations of Runner.v. *)
From Redress Require Import Base Window Budget Runner.

Inductive hq := QClassCount | QUnknownCount | QAttempt | QMaxAttempts | QElapsed | QDeadline | QRemaining | QInt (z : Z).
Inductive hcmp := HGt | HGe | HLt | HLe.
Inductive hopt := OClassLimit | OMaxUnknown.     (* per_class_max_attempts.get(klass) / max_unknown_attempts: None or a number *)

Inductive hcond :=
| HCmp (a : hq) (op : hcmp) (b : hq)             (* a op b *)
| HOptCmp (o : hopt) (a : hq) (op : hcmp)        (* o is not None and a op o *)
| HKlassIn (ks : list klass)                     (* klass in (K1, K2, ...) *)
| HKlassIs (k : klass)                           (* klass is K *)
| HNoStrategy                                    (* strategy is None *)
| HBudgetRefuses.                                (* self.policy.budget is not None and not self.policy.budget.consume() *)

Inductive hstmt :=
| HRecordFailure                                 (* self.record_failure(classification=..., cause=..., exc=..., result=...) *)
| HBumpClass                                     (* self.per_class_counts[klass] += 1 *)
| HBumpUnknown                                   (* self.unknown_attempts += 1 *)
| HSelectStrategy                                (* strategy = self.policy._select_strategy(klass) *)
| HFeedback                                      (* self._last_strategy = strategy; strategy.record_failure(klass) if it has one *)
| HBindRemaining                                 (* remaining_s = (self.policy.deadline - self.elapsed()).total_seconds() *)
| HCallStrategy                                  (* ctx = _build_backoff_context(...); sleep_s = strategy(ctx) *)
| HSanitize                                      (* if not isfinite(sleep_s): 0.0;  max(0.0, sleep_s);  min(sleep_s, remaining_s) *)
| HSetPrev                                       (* self.prev_sleep = sleep_s *)
| HIf (c : hcond) (body : list hstmt)
| HStop (r : stop) (n : evname)                  (* last_stop_reason = r; emit(n, attempt, 0.0, klass, exc, stop_reason=r, cause); raise *)
| HRetry.                                        (* emit(RETRY, attempt, sleep_s, klass, exc, cause, classification); retry *)

Section Sem.
  Variables (m : mode) (c : cfg) (e : env) (i : nat) (att : Z) (cl : classif) (cs : cause).
  Let k := cl_k cl.

  Record hstate := { hs : rst; hstrat : option (sid * bool); hrem : Z; hraw : sval; hd : Z; htr : list ev }.
  Inductive hres := HCont (st : hstate) | HDone (d : decision) (s : rst) (tr : list ev).

  Definition with_rst (st : hstate) (s : rst) : hstate :=
    {| hs := s; hstrat := hstrat st; hrem := hrem st; hraw := hraw st; hd := hd st; htr := htr st |}.

  Definition qval (st : hstate) (q : hq) : Z :=
    match q with
    | QClassCount => cnt (hs st) k | QUnknownCount => unk (hs st) | QAttempt => att | QMaxAttempts => max_attempts c
    | QElapsed => elapsed (hs st) | QDeadline => deadline c | QRemaining => hrem st | QInt z => z
    end.
  Definition cmpz (op : hcmp) (a b : Z) : bool :=
    match op with HGt => b <? a | HGe => b <=? a | HLt => a <? b | HLe => a <=? b end.

  Definition ceval (st : hstate) (x : hcond) : bool * hstate :=
    match x with
    | HCmp a op b => (cmpz op (qval st a) (qval st b), st)
    | HOptCmp o a op =>
        (match (match o with OClassLimit => per_class c k | OMaxUnknown => max_unknown c end) with
         | Some l => cmpz op (qval st a) l | None => false end, st)
    | HKlassIn ks => (existsb (klass_eqb k) ks, st)
    | HKlassIs k0 => (klass_eqb k k0, st)
    | HNoStrategy => (match hstrat st with None => true | Some _ => false end, st)
    | HBudgetRefuses =>
        match budget c with
        | None => (false, st)
        | Some b =>
            let '(r, bev') := consume b (now (hs st)) 1 (bev (hs st)) in
            let granted := match r with RGrant => true | _ => false end in
            (negb granted, {| hs := set_bev (hs st) bev'; hstrat := hstrat st; hrem := hrem st; hraw := hraw st; hd := hd st;
                              htr := htr st ++ [EBudget granted] |})
        end
    end.

  Fixpoint hstep (x : hstmt) (st : hstate) {struct x} : hres :=
    match x with
    | HRecordFailure => HCont (with_rst st (set_last_fail (hs st) (Some (cl, cs, att))))
    | HBumpClass => HCont (with_rst st (set_counts (hs st) (bump (cnt (hs st)) k) (unk (hs st))))
    | HBumpUnknown => HCont (with_rst st (set_counts (hs st) (cnt (hs st)) (unk (hs st) + 1)))
    | HSelectStrategy =>
        HCont {| hs := hs st; hstrat := select_strategy c k; hrem := hrem st; hraw := hraw st; hd := hd st; htr := htr st |}
    | HFeedback => HCont st
    | HBindRemaining =>
        HCont {| hs := hs st; hstrat := hstrat st; hrem := deadline c - elapsed (hs st); hraw := hraw st; hd := hd st; htr := htr st |}
    | HCallStrategy =>
        match hstrat st with
        | Some (sd, legacy) =>
            let evs := if legacy then EStrat sd true att k None (prev (hs st)) None None
                       else EStrat sd false att k (cl_ra cl) (prev (hs st)) (Some (hrem st)) (Some cs) in
            HCont {| hs := hs st; hstrat := hstrat st; hrem := hrem st; hraw := strat e i; hd := hd st; htr := htr st ++ [evs] |}
        | None => HCont st
        end
    | HSanitize =>
        HCont {| hs := hs st; hstrat := hstrat st; hrem := hrem st; hraw := hraw st; hd := sanitize (hraw st) (hrem st); htr := htr st |}
    | HSetPrev => HCont (with_rst st (set_prev (hs st) (Some (hd st))))
    | HIf x0 body =>
        let '(b, st') := ceval st x0 in
        if b then
          (fix go (l : list hstmt) (st : hstate) {struct l} : hres :=
             match l with
             | [] => HCont st
             | y :: r => match hstep y st with HCont st2 => go r st2 | d => d end
             end) body st'
        else HCont st'
    | HStop r n =>
        let '(s', tr) := emit m c e (set_last_stop (hs st) (Some r)) n att 0 (Some k) (cause_eqb cs CExc) (Some r) (Some cs) None in
        HDone DecRaise s' (htr st ++ tr)
    | HRetry =>
        let '(s', tr) := emit m c e (hs st) N_RETRY att (hd st) (Some k) (cause_eqb cs CExc) None (Some cs) (cl_ra cl) in
        HDone (DecRetry (hd st)) s' (htr st ++ tr)
    end.

  Fixpoint hexec (p : list hstmt) (st : hstate) : hres :=
    match p with
    | [] => HCont st
    | x :: r => match hstep x st with HCont st' => hexec r st' | d => d end
    end.

  Definition hrun (p : list hstmt) (s : rst) : option (decision * rst * list ev) :=
    match hexec p {| hs := s; hstrat := None; hrem := 0; hraw := SFin 0; hd := 0; htr := [] |} with
    | HDone d s' tr => Some (d, s', tr)
    | HCont _ => None
    end.
End Sem.
