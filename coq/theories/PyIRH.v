(** PyIRH.v — deep embedding of the Python fragment in which redress/circuit.py (CircuitBreaker) is written, with a heap
    of deques (a deque stored in a dictionary is aliased by a local variable in [_note_failure], so deques are references),
    and its interpreter.  harness/pyir_circuit.py regenerates the methods of CircuitBreaker as [stmt] terms from /repo's
    source on every run; coq/templates/CircuitIRProofs.v.in proves that the translated methods compute the hand-written model
    of Breaker.v.  Same conventions as PyIR.v (fuel is consumed by loop iterations and helper calls only). *)
From Redress Require Import Base Window.
From Coq Require Import String.
Open Scope string_scope.

Inductive val :=
| VI (z : Z) | VB (b : bool) | VN
| VC (c : string)                         (* an enum member / event name / error class, by name *)
| VRef (r : nat)                          (* a deque, by reference into the heap *)
| VDict (d : list (string * val))         (* a dict keyed by enum members *)
| VSet (l : list string)                  (* a set of enum members *)
| VRec (fs : list val).                   (* _BreakerDecision(...) *)

Inductive binop := OAdd | OSub.
Inductive cmpop := CLe | CLt | CGt | CGe.

Inductive expr :=
| EInt (z : Z) | EBool (b : bool) | ENone
| EConst (c : string)                     (* CircuitState.X / EventName.X.value *)
| EVar (x : string)
| EAttr (a : string)                      (* self.<a> *)
| EClock                                  (* self._clock() *)
| ELen (e : expr)
| EHead (e : expr)                        (* e[0] *)
| EBin (o : binop) (a b : expr)
| ECmp (o : cmpop) (a b : expr)
| EAnd (a b : expr)
| EIs (a b : expr) | EIsNot (a b : expr)
| ENotIn (a b : expr)                     (* a not in b (b a set) *)
| EDictGet (d k : expr)                   (* d.get(k) *)
| ERec (fs : list expr)                   (* _BreakerDecision(f1, f2, f3) *)
| EOr (a b : expr)                        (* a or b *)
| EEmptyDict                              (* {} *)
| EDictCopy (e : expr)                    (* dict(e) *)
| ESetLit (cs : list string)              (* {ErrorClass.A, ErrorClass.B} *)
| ESetOf (e : expr)                       (* set(e) *)
| ELock.                                  (* threading.Lock() *)

Inductive stmt :=
| SSkip
| SSeq (a b : stmt)
| SAssign (x : string) (e : expr)
| SSetAttr (a : string) (e : expr)
| SIf (c : expr) (t f : stmt)
| SWhile (c : expr) (body : stmt)
| SNewDeque (x : string)                  (* x = deque() *)
| SDictSet (a : string) (k v : expr)      (* self.<a>[k] = v *)
| SAppend (tgt v : expr)                  (* tgt.append(v) *)
| SPopLeft (tgt : expr)                   (* tgt.popleft() *)
| SClear (tgt : expr)                     (* tgt.clear(): a deque or a dict attribute *)
| SCall (h : string) (args : list expr)   (* self.<h>(args) *)
| SCallAssign (x : string) (h : string) (args : list expr)   (* x = self.<h>(args) *)
| SWithLock (body : stmt)
| SReturn (e : expr)
| SForItems (kx vx : string) (d : expr) (body : stmt)      (* for kx, vx in d.items(): body *)
| SSetUpdateKeys (x : string) (d : expr)                   (* x.update(d.keys()) for a local set x *)
| SAttrNewDeque (a : string)                               (* self.<a> = deque() *)
| SRaise.                                                  (* raise ValueError(...) *)

Definition env := list (string * val).
Fixpoint lookup (x : string) (l : env) : val :=
  match l with [] => VN | (y, v) :: r => if String.eqb x y then v else lookup x r end.
Definition update (x : string) (v : val) (l : env) : env := (x, v) :: l.

Definition heap := list (list Z).
Fixpoint set_nth {A} (n : nat) (x : A) (l : list A) : list A :=
  match l, n with
  | [], _ => []
  | _ :: r, O => x :: r
  | y :: r, S m => y :: set_nth m x r
  end.

Record pst := { attrs : env; locals : env; hp : heap; clock : Z }.

Definition deref (h : heap) (v : val) : option (list Z) :=
  match v with VRef r => nth_error h r | _ => None end.

Definition truthy (h : heap) (v : val) : bool :=
  match v with
  | VI z => negb (Z.eqb z 0) | VB b => b | VN => false | VC _ => true
  | VRef r => match nth_error h r with Some (_ :: _) => true | _ => false end
  | VDict d => match d with [] => false | _ => true end
  | VSet l => match l with [] => false | _ => true end
  | VRec _ => true
  end.

(** `is`: identity.  Constants, None, bools and references are compared; nothing else is ever compared with `is` in circuit.py *)
Definition val_is (a b : val) : bool :=
  match a, b with
  | VN, VN => true
  | VC x, VC y => String.eqb x y
  | VB x, VB y => Bool.eqb x y
  | VRef x, VRef y => Nat.eqb x y
  | _, _ => false
  end.

Fixpoint mem (x : string) (l : list string) : bool :=
  match l with [] => false | y :: r => String.eqb x y || mem x r end.

Fixpoint eval (s : pst) (e : expr) : val :=
  match e with
  | EInt z => VI z
  | EBool b => VB b
  | ENone => VN
  | EConst c => VC c
  | EVar x => lookup x (locals s)
  | EAttr a => lookup a (attrs s)
  | EClock => VI (clock s)
  | ELen e => match deref (hp s) (eval s e) with Some d => VI (zlen d) | None => VN end
  | EHead e => match deref (hp s) (eval s e) with Some (t :: _) => VI t | _ => VN end
  | EBin o a b => match eval s a, eval s b with
                  | VI x, VI y => VI (match o with OAdd => Z.add x y | OSub => Z.sub x y end)
                  | _, _ => VN end
  | ECmp o a b => match eval s a, eval s b with
                  | VI x, VI y => VB (match o with CLe => Z.leb x y | CLt => Z.ltb x y | CGt => Z.ltb y x | CGe => Z.leb y x end)
                  | _, _ => VN end
  | EAnd a b => if truthy (hp s) (eval s a) then eval s b else eval s a
  | EIs a b => VB (val_is (eval s a) (eval s b))
  | EIsNot a b => VB (negb (val_is (eval s a) (eval s b)))
  | ENotIn a b => match eval s a, eval s b with
                  | VC k, VSet l => VB (negb (mem k l))
                  | _, _ => VN end
  | EDictGet d k => match eval s d, eval s k with
                    | VDict l, VC key => lookup key l
                    | _, _ => VN end
  | ERec fs => VRec (map (eval s) fs)
  | EOr a b => if truthy (hp s) (eval s a) then eval s a else eval s b
  | EEmptyDict => VDict []
  | EDictCopy e => match eval s e with VDict l => VDict l | _ => VN end
  | ESetLit cs => VSet cs
  | ESetOf e => match eval s e with VSet l => VSet l | _ => VN end
  | ELock => VN
  end.

Inductive outcome := ONormal (s : pst) | OReturn (s : pst) (v : val) | ORaise (s : pst) | OFuel.

Definition set_attr (s : pst) (a : string) (v : val) : pst :=
  {| attrs := update a v (attrs s); locals := locals s; hp := hp s; clock := clock s |}.
Definition set_local (s : pst) (x : string) (v : val) : pst :=
  {| attrs := attrs s; locals := update x v (locals s); hp := hp s; clock := clock s |}.
Definition set_heap (s : pst) (h : heap) : pst :=
  {| attrs := attrs s; locals := locals s; hp := h; clock := clock s |}.

Definition helpers := list (string * (list string * stmt)).
Fixpoint find_helper (h : string) (l : helpers) : option (list string * stmt) :=
  match l with [] => None | (n, d) :: r => if String.eqb h n then Some d else find_helper h r end.
Fixpoint bind (ps : list string) (vs : list val) : env :=
  match ps, vs with p :: ps', v :: vs' => (p, v) :: bind ps' vs' | _, _ => [] end.

(** for kx, vx in <dict>.items(): body -- [run] is the body *)
Fixpoint for_items (run : pst -> outcome) (kx vx : string) (l : list (string * val)) (s : pst) : outcome :=
  match l with
  | [] => ONormal s
  | (key, v) :: r => match run (set_local (set_local s kx (VC key)) vx v) with
                     | ONormal s' => for_items run kx vx r s'
                     | o => o
                     end
  end.

Section Interp.
  Variable hs : helpers.

  Fixpoint exec (fuel : nat) (c : stmt) (s : pst) {struct fuel} : outcome :=
    let again := match fuel with O => fun _ _ => OFuel | S f => exec f end in
    let call (h : string) (args : list expr) (s : pst) : option (pst * val) + outcome :=
      match find_helper h hs with
      | Some (ps, body) =>
          let callee := {| attrs := attrs s; locals := bind ps (map (eval s) args); hp := hp s; clock := clock s |} in
          match again body callee with
          | ONormal s' => inl (Some ({| attrs := attrs s'; locals := locals s; hp := hp s'; clock := clock s |}, VN))
          | OReturn s' v => inl (Some ({| attrs := attrs s'; locals := locals s; hp := hp s'; clock := clock s |}, v))
          | ORaise s' => inr (ORaise {| attrs := attrs s'; locals := locals s; hp := hp s'; clock := clock s |})
          | OFuel => inr OFuel
          end
      | None => inr (ORaise s)
      end in
    (fix go (c : stmt) (s : pst) {struct c} : outcome :=
       match c with
       | SSkip => ONormal s
       | SSeq a b => match go a s with ONormal s' => go b s' | o => o end
       | SAssign x e => ONormal (set_local s x (eval s e))
       | SSetAttr a e => ONormal (set_attr s a (eval s e))
       | SIf c t e => if truthy (hp s) (eval s c) then go t s else go e s
       | SWhile cnd body =>
           if truthy (hp s) (eval s cnd)
           then match go body s with ONormal s' => again (SWhile cnd body) s' | o => o end
           else ONormal s
       | SNewDeque x => ONormal (set_local (set_heap s (hp s ++ [[]])%list) x (VRef (List.length (hp s))))
       | SDictSet a k v =>
           match lookup a (attrs s), eval s k with
           | VDict d, VC key => ONormal (set_attr s a (VDict (update key (eval s v) d)))
           | _, _ => ORaise s
           end
       | SAppend tgt v =>
           match eval s tgt, eval s v with
           | VRef r, VI t => match nth_error (hp s) r with
                             | Some d => ONormal (set_heap s (set_nth r (d ++ [t])%list (hp s)))
                             | None => ORaise s end
           | _, _ => ORaise s
           end
       | SPopLeft tgt =>
           match eval s tgt with
           | VRef r => match nth_error (hp s) r with
                       | Some (_ :: d) => ONormal (set_heap s (set_nth r d (hp s)))
                       | _ => ORaise s end
           | _ => ORaise s
           end
       | SClear tgt =>
           match tgt, eval s tgt with
           | _, VRef r => match nth_error (hp s) r with
                          | Some _ => ONormal (set_heap s (set_nth r [] (hp s)))
                          | None => ORaise s end
           | EAttr a, VDict _ => ONormal (set_attr s a (VDict []))
           | _, _ => ORaise s
           end
       | SCall h args => match call h args s with
                         | inl (Some (s', _)) => ONormal s'
                         | inl None => ORaise s
                         | inr o => o end
       | SCallAssign x h args => match call h args s with
                                 | inl (Some (s', v)) => ONormal (set_local s' x v)
                                 | inl None => ORaise s
                                 | inr o => o end
       | SWithLock body => go body s
       | SReturn e => OReturn s (eval s e)
       | SForItems kx vx d body =>
           match eval s d with
           | VDict l => for_items (go body) kx vx l s
           | _ => ORaise s
           end
       | SSetUpdateKeys x d =>
           match lookup x (locals s), eval s d with
           | VSet l, VDict kv => ONormal (set_local s x (VSet (l ++ map fst kv)%list))
           | _, _ => ORaise s
           end
       | SAttrNewDeque a => ONormal (set_attr (set_heap s (hp s ++ [[]])%list) a (VRef (List.length (hp s))))
       | SRaise => ORaise s
       end) c s.
End Interp.
