(** PyIRL.v — the fragment of Python in which the body of the retry loop is written (redress/policy/runner/sync_core.py:
    _run_sync_call and _run_sync_execute; async_core.py must be the same text up to `await`): abort polls, the invocation of
    the operation inside try / except with its ordered handlers, result classification, the failure blocks (handle the
    failure, poll abort again, run the sleep protocol, turn the attempt outcome into a loop action) and the way every exit of
    the loop is delivered to the caller (return value, re-raise, RetryExhaustedError, AbortRetryError, RetryOutcome).
    harness/pyir_loop.py regenerates both loop bodies as token lists from /repo's source on every run (fail-closed);
    coq/templates/LoopIRProofs.v.in proves that one execution of the translated body is Runner.iter followed by
    Runner.deliver, for every configuration, environment, attempt index and state.  The meaning of the tokens is fixed here in
    terms of the operations of Runner.v (check_abort, handle_failure, backoff, emit, emit_aborted_once, build_outcome);
    handle_failure and backoff are themselves tied to the source by PyIRF / PyIRS.  Attempt hooks are no-ops here (Runner.v has
    no event for them; their faults are the subject of the C08 / C15 sweeps). *)
From Redress Require Import Base Window Budget Runner.

(** exceptions in flight *)
Inductive lexn :=
| XAbort                                  (* AbortRetryError *)
| XCancel (k : cancel_kind)               (* raised by the operation *)
| XSleepCancel (k : cancel_kind)          (* raised by before_sleep / the sleeper *)
| XNested                                 (* RetryExhaustedError raised by the operation *)
| XOp (cl : classif)                      (* an ordinary Exception raised by the operation *)
| XExhausted (r : stop) (attempts : Z) (lc : option klass) (lexc lres : option Z) (next : option Z).  (* RetryExhaustedError built here *)

Inductive lhandler := HAbortRetry | HCancelled | HKbdSysExit | HRetryExhausted | HException.

Definition cancel_matches (h : lhandler) (k : cancel_kind) : bool :=
  match h, k with
  | HCancelled, KCancelled => true
  | HKbdSysExit, KKeyboard | HKbdSysExit, KSysExit => true
  | _, _ => false                                         (* GeneratorExit: a BaseException no handler names *)
  end.
Definition lmatch (h : lhandler) (x : lexn) : bool :=
  match x with
  | XCancel k | XSleepCancel k => cancel_matches h k
  | XAbort => match h with HAbortRetry | HException => true | _ => false end
  | XNested | XExhausted _ _ _ _ _ _ => match h with HRetryExhausted | HException => true | _ => false end
  | XOp _ => match h with HException => true | _ => false end
  end.

(** LoopAction of logic.py *)
Inductive laction :=
| AcContinue | AcAbort | AcRaise
| AcScheduled (r : stop) (attempts : Z) (lc : option klass) (lexc lres : option Z) (next : option Z).

(** _AttemptOutcome as far as the loop looks at it *)
Inductive lout := OutRaiseLast (r : option stop) | OutEnd (ae : attempt_end).

Inductive ltok :=
| LNewAttemptState            (* attempt_state = AttemptState() *)
| LCheckAbort (prev : bool)   (* state.check_abort(attempt - 1) / state.check_abort(attempt) *)
| LAttemptStart               (* _call_attempt_start(attempt_start_hook, state=state, attempt=attempt) *)
| LMarkStarted                (* attempt_state.started = True *)
| LSetAttempts                (* attempts = attempt *)
| LCallOp                     (* result = func()  |  _call_with_timeout(func, attempt_timeout_s)  (await ... in async_core) *)
| LTry (body handlers : list ltok)     (* handlers: LExcept tokens, in source order *)
| LExcept (h : lhandler) (body : list ltok)
| LClassifyResult             (* needs_retry, classification = should_classify_result(policy, result) *)
| LIfSuccess (body : list ltok)        (* if not needs_retry: *)
| LSuccessEnd                 (* _handle_success_attempt_end(attempt_end_hook, state, attempt, result) *)
| LReturnResult               (* return result *)
| LReturnOkOutcome            (* return _build_outcome(ok=True, value=result, state=state, attempts=attempts, timeline=timeline) *)
| LAssertClassified           (* assert classification is not None *)
| LNoteResult                 (* attempt_state.classification = classification / attempt_state.result = result *)
| LSetCause (cs : cause)      (* attempt_state.cause = "exception" | "result" *)
| LHandleException            (* decision = state.handle_exception(exc, attempt) *)
| LHandleResult               (* decision = state.handle_result(result, classification, attempt) *)
| LNoteClassification         (* attempt_state.classification = state.last_classification *)
| LIfRetry (body : list ltok) (* if decision.action != "raise": *)
| LFailureOutcome (cs : cause)(* outcome = _sync_failure_outcome(..., exception=exc|None, result=None|result, cause=attempt_state.cause, ...) *)
| LAttemptEnd                 (* _call_attempt_end_from_outcome(attempt_end_hook, state=state, attempt=attempt, outcome=outcome) *)
| LMarkEnd                    (* attempt_state.end_called = True *)
| LDetermine (for_result : bool)       (* action = determine_action_from_outcome(outcome, state, attempt[, for_result=True]) *)
| LIfContinue                 (* if isinstance(action, ContinueAction): continue *)
| LIfAbort (body : list ltok) (* if isinstance(action, AbortAction): *)
| LIfScheduled (body : list ltok)      (* if isinstance(action, ScheduledAction): *)
| LRaiseAbort                 (* raise AbortRetryError() [from None] *)
| LRaiseScheduled             (* raise_scheduled(action) *)
| LReraise                    (* raise *)
| LRaiseExhaustedResult       (* raise RetryExhaustedError(stop_reason=..., attempts=attempt, last_class=..., last_exception=None, last_result=...) *)
| LAbortAttemptEnd            (* _handle_abort_attempt_end(attempt_end_hook, state, attempt, attempt_state, exc) *)
| LAbortInCall                (* handle_abort_in_call(state, attempt) *)
| LReturnAbortOutcome         (* return _abort_outcome(state, attempts, timeline=timeline) *)
| LBindNext                   (* next_sleep_s = outcome.sleep_s if outcome.decision is AttemptDecision.SCHEDULED else None *)
| LReturnStopOutcome.         (* return _build_outcome(ok=False, value=None, state=state, attempts=attempts, next_sleep_s=next_sleep_s, timeline=timeline) *)

Section Sem.
  Variables (m : mode) (c : cfg) (e : env) (i : nat).
  Let att := Z.of_nat i + 1.

  Record lstate := {
    lsr : rst; ltr : list ev; lattempts : Z;
    lval : option (option classif);          (* the operation returned; what the result classifier says about the value *)
    lneeds : option classif;                 (* classification from should_classify_result *)
    lcl : option classif; lcause : option cause;
    ldec : option decision; lo : option lout; lact : option laction; lnext : option Z;
    lexc_ : option lexn }.                   (* the exception being handled *)

  Inductive lres := LNext (st : lstate) | LContinue (st : lstate) | LReturn (d : delivery) (st : lstate)
                  | LRaise (x : lexn) (st : lstate) | LStuck.

  Definition upd (st : lstate) (s : rst) (tr : list ev) : lstate :=
    {| lsr := s; ltr := ltr st ++ tr; lattempts := lattempts st; lval := lval st; lneeds := lneeds st; lcl := lcl st;
       lcause := lcause st; ldec := ldec st; lo := lo st; lact := lact st; lnext := lnext st; lexc_ := lexc_ st |}.
  Definition set_exc (st : lstate) (x : option lexn) : lstate :=
    {| lsr := lsr st; ltr := ltr st; lattempts := lattempts st; lval := lval st; lneeds := lneeds st; lcl := lcl st;
       lcause := lcause st; ldec := ldec st; lo := lo st; lact := lact st; lnext := lnext st; lexc_ := x |}.
  Definition set_dec (st : lstate) (s : rst) (tr : list ev) (cl : classif) (d : decision) : lstate :=
    {| lsr := s; ltr := ltr st ++ tr; lattempts := lattempts st; lval := lval st; lneeds := lneeds st; lcl := Some cl;
       lcause := lcause st; ldec := Some d; lo := lo st; lact := lact st; lnext := lnext st; lexc_ := lexc_ st |}.
  Definition set_out (st : lstate) (s : rst) (tr : list ev) (o : lout) : lstate :=
    {| lsr := s; ltr := ltr st ++ tr; lattempts := lattempts st; lval := lval st; lneeds := lneeds st; lcl := lcl st;
       lcause := lcause st; ldec := ldec st; lo := Some o; lact := lact st; lnext := lnext st; lexc_ := lexc_ st |}.
  Definition set_act (st : lstate) (a : laction) : lstate :=
    {| lsr := lsr st; ltr := ltr st; lattempts := lattempts st; lval := lval st; lneeds := lneeds st; lcl := lcl st;
       lcause := lcause st; ldec := ldec st; lo := lo st; lact := Some a; lnext := lnext st; lexc_ := lexc_ st |}.

  Definition stop_or (a b : option stop) (d : stop) : stop :=
    match a with Some r => r | None => match b with Some r => r | None => d end end.

  (** determine_action_from_outcome (logic.py) *)
  Definition determine (for_result : bool) (s : rst) (o : lout) : laction :=
    let raise_of (r : option stop) :=
      if for_result then AcScheduled (stop_or r (last_stop s) S_GLOBAL) att (last_class s) None (last_res s) None else AcRaise in
    match o with
    | OutEnd AContinue => AcContinue
    | OutEnd AAborted => AcAbort
    | OutEnd (AScheduled d) =>
        AcScheduled S_SCHED att (last_class s) (if for_result then None else last_exc s)
                    (if for_result then last_res s else None) (Some d)
    | OutEnd (ARaise r) => raise_of (Some r)
    | OutEnd (ASleepCancel _) => AcRaise
    | OutRaiseLast r => raise_of r
    end.

  Definition call_op (st : lstate) : lres :=
    let '(o, dur) := op e i in
    let s := lsr st in
    let st1 := upd st (set_now s (now s + dur)) [EInvoke att (now s)] in
    match o with
    | OValue rc =>
        LNext {| lsr := lsr st1; ltr := ltr st1; lattempts := lattempts st1; lval := Some rc; lneeds := lneeds st1; lcl := lcl st1;
                 lcause := lcause st1; ldec := ldec st1; lo := lo st1; lact := lact st1; lnext := lnext st1; lexc_ := lexc_ st1 |}
    | ORaise cl => LRaise (XOp cl) st1
    | OAbort => LRaise XAbort st1
    | OCancel k => LRaise (XCancel k) st1
    | ONested => LRaise XNested st1
    end.

  Definition failure_outcome (cs : cause) (st : lstate) : lres :=
    match lcause st, ldec st, lcl st with
    | Some cs', Some dec, Some cl =>
        if negb (cause_eqb cs cs') then LStuck else
        match dec with
        | DecRaise => LNext (set_out st (lsr st) [] (OutRaiseLast (last_stop (lsr st))))
        | DecRetry d =>
            let '(ae, s', tr) := backoff m c e i att d (cl_k cl) cs (lsr st) in
            match ae with
            | ASleepCancel kk => LRaise (XSleepCancel kk) (upd st s' tr)
            | _ => LNext (set_out st s' tr (OutEnd ae))
            end
        end
    | _, _, _ => LStuck
    end.

  Definition abort_outcome (st : lstate) : lres :=
    let '(s', tr) := emit_aborted_once m c e (lsr st) (lattempts st) in
    LReturn (DOutcome (build_outcome m c false None s' (lattempts st) None)) (upd st s' tr).

  Fixpoint lstep (x : ltok) (st : lstate) {struct x} : lres :=
    match x with
    | LNewAttemptState | LAttemptStart | LMarkStarted | LAssertClassified | LNoteResult | LNoteClassification | LAttemptEnd
    | LMarkEnd | LAbortAttemptEnd => LNext st
    | LCheckAbort prev =>
        let '(a, s', tr) := check_abort m c e (lsr st) (if prev then att - 1 else att) in
        if a then LRaise XAbort (upd st s' tr) else LNext (upd st s' tr)
    | LSetAttempts =>
        LNext {| lsr := lsr st; ltr := ltr st; lattempts := att; lval := lval st; lneeds := lneeds st; lcl := lcl st;
                 lcause := lcause st; ldec := ldec st; lo := lo st; lact := lact st; lnext := lnext st; lexc_ := lexc_ st |}
    | LCallOp => call_op st
    | LTry body hs =>
        match (fix go (l : list ltok) (st : lstate) {struct l} : lres :=
                 match l with [] => LNext st | y :: r => match lstep y st with LNext st2 => go r st2 | o => o end end) body st with
        | LRaise ex st1 =>
            (fix find (l : list ltok) : lres :=
               match l with
               | LExcept h b :: r =>
                   if lmatch h ex
                   then match (fix go (l : list ltok) (st : lstate) {struct l} : lres :=
                                 match l with [] => LNext st | y :: r => match lstep y st with LNext st2 => go r st2 | o => o end end)
                                b (set_exc st1 (Some ex)) with
                        | LNext st2 => LNext (set_exc st2 (lexc_ st1))
                        | o => o
                        end
                   else find r
               | _ :: _ => LStuck
               | [] => LRaise ex st1
               end) hs
        | o => o
        end
    | LExcept _ _ => LStuck
    | LClassifyResult =>
        match lval st with
        | Some rc =>
            let st1 := upd st (lsr st) (if has_rc c then [ERClassify att] else []) in
            LNext {| lsr := lsr st1; ltr := ltr st1; lattempts := lattempts st1; lval := lval st1;
                     lneeds := if has_rc c then rc else None; lcl := lcl st1; lcause := lcause st1; ldec := ldec st1; lo := lo st1;
                     lact := lact st1; lnext := lnext st1; lexc_ := lexc_ st1 |}
        | None => LStuck
        end
    | LIfSuccess body =>
        match lneeds st with
        | None => (fix go (l : list ltok) (st : lstate) {struct l} : lres :=
                     match l with [] => LNext st | y :: r => match lstep y st with LNext st2 => go r st2 | o => o end end) body st
        | Some _ => LNext st
        end
    | LSuccessEnd =>
        let '(s', tr) := emit m c e (lsr st) N_SUCCESS att 0 None false None None None in LNext (upd st s' tr)
    | LReturnResult => LReturn (DReturn att) st
    | LReturnOkOutcome => LReturn (DOutcome (build_outcome m c true (Some att) (lsr st) (lattempts st) None)) st
    | LSetCause cs =>
        LNext {| lsr := lsr st; ltr := ltr st; lattempts := lattempts st; lval := lval st; lneeds := lneeds st; lcl := lcl st;
                 lcause := Some cs; ldec := ldec st; lo := lo st; lact := lact st; lnext := lnext st; lexc_ := lexc_ st |}
    | LHandleException =>
        match lexc_ st with
        | Some (XOp cl) =>
            let '(dec, s', tr) := handle_failure m c e i att cl CExc (lsr st) in
            LNext (set_dec st s' (EClassify att :: tr) cl dec)
        | _ => LStuck
        end
    | LHandleResult =>
        match lneeds st with
        | Some cl =>
            let '(dec, s', tr) := handle_failure m c e i att cl CRes (lsr st) in LNext (set_dec st s' tr cl dec)
        | None => LStuck
        end
    | LIfRetry body =>
        match ldec st with
        | Some (DecRetry _) =>
            (fix go (l : list ltok) (st : lstate) {struct l} : lres :=
               match l with [] => LNext st | y :: r => match lstep y st with LNext st2 => go r st2 | o => o end end) body st
        | Some DecRaise => LNext st
        | None => LStuck
        end
    | LFailureOutcome cs => failure_outcome cs st
    | LDetermine for_result =>
        match lo st with Some o => LNext (set_act st (determine for_result (lsr st) o)) | None => LStuck end
    | LIfContinue => match lact st with Some AcContinue => LContinue st | Some _ => LNext st | None => LStuck end
    | LIfAbort body =>
        match lact st with
        | Some AcAbort =>
            (fix go (l : list ltok) (st : lstate) {struct l} : lres :=
               match l with [] => LNext st | y :: r => match lstep y st with LNext st2 => go r st2 | o => o end end) body st
        | Some _ => LNext st
        | None => LStuck
        end
    | LIfScheduled body =>
        match lact st with
        | Some (AcScheduled _ _ _ _ _ _) =>
            (fix go (l : list ltok) (st : lstate) {struct l} : lres :=
               match l with [] => LNext st | y :: r => match lstep y st with LNext st2 => go r st2 | o => o end end) body st
        | Some _ => LNext st
        | None => LStuck
        end
    | LRaiseAbort => LRaise XAbort st
    | LRaiseScheduled =>
        match lact st with Some (AcScheduled r a lc le lr nx) => LRaise (XExhausted r a lc le lr nx) st | _ => LStuck end
    | LReraise => match lexc_ st with Some x => LRaise x st | None => LStuck end
    | LRaiseExhaustedResult =>
        let s := lsr st in
        let r := match lact st with Some (AcScheduled r _ _ _ _ _) => r | _ => stop_or (last_stop s) None S_GLOBAL end in
        LRaise (XExhausted r att (last_class s) None (last_res s) None) st
    | LAbortInCall => let '(s', tr) := emit_aborted_once m c e (lsr st) att in LNext (upd st s' tr)
    | LReturnAbortOutcome => abort_outcome st
    | LBindNext =>
        match lo st with
        | Some o =>
            LNext {| lsr := lsr st; ltr := ltr st; lattempts := lattempts st; lval := lval st; lneeds := lneeds st; lcl := lcl st;
                     lcause := lcause st; ldec := ldec st; lo := lo st; lact := lact st;
                     lnext := match o with OutEnd (AScheduled d) => Some d | _ => None end; lexc_ := lexc_ st |}
        | None => LStuck
        end
    | LReturnStopOutcome => LReturn (DOutcome (build_outcome m c false None (lsr st) (lattempts st) (lnext st))) st
    end.

  Fixpoint lrun (p : list ltok) (st : lstate) : lres :=
    match p with [] => LNext st | x :: r => match lstep x st with LNext st' => lrun r st' | o => o end end.

  (** an exception that leaves the function *)
  Definition deliver_exn (x : lexn) : delivery :=
    match x with
    | XAbort => DAbort
    | XCancel k => DCancel k att
    | XSleepCancel k => DCancelSleep k att
    | XNested => DNested att
    | XOp _ => DRaiseOp att
    | XExhausted r a lc le lr nx => DExhausted r a lc le lr nx
    end.

  (** one execution of the loop body from run state [s]; `attempts` holds the previous attempt's number on entry *)
  Definition liter (body : list ltok) (s : rst) : option ((rst + delivery) * rst * list ev) :=
    match lrun body {| lsr := s; ltr := []; lattempts := att - 1; lval := None; lneeds := None; lcl := None; lcause := None;
                       ldec := None; lo := None; lact := None; lnext := None; lexc_ := None |} with
    | LNext st | LContinue st => Some (inl (lsr st), lsr st, ltr st)
    | LReturn d st => Some (inr d, lsr st, ltr st)
    | LRaise x st => Some (inr (deliver_exn x), lsr st, ltr st)
    | LStuck => None
    end.

  (** what Runner.v says about the same iteration *)
  Definition iter_result (s : rst) : (rst + delivery) * rst * list ev :=
    match iter m c e i s with
    | (inl s1, s', tr) => (inl s1, s', tr)
    | (inr f, s', tr) => (inr (deliver m c s' f), s', tr)
    end.
End Sem.
