(** PyIRP.v — the fragment of Python in which the policy wrappers are written (redress/policy/policy.py: Policy.call,
    Policy.execute, _call_without_retry, _handle_abort_call, _handle_exhausted_call, _handle_exception_call,
    _execute_with_retry, _execute_without_retry; policy/async_policy.py: the async twins, which add `except
    asyncio.CancelledError` clauses): the pre-flight abort poll, breaker admission, the inner run inside try / except / finally
    with ordered handlers, and the report made to the breaker on every exit (C07 policy level, C08, C09, C11, C12, C14).
    harness/pyir_policy.py regenerates the four entry points as token lists from /repo's source on every run (fail-closed; the
    helper methods are inlined as blocks); coq/templates/PolicyIRProofs.v.in proves that executing the translated entry point is
    Policy.policy_call — same delivery, same trace (admission, inner events, exactly the record Policy.settle_of names), same
    clock, budget and breaker state — for every configuration, environment, breaker state and start time.  The meaning of the
    tokens is fixed here with the operations of Policy.v / Breaker.v / Runner.v; the helpers of policy/execution.py
    (record_success / record_failure / record_cancel with the `settled` flag, settle_if_unsettled, check_breaker,
    emit_admission_event, classify_for_breaker, check_abort_no_retry, the outcome builders) are pinned by digest and read as
    the definitions below.  Attempt hooks are no-ops; a raising hook is the subject of the C08 fault sweep. *)
From Redress Require Import Base Window Budget Breaker Runner Policy.

(** the kind of the exception in flight (the delivery it stands for travels with it) *)
Inductive pkind :=
| KAbort                          (* AbortRetryError *)
| KCancel (k : cancel_kind)       (* CancelledError / KeyboardInterrupt / SystemExit / GeneratorExit *)
| KExhausted (lc : option klass)  (* RetryExhaustedError with that last_class *)
| KCOE                            (* CircuitOpenError raised by the operation (a nested breaker) *)
| KExc (a : Z)                    (* the ordinary exception of attempt a *)
| KRuntime.                       (* RuntimeError of the retry loop's fall-through *)

Inductive phandler := PHKbdSysExit | PHCancelled | PHAbortRetry | PHRetryExhausted | PHException | PHBaseException.
Definition pmatch (h : phandler) (k : pkind) : bool :=
  match h, k with
  | PHBaseException, _ => true
  | PHKbdSysExit, KCancel KKeyboard | PHKbdSysExit, KCancel KSysExit => true
  | PHCancelled, KCancel KCancelled => true
  | PHAbortRetry, KAbort => true
  | PHRetryExhausted, KExhausted _ => true
  | PHException, KCancel _ => false
  | PHException, _ => true
  | _, _ => false
  end.

Inductive ptok :=
| PCreateCtx                      (* ctx = ExecutionContext.create(self.circuit_breaker, on_metric, on_log, operation) *)
| PIfNoRetryAbort (body : list ptok)   (* if self.retry is None and check_abort_no_retry(ctx, abort_if): *)
| PRaiseAbort                     (* raise AbortRetryError() *)
| PReturnAbortedOutcome (n : Z)   (* return build_aborted_outcome(ctx[, attempts=1]) *)
| PCheckBreaker                   (* check_breaker(ctx) *)
| PIfBreaker (body : list ptok)   (* if ctx.breaker is not None: *)
| PAllow                          (* decision = ctx.breaker.allow(); emit_admission_event(ctx, decision) *)
| PIfNotAllowed (body : list ptok)     (* if not decision.allowed: *)
| PReturnOpenOutcome              (* return build_circuit_open_outcome(ctx, decision.state.value) *)
| PIfRetry (body : list ptok)     (* if self.retry is not None: *)
| PBlock (body : list ptok)       (* a helper method, inlined; PReturnNone leaves it *)
| PReturnBlock (body : list ptok) (* return self._execute_with_retry(...) / self._execute_without_retry(...), inlined *)
| PReturnNone                     (* return *)
| PTry (body handlers final : list ptok)
| PExcept (h : phandler) (body : list ptok)
| PInnerCall                      (* result = self._call_without_retry(...) if self.retry is None else self.retry.call(...) *)
| PInnerExecute                   (* outcome = retry.execute(...) *)
| PInnerOp                        (* [on_start hook;] result = func() *)
| PHook                           (* if on_end is not None: on_end(make_attempt_context(...))   (no-op) *)
| PRecordSuccess | PRecordCancel
| PRecordFailureLastClass         (* record_failure(ctx, exc.last_class or ErrorClass.UNKNOWN) *)
| PRecordFailureKlass             (* record_failure(ctx, klass) *)
| PClassify (with_retry : bool)   (* klass = classify_for_breaker(exc, self.retry) / classify_for_breaker(exc, None) *)
| PIfCOE (body : list ptok)       (* if isinstance(exc, CircuitOpenError): *)
| PSettleIfUnsettled              (* settle_if_unsettled(ctx) *)
| PReraise                        (* raise *)
| PReturnResult                   (* return result / return outcome *)
| POutcomeDispatch (ok_b abort_b else_b : list ptok)  (* if outcome.ok: ... elif outcome.stop_reason == StopReason.ABORTED: ... else: ... *)
| PRecordFailureOutcomeClass      (* klass = outcome.last_class or ErrorClass.UNKNOWN; record_failure(ctx, klass) *)
| PReturnExceptionOutcome         (* return build_exception_outcome_no_retry(ctx, exc, klass) *)
| PReturnSuccessOutcome.          (* return build_success_outcome_no_retry(ctx, result) *)

Section Sem.
  Variables (kco : option kcfg) (x : pcall) (start : Z) (b : list Z).
  Let c := pc_cfg x.
  Let e := pc_env x.
  Let m := pc_mode x.

  Record pstate := {
    qks : kst; qsettled : bool; qtr : list pev; qnow : Z; qb : list Z;
    qres : option delivery;                  (* what the inner call returned: DReturn a / DOutcome o *)
    qdec : option (bool * cstate);           (* the admission decision *)
    qklass : option klass;
    qexn : option (pdel * pkind) }.          (* the exception being handled *)

  Inductive pres := QNext (st : pstate) | QReturn (d : pdel) (st : pstate) | QRaise (d : pdel) (k : pkind) (st : pstate)
                  | QLeave (st : pstate)     (* `return` inside an inlined helper *)
                  | QStuck.

  Definition with_ks (st : pstate) (ks : kst) (settled : bool) (tr : list pev) : pstate :=
    {| qks := ks; qsettled := settled; qtr := qtr st ++ tr; qnow := qnow st; qb := qb st; qres := qres st; qdec := qdec st;
       qklass := qklass st; qexn := qexn st |}.
  Definition set_qexn (st : pstate) (v : option (pdel * pkind)) : pstate :=
    {| qks := qks st; qsettled := qsettled st; qtr := qtr st; qnow := qnow st; qb := qb st; qres := qres st; qdec := qdec st;
       qklass := qklass st; qexn := v |}.
  Definition set_qklass (st : pstate) (tr : list pev) (k : klass) : pstate :=
    {| qks := qks st; qsettled := qsettled st; qtr := qtr st ++ tr; qnow := qnow st; qb := qb st; qres := qres st; qdec := qdec st;
       qklass := Some k; qexn := qexn st |}.

  (** execution.py: record_success / record_failure / record_cancel — nothing without a breaker; otherwise mark the context
      settled, tell the breaker, emit the event it returns with the breaker's state afterwards *)
  Definition settle_with (st : pstate) (s : settle) : pstate :=
    match kco with
    | None => st
    | Some kc => let '(ks', tr) := do_settle kc c (qnow st) s (qks st) in with_ks st ks' true tr
    end.

  (** the inner run of a policy with a retry component *)
  Definition inner_retry (st : pstate) : pres :=
    let '(d, sf, tr) := run m c e start b in
    let st1 := {| qks := qks st; qsettled := qsettled st; qtr := qtr st ++ map PE tr; qnow := now sf; qb := bev sf; qres := qres st;
                  qdec := qdec st; qklass := qklass st; qexn := qexn st |} in
    match d with
    | DReturn _ | DOutcome _ =>
        QNext {| qks := qks st1; qsettled := qsettled st1; qtr := qtr st1; qnow := qnow st1; qb := qb st1; qres := Some d;
                 qdec := qdec st1; qklass := qklass st1; qexn := qexn st1 |}
    | DRaiseOp a => QRaise (PD d) (if pc_coe x (Z.to_nat (a - 1)) then KCOE else KExc a) st1
    | DExhausted _ _ lc _ _ _ => QRaise (PD d) (KExhausted lc) st1
    | DNested _ => QRaise (PD d) (KExhausted (Some nested_class)) st1
    | DAbort => QRaise (PD d) KAbort st1
    | DCancel k _ | DCancelSleep k _ => QRaise (PD d) (KCancel k) st1
    | DRuntimeError => QRaise (PD d) KRuntime st1
    end.

  (** one invocation of the operation by a policy without a retry component *)
  Definition inner_op (st : pstate) : pres :=
    let '(o, dur) := op e 0%nat in
    let st1 := {| qks := qks st; qsettled := qsettled st; qtr := qtr st ++ [PE (EInvoke 1 start)]; qnow := start + dur; qb := qb st;
                  qres := qres st; qdec := qdec st; qklass := qklass st; qexn := qexn st |} in
    match o with
    | OValue _ =>
        QNext {| qks := qks st1; qsettled := qsettled st1; qtr := qtr st1; qnow := qnow st1; qb := qb st1; qres := Some (DReturn 1);
                 qdec := qdec st1; qklass := qklass st1; qexn := qexn st1 |}
    | ORaise _ => QRaise (PD (DRaiseOp 1)) (if pc_coe x 0%nat then KCOE else KExc 1) st1
    | OAbort => QRaise (PD DAbort) KAbort st1
    | OCancel k => QRaise (PD (DCancel k 1)) (KCancel k) st1
    | ONested => QRaise (PD (DNested 1)) (KExhausted (Some nested_class)) st1
    end.

  (** classify_for_breaker: the retry component's classifier (one more classifier call) or default_classifier *)
  Definition classify_exn (with_retry : bool) (st : pstate) : pres :=
    match qexn st with
    | Some (_, KExc a) =>
        QNext (set_qklass st (if with_retry && pc_retry x then [PE (EClassify a)] else []) (op_class e a))
    | Some (_, (KRuntime | KCOE | KExhausted _)) => QNext (set_qklass st [] UNKNOWN)
    | _ => QStuck
    end.

  Definition elapsed_q (st : pstate) : Z := qnow st - start.

  Fixpoint pstep (t : ptok) (st : pstate) {struct t} : pres :=
    match t with
    | PCreateCtx | PHook => QNext st
    | PIfNoRetryAbort body =>
        if negb (pc_retry x) && has_abort c then
          let ans := abort e 0%nat in
          let st1 := with_ks st (qks st) (qsettled st) [PE (EPoll ans)] in
          if ans then
            (fix go (l : list ptok) (st : pstate) {struct l} : pres :=
               match l with [] => QNext st | y :: r => match pstep y st with QNext st2 => go r st2 | o => o end end)
              body (settle_with st1 SCancel)
          else QNext st1
        else QNext st
    | PRaiseAbort => QRaise (PD DAbort) KAbort st
    | PReturnAbortedOutcome n =>
        QReturn (PD (DOutcome (nr_outcome false None (Some S_ABORT) n None None None (elapsed_q st)))) st
    | PCheckBreaker =>
        match kco with
        | None => QNext st
        | Some kc =>
            let '(allowed, ast, ks1, atr) := do_allow kc c start (qks st) in
            let st1 := with_ks st ks1 (qsettled st) atr in
            if allowed then QNext st1 else QReturn (PDOpen ast) st1      (* CircuitOpenError(state): raised before the try *)
        end
    | PIfBreaker body =>
        match kco with
        | None => QNext st
        | Some _ =>
            (fix go (l : list ptok) (st : pstate) {struct l} : pres :=
               match l with [] => QNext st | y :: r => match pstep y st with QNext st2 => go r st2 | o => o end end) body st
        end
    | PAllow =>
        match kco with
        | None => QStuck
        | Some kc =>
            let '(allowed, ast, ks1, atr) := do_allow kc c start (qks st) in
            let st1 := with_ks st ks1 (qsettled st) atr in
            QNext {| qks := qks st1; qsettled := qsettled st1; qtr := qtr st1; qnow := qnow st1; qb := qb st1; qres := qres st1;
                     qdec := Some (allowed, ast); qklass := qklass st1; qexn := qexn st1 |}
        end
    | PIfNotAllowed body =>
        match qdec st with
        | Some (false, _) =>
            (fix go (l : list ptok) (st : pstate) {struct l} : pres :=
               match l with [] => QNext st | y :: r => match pstep y st with QNext st2 => go r st2 | o => o end end) body st
        | Some (true, _) => QNext st
        | None => QStuck
        end
    | PReturnOpenOutcome => match qdec st with Some (_, ast) => QReturn (PDOutcomeOpen ast) st | None => QStuck end
    | PIfRetry body =>
        if pc_retry x then
          (fix go (l : list ptok) (st : pstate) {struct l} : pres :=
             match l with [] => QNext st | y :: r => match pstep y st with QNext st2 => go r st2 | o => o end end) body st
        else QNext st
    | PBlock body =>
        match (fix go (l : list ptok) (st : pstate) {struct l} : pres :=
                 match l with [] => QNext st | y :: r => match pstep y st with QNext st2 => go r st2 | o => o end end) body st with
        | QLeave st2 => QNext st2
        | o => o
        end
    | PReturnBlock body =>
        match (fix go (l : list ptok) (st : pstate) {struct l} : pres :=
                 match l with [] => QNext st | y :: r => match pstep y st with QNext st2 => go r st2 | o => o end end) body st with
        | QNext _ | QLeave _ => QStuck         (* the inlined method must return a value or raise *)
        | o => o
        end
    | PReturnNone => QLeave st
    | PTry body hs fin =>
        let after :=
          match (fix go (l : list ptok) (st : pstate) {struct l} : pres :=
                   match l with [] => QNext st | y :: r => match pstep y st with QNext st2 => go r st2 | o => o end end) body st with
          | QRaise d k st1 =>
              (fix find (l : list ptok) : pres :=
                 match l with
                 | PExcept h hb :: r =>
                     if pmatch h k
                     then match (fix go (l : list ptok) (st : pstate) {struct l} : pres :=
                                   match l with [] => QNext st | y :: r => match pstep y st with QNext st2 => go r st2 | o => o end end)
                                  hb (set_qexn st1 (Some (d, k))) with
                          | QNext st2 => QNext (set_qexn st2 (qexn st1))
                          | o => o
                          end
                     else find r
                 | _ :: _ => QStuck
                 | [] => QRaise d k st1
                 end) hs
          | o => o
          end in
        (* finally: runs on every exit; its own result only matters when it does not complete normally *)
        let run_fin (st : pstate) : pres :=
          (fix go (l : list ptok) (st : pstate) {struct l} : pres :=
             match l with [] => QNext st | y :: r => match pstep y st with QNext st2 => go r st2 | o => o end end) fin st in
        match after with
        | QNext st1 => run_fin st1
        | QReturn d st1 => match run_fin st1 with QNext st2 => QReturn d st2 | o => o end
        | QRaise d k st1 => match run_fin st1 with QNext st2 => QRaise d k st2 | o => o end
        | QLeave st1 => match run_fin st1 with QNext st2 => QLeave st2 | o => o end
        | QStuck => QStuck
        end
    | PExcept _ _ => QStuck
    | PInnerCall => if pc_retry x then inner_retry st else inner_op st
    | PInnerExecute => inner_retry st
    | PInnerOp => inner_op st
    | PRecordSuccess => QNext (settle_with st SSucc)
    | PRecordCancel => QNext (settle_with st SCancel)
    | PRecordFailureLastClass =>
        match qexn st with Some (_, KExhausted lc) => QNext (settle_with st (SFail (or_unknown lc))) | _ => QStuck end
    | PRecordFailureKlass => match qklass st with Some k => QNext (settle_with st (SFail k)) | None => QStuck end
    | PClassify wr => classify_exn wr st
    | PIfCOE body =>
        match qexn st with
        | Some (_, KCOE) =>
            (fix go (l : list ptok) (st : pstate) {struct l} : pres :=
               match l with [] => QNext st | y :: r => match pstep y st with QNext st2 => go r st2 | o => o end end) body st
        | Some _ => QNext st
        | None => QStuck
        end
    | PSettleIfUnsettled => if qsettled st then QNext st else QNext (settle_with st SCancel)
    | PReraise => match qexn st with Some (d, k) => QRaise d k st | None => QStuck end
    | PReturnResult => match qres st with Some d => QReturn (PD d) st | None => QStuck end
    | POutcomeDispatch ok_b abort_b else_b =>
        match qres st with
        | Some (DOutcome o) =>
            (fix go (l : list ptok) (st : pstate) {struct l} : pres :=
               match l with [] => QNext st | y :: r => match pstep y st with QNext st2 => go r st2 | o => o end end)
              (if o_ok o then ok_b else match o_stop o with Some S_ABORT => abort_b | _ => else_b end) st
        | _ => QStuck
        end
    | PRecordFailureOutcomeClass =>
        match qres st with Some (DOutcome o) => QNext (settle_with st (SFail (or_unknown (o_class o)))) | _ => QStuck end
    | PReturnExceptionOutcome =>
        match qklass st with
        | Some k => QReturn (PD (DOutcome (nr_outcome false None None 1 (Some k) (Some 1) (Some CExc) (elapsed_q st)))) st
        | None => QStuck
        end
    | PReturnSuccessOutcome => QReturn (PD (DOutcome (nr_outcome true (Some 1) None 1 None None None (elapsed_q st)))) st
    end.

  Fixpoint prun (p : list ptok) (st : pstate) : pres :=
    match p with [] => QNext st | t :: r => match pstep t st with QNext st' => prun r st' | o => o end end.

  (** one call()/execute() on the policy, breaker in state [ks] *)
  Definition pexec (p : list ptok) (ks : kst) : option (pdel * list pev * Z * list Z * kst) :=
    match prun p {| qks := ks; qsettled := false; qtr := []; qnow := start; qb := b; qres := None; qdec := None; qklass := None;
                    qexn := None |} with
    | QReturn d st | QRaise d _ st => Some (d, qtr st, qnow st, qb st, qks st)
    | _ => None
    end.
End Sem.
