(** PyIRS.v — the fragment of Python in which the sleep protocol of one granted retry is written (redress/policy/
    retry_helpers.py: _sync_sleep_action / _async_sleep_action, _handle_sleep_decision, _finalize_attempt and the glue
    _sync_failure_outcome / _async_failure_outcome): consult the sleep handler, act on its decision, call before_sleep and the
    sleeper, re-check the deadline and the attempt cap after the sleep (C16, and the post-sleep clauses of C02 / C03).
    harness/pyir_sleep.py regenerates the four functions as token lists from /repo's source on every run (fail-closed; the
    async twins must be the sync functions up to `await`); coq/templates/SleepIRProofs.v.in proves that their composition is
    Runner.backoff.  The meaning of the tokens is fixed here with the state operations of Runner.v. *)
From Redress Require Import Base Window Budget Runner.

Inductive scond :=
| CNoHandler                 (* sleep_fn is None *)
| CHasBeforeSleep            (* before_sleep is not None *)
| CCtxMissing                (* ctx is None  (never the case for a granted retry) *)
| CActionIs (a : hdec)       (* action / result / sleep_action is SleepDecision.<a> *)
| CNotAborted                (* state.last_stop_reason is not StopReason.ABORTED *)
| CDecisionRaise             (* decision.action == "raise" *)
| CPastDeadline              (* state.elapsed() > state.policy.deadline *)
| CLastAttempt.              (* attempt == state.policy.max_attempts *)

Inductive sout := ORaiseLast | OScheduled | OAborted | ORaiseStop (r : stop) | ORetry.

Inductive stok :=
| TIf (c : scond) (body : list stok)
| TRaiseError                 (* raise RuntimeError / ValueError (unreachable for well-typed callbacks) *)
| TBeforeSleep                (* _call_before_sleep(before_sleep, ctx, decision.sleep_s) *)
| TSleep                      (* sleep_impl(decision.sleep_s) *)
| TReturnSleep                (* return SleepDecision.SLEEP *)
| TConsult                    (* action = sleep_fn(ctx, decision.sleep_s) *)
| TCallDecision               (* result = _handle_sleep_decision(action, state, attempt, decision) *)
| TReturnAction               (* return action / return result *)
| TSetStop (r : stop)         (* state.last_stop_reason = StopReason.<r> *)
| TEmitScheduled              (* state.emit(SCHEDULED, attempt, decision.sleep_s, last_class, last_exc, stop_reason=SCHEDULED, cause=last_cause) *)
| TEmitAborted                (* state.emit(ABORTED, attempt, 0.0, stop_reason=ABORTED) *)
| TEmitStop (n : evname) (r : stop)   (* state.emit(<n>, attempt, 0.0, state.last_class, exception, stop_reason=<r>, cause=cause) *)
| TOutcome (o : sout).        (* return _AttemptOutcome(decision=..., stop_reason=..., sleep_s=...) *)

Section Sem.
  Variables (m : mode) (c : cfg) (e : env) (i : nat) (att d : Z) (k : klass) (cs : cause).

  Record sstate := { ss : rst; sact : option hdec; strc : list ev; scancel : option cancel_kind; sret : option sout }.
  (** SCont: control goes on with the next statement; SDone: the function has returned, or a cancellation-type exception propagates *)
  Inductive sres := SCont (st : sstate) | SDone (st : sstate).

  Definition upd (st : sstate) (s : rst) (tr : list ev) : sstate :=
    {| ss := s; sact := sact st; strc := strc st ++ tr; scancel := scancel st; sret := sret st |}.

  Definition scev (st : sstate) (x : scond) : bool :=
    match x with
    | CNoHandler => match resolve (handler_p c) (handler_c c) with None => true | Some _ => false end
    | CHasBeforeSleep => match resolve (bs_p c) (bs_c c) with Some _ => true | None => false end
    | CCtxMissing => false
    | CActionIs a => match sact st with Some b => hdec_eqb a b | None => false end
    | CNotAborted => match last_stop (ss st) with Some S_ABORT => false | _ => true end
    | CDecisionRaise => false
    | CPastDeadline => deadline c <? elapsed (ss st)
    | CLastAttempt => att =? max_attempts c
    end.

  (** [decide] is the meaning of the call of _handle_sleep_decision *)
  Fixpoint sstep (decide : sstate -> sres) (x : stok) (st : sstate) {struct x} : sres :=
    match x with
    | TIf x0 body =>
        if scev st x0
        then (fix go (l : list stok) (st : sstate) {struct l} : sres :=
                match l with [] => SCont st | y :: r => match sstep decide y st with SCont st2 => go r st2 | dn => dn end end) body st
        else SCont st
    | TRaiseError => SDone st
    | TBeforeSleep =>
        let '(bc, s1, btr) := before_sleep_ev c e i (ss st) att d in
        match bc with
        | Some kk => SDone {| ss := s1; sact := sact st; strc := strc st ++ btr; scancel := Some kk; sret := sret st |}
        | None => SCont (upd st s1 btr)
        end
    | TSleep =>
        let sl := [ESleep (sleeper_who c) d (now (ss st))] in
        match sleep_cancel e i with
        | Some kk => SDone {| ss := ss st; sact := sact st; strc := strc st ++ sl; scancel := Some kk; sret := sret st |}
        | None => SCont (upd st (set_now (ss st) (now (ss st) + d + over e i)) sl)
        end
    | TReturnSleep => SDone {| ss := ss st; sact := Some HSleep; strc := strc st; scancel := scancel st; sret := sret st |}
    | TConsult =>
        match resolve (handler_p c) (handler_c c) with
        | Some w => SCont {| ss := ss st; sact := Some (handler e i); strc := strc st ++ [EHandler w att k d (handler e i)];
                             scancel := scancel st; sret := sret st |}
        | None => SCont st
        end
    | TCallDecision => match decide st with SCont st' | SDone st' => SCont st' end
    | TReturnAction => SDone st
    | TSetStop r => SCont (upd st (set_last_stop (ss st) (Some r)) [])
    | TEmitScheduled =>
        let '(s2, tr) := emit m c e (ss st) N_SCHEDULED att d (last_class (ss st))
                              (match last_exc (ss st) with Some _ => true | None => false end) (Some S_SCHED) (last_cause (ss st)) None in
        SCont (upd st s2 tr)
    | TEmitAborted =>
        let '(s2, tr) := emit m c e (ss st) N_ABORTED att 0 None false (Some S_ABORT) None None in SCont (upd st s2 tr)
    | TEmitStop n r =>
        let '(s2, tr) := emit m c e (ss st) n att 0 (last_class (ss st)) (cause_eqb cs CExc) (Some r) (Some cs) None in SCont (upd st s2 tr)
    | TOutcome o => SDone {| ss := ss st; sact := sact st; strc := strc st; scancel := scancel st; sret := Some o |}
    end.

  Fixpoint srun (decide : sstate -> sres) (p : list stok) (st : sstate) : sres :=
    match p with [] => SCont st | x :: r => match sstep decide x st with SCont st' => srun decide r st' | dn => dn end end.

  Definition final (r : sres) : sstate := match r with SCont st | SDone st => st end.

  (** _sync_failure_outcome for a granted retry: the sleep action, then _finalize_attempt with its result *)
  Definition finish_outcome (st2 : sstate) : option (attempt_end * rst * list ev) :=
    match sret st2 with
    | Some ORetry => Some (AContinue, ss st2, strc st2)
    | Some (ORaiseStop r) => Some (ARaise r, ss st2, strc st2)
    | Some OScheduled => Some (AScheduled d, ss st2, strc st2)
    | Some OAborted => Some (AAborted, ss st2, strc st2)
    | Some ORaiseLast => match last_stop (ss st2) with Some r => Some (ARaise r, ss st2, strc st2) | None => None end
    | None => None
    end.
  Definition stage2 (finalize : list stok) (st1 : sstate) : option (attempt_end * rst * list ev) :=
    match scancel st1 with
    | Some kk => Some (ASleepCancel kk, ss st1, strc st1)
    | None => finish_outcome (final (srun (fun st => SCont st) finalize st1))
    end.
  Definition outcome_of (decision sleep_action finalize : list stok) (s : rst) : option (attempt_end * rst * list ev) :=
    stage2 finalize (final (srun (srun (fun st => SCont st) decision) sleep_action
                                 {| ss := s; sact := None; strc := []; scancel := None; sret := None |})).
End Sem.
