(** RetryAfter.v — model of the Retry-After handling of redress/extras/http.py:
    _parse_retry_after, _coerce_retry_after, _lookup_header, http_retry_after_classifier.
    Strings are lists of character classes (what Python's int() and str.strip() look at); the
    stdlib HTTP-date parser (email.utils.parsedate_to_datetime + datetime.now) is an ORACLE: its
    answer for the string at hand is an input [date] (None = it raised TypeError/ValueError/IndexError
    or returned None; Some d = seconds from now until that date).
    The model describes the code as repaired by the fix: commit for C20 (float overflow = no hint). *)
From Redress Require Import Base.
From Coq Require Export QArith Qminmax.
Open Scope Z_scope.

Inductive chr := CSpace | CDigit (d : Z) | CPlus | CMinus | CUnder | COther.

Fixpoint lstrip (l : list chr) : list chr := match l with CSpace :: r => lstrip r | _ => l end.
Definition strip (l : list chr) : list chr := rev (lstrip (rev (lstrip l))).

(** Python's int(str): digits (any Unicode decimal digit, by value) with single underscores between
    digits; returns the value and the number of digits *)
Fixpoint digits (l : list chr) (acc : Z) (n : nat) (prev_digit : bool) : option (Z * nat) :=
  match l with
  | [] => if prev_digit then Some (acc, n) else None
  | CDigit d :: r => digits r (acc * 10 + d) (S n) true
  | CUnder :: r => if prev_digit then digits r acc n false else None
  | _ => None
  end.

Definition max_str_digits : Z := 4300.

(** None = ValueError *)
Definition py_int (s : list chr) : option Z :=
  let s := strip s in
  let '(sign, body) := match s with CPlus :: r => (1, r) | CMinus :: r => (-1, r) | _ => (1, s) end in
  match digits body 0 0%nat false with
  | Some (v, n) => if max_str_digits <? Z.of_nat n then None else Some (sign * v)
  | None => None
  end.

(** float(int): round to nearest, ties to even, 53 significant bits; None = OverflowError *)
Definition round53 (n : Z) : Z :=
  if n <? 2 ^ 53 then n else
  let e := Z.log2 n - 52 in
  let q := n / 2 ^ e in
  let r := n mod 2 ^ e in
  let half := 2 ^ (e - 1) in
  let q' := if half <? r then q + 1 else if (r =? half) && Z.odd q then q + 1 else q in
  q' * 2 ^ e.
Definition float_of_int (n : Z) : option Z :=
  let m := round53 (Z.abs n) in
  if 2 ^ 1024 <=? m then None else Some (Z.sgn n * m).

(** _parse_retry_after *)
Definition parse_retry_after (date : option Q) (s : list chr) : option Q :=
  match s with
  | [] => None
  | _ =>
      match strip s with
      | [] => None
      | raw =>
          match py_int raw with
          | Some n => match float_of_int n with
                      | Some f => Some (Qmax 0 (inject_Z f))
                      | None => None
                      end
          | None => match date with Some d => Some (Qmax 0 d) | None => None end
          end
      end
  end.

(** a float attribute value *)
Inductive fval := FFin (q : Q) | FNaN | FPInf | FNInf.
(** the value of exc.retry_after *)
Inductive rattr :=
| RAbsent                                   (* no attribute / None / any other type *)
| RInt (z : Z)                              (* int (bool included) *)
| RFloat (f : fval)
| RStr (s : list chr) (date : option Q).
(** the hint: retry_after_s *)
Inductive hint := HNone | HSome (q : Q) | HInf.

(** one (key, value) pair of a header container *)
Record hitem := {
  h_exact : bool;          (* key == "Retry-After" *)
  h_lower : bool;          (* key == "retry-after" *)
  h_ci : bool;             (* str(key).lower() == "retry-after" *)
  h_none : bool;           (* value is None *)
  h_text : list chr;       (* str(value) *)
  h_date : option Q        (* the date oracle's answer for str(value) *)
}.
Inductive hkind :=
| HKAbsent                    (* headers is None / missing *)
| HKMapping                   (* a Mapping: get(name), get(name.lower()), then case-insensitive scan of items() *)
| HKGetter (has_items : bool) (* an object with a callable get (and maybe items) *)
| HKIterable                  (* an iterable of pairs *)
| HKRaising.                  (* anything whose access raises an ordinary exception *)

Definition find_by (f : hitem -> bool) (l : list hitem) : option hitem := find f l.

(** _lookup_header: the text that will be parsed, with its date oracle *)
Definition lookup_header (k : hkind) (items : list hitem) : option (list chr * option Q) :=
  let scan := match find_by h_ci items with Some i => Some (h_text i, h_date i) | None => None end in
  let by_get :=
    match find_by (fun i => h_exact i && negb (h_none i)) items with
    | Some i => Some (Some (h_text i, h_date i))
    | None => match find_by (fun i => h_lower i && negb (h_none i)) items with
              | Some i => Some (Some (h_text i, h_date i))
              | None => None
              end
    end in
  match k with
  | HKAbsent | HKRaising => None
  | HKMapping => match by_get with Some r => r | None => scan end
  | HKGetter has_items => match by_get with Some r => r | None => if has_items then scan else None end
  | HKIterable => scan
  end.

Definition hint_of (o : option Q) : hint := match o with Some q => HSome q | None => HNone end.

(** _coerce_retry_after *)
Definition coerce_retry_after (direct : rattr) (k : hkind) (items : list hitem) : hint :=
  let from_headers :=
    match lookup_header k items with
    | Some (text, date) => hint_of (parse_retry_after date text)
    | None => HNone
    end in
  match direct with
  | RInt z => match float_of_int z with Some f => HSome (Qmax 0 (inject_Z f)) | None => HNone end
  | RFloat (FFin q) => HSome (Qmax 0 q)
  | RFloat FNaN | RFloat FNInf => HSome 0
  | RFloat FPInf => HInf
  | RStr s d => match parse_retry_after d s with Some q => HSome q | None => from_headers end
  | RAbsent => from_headers
  end.

(** http_retry_after_classifier: a hint only accompanies RATE_LIMIT *)
Definition classifier_hint (k : klass) (direct : rattr) (hk : hkind) (items : list hitem) : hint :=
  if klass_eqb k RATE_LIMIT then coerce_retry_after direct hk items else HNone.

(** ---------------- correspondence cases ---------------- *)
Definition hint_eqb (a b : hint) : bool :=
  match a, b with
  | HNone, HNone | HInf, HInf => true
  | HSome x, HSome y => Qeq_bool x y
  | _, _ => false
  end.
Inductive racase :=
| RAParse (date : option Q) (s : list chr) (obs : hint)
| RACoerce (direct : rattr) (k : hkind) (items : list hitem) (obs : hint)
| RAInt (s : list chr) (obs : option Z)          (* Python's int() itself: Some n / None = ValueError *)
| RABad.
Definition racase_ok (c : racase) : bool :=
  match c with
  | RAParse d s o => hint_eqb (hint_of (parse_retry_after d s)) o
  | RACoerce d k i o => hint_eqb (coerce_retry_after d k i) o
  | RAInt s o => opt_eqb Z.eqb (py_int s) o
  | RABad => false
  end.
