(** RetryAfterProofs.v — Retry-After hints are parsed safely (C20). *)
From Redress Require Import Base RetryAfter Strategies StrategiesProofs.
From Coq Require Import Lqa Lia.
Open Scope Z_scope.

Definition hint_ok (h : hint) : Prop := match h with HSome q => (0 <= q)%Q | _ => True end.

Lemma parse_nonneg date s q : parse_retry_after date s = Some q -> (0 <= q)%Q.
Proof.
  unfold parse_retry_after. destruct s as [|c s]; [discriminate|].
  destruct (strip (c :: s)) as [|c' raw]; [discriminate|].
  destruct (py_int (c' :: raw)) as [n|].
  - destruct (float_of_int n); [|discriminate]. intros H; inversion H. apply Q.le_max_l.
  - destruct date; [|discriminate]. intros H; inversion H. apply Q.le_max_l.
Qed.

(** total and non-negative: for every string and every answer of the date oracle *)
Lemma parse_total date s : hint_ok (hint_of (parse_retry_after date s)).
Proof. destruct (parse_retry_after date s) eqn:E; simpl; [eapply parse_nonneg; eauto|exact I]. Qed.

Lemma coerce_total direct k items : hint_ok (coerce_retry_after direct k items).
Proof.
  unfold coerce_retry_after.
  assert (FH: hint_ok (match lookup_header k items with
                       | Some (text, date) => hint_of (parse_retry_after date text) | None => HNone end)).
  { destruct (lookup_header k items) as [[t d]|]; [apply parse_total|exact I]. }
  destruct direct as [|z|f|s d].
  - exact FH.
  - destruct (float_of_int z); simpl; [apply Q.le_max_l|exact I].
  - destruct f; simpl; try apply Q.le_max_l; try exact I; lra.
  - destruct (parse_retry_after d s) eqn:E; [simpl; eapply parse_nonneg; eauto|exact FH].
Qed.

Lemma classifier_total k direct hk items : hint_ok (classifier_hint k direct hk items).
Proof. unfold classifier_hint. destruct (klass_eqb k RATE_LIMIT); [apply coerce_total|exact I]. Qed.

Lemma round53_small n : 0 <= n < 2 ^ 53 -> round53 n = n.
Proof. intros H. unfold round53. replace (n <? 2 ^ 53) with true by lia. reflexivity. Qed.

(** a decimal integer n (exactly representable: below 2^53) gives n ... *)
Lemma parse_integer date s n :
  s <> [] -> strip s <> [] -> py_int (strip s) = Some n -> 0 <= n < 2 ^ 53 ->
  exists q, parse_retry_after date s = Some q /\ (q == inject_Z n)%Q.
Proof.
  intros NE NS P R. unfold parse_retry_after. destruct s as [|c s]; [congruence|].
  destruct (strip (c :: s)) as [|c' raw] eqn:S; [congruence|].
  rewrite P. unfold float_of_int. rewrite Z.abs_eq by lia. rewrite round53_small by lia.
  replace (2 ^ 1024 <=? n) with false.
  2:{ symmetry. apply Z.leb_gt. assert (2 ^ 53 < 2 ^ 1024) by (apply Z.pow_lt_mono_r; lia). lia. }
  eexists. split; [reflexivity|].
  destruct (Z.eq_dec n 0) as [->|NZ].
  - simpl. apply Q.max_l. unfold inject_Z. lra.
  - rewrite Z.sgn_pos by lia. rewrite Z.mul_1_l. apply Q.max_r.
    unfold Qle, inject_Z. simpl. lia.
Qed.

(** ... and in general the float nearest to it, clamped at 0; None when beyond the float range *)
Lemma parse_integer_general date s n :
  s <> [] -> strip s <> [] -> py_int (strip s) = Some n ->
  parse_retry_after date s =
  match float_of_int n with Some f => Some (Qmax 0 (inject_Z f)) | None => None end.
Proof.
  intros NE NS P. unfold parse_retry_after. destruct s as [|c s]; [congruence|].
  destruct (strip (c :: s)) as [|c' raw] eqn:S; [congruence|]. rewrite P. reflexivity.
Qed.

(** an HTTP-date gives the time until that date clamped at 0; garbage gives no hint *)
Lemma parse_date date s :
  s <> [] -> strip s <> [] -> py_int (strip s) = None ->
  parse_retry_after date s = match date with Some d => Some (Qmax 0 d) | None => None end.
Proof.
  intros NE NS P. unfold parse_retry_after. destruct s as [|c s]; [congruence|].
  destruct (strip (c :: s)) as [|c' raw] eqn:S; [congruence|]. rewrite P. reflexivity.
Qed.

Lemma parse_blank date s : strip s = [] -> parse_retry_after date s = None.
Proof. intros B. unfold parse_retry_after. destruct s; [reflexivity|]. rewrite B. reflexivity. Qed.

(** the attribute wins over the headers; failures of the attribute fall back to the headers *)
Lemma coerce_attribute_first k items :
  (forall z f, float_of_int z = Some f -> coerce_retry_after (RInt z) k items = HSome (Qmax 0 (inject_Z f))) /\
  (forall q, coerce_retry_after (RFloat (FFin q)) k items = HSome (Qmax 0 q)) /\
  (forall s d q, parse_retry_after d s = Some q -> coerce_retry_after (RStr s d) k items = HSome q) /\
  (forall s d, parse_retry_after d s = None -> coerce_retry_after (RStr s d) k items = coerce_retry_after RAbsent k items).
Proof.
  unfold coerce_retry_after. repeat split; intros.
  - rewrite H. reflexivity.
  - rewrite H. reflexivity.
  - rewrite H. reflexivity.
Qed.

(** honoured exactly: with retry_after_or and a finite hint h, the delay the retry loop applies
    (strategy output clamped once more at the remaining time) is at least min(h, remaining) and at
    most h + jitter_s *)
Lemma hint_honoured h jitter fallback rem r :
  (0 <= r)%Q -> (r < 1)%Q -> (0 <= h)%Q -> (0 <= jitter)%Q -> (0 < rem)%Q ->
  let d := Qmin (Qmax 0 (retry_after_or (Some (QFin h)) jitter fallback (Some rem) r)) rem in
  (Qmin h rem <= d)%Q /\ (d <= h + jitter)%Q /\ (d <= rem)%Q.
Proof.
  intros R0 R1 H J RM d.
  destruct (retry_after_or_honours h jitter fallback (Some rem) r R0 R1 H J) as [U L]. cbn zeta in *.
  set (x := retry_after_or (Some (QFin h)) jitter fallback (Some rem) r) in *.
  assert (X0: (0 <= x)%Q).
  { destruct (retry_after_or_envelope (Some (QFin h)) jitter fallback (Some rem) r R0 R1) as [P _].
    - intros m E. inversion E; subst. lra.
    - exact P. }
  assert (XM: (Qmax 0 x == x)%Q) by (apply Q.max_r; exact X0).
  subst d. split; [|split].
  - apply Q.min_glb; [rewrite XM; exact L|apply Q.le_min_r].
  - eapply Qle_trans; [apply Q.le_min_l|]. rewrite XM. exact U.
  - apply Q.le_min_r.
Qed.
