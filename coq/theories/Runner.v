(** Runner.v — executable model of the retry loop:
      policy/state.py            _RetryState.check_abort / emit / record_failure / _handle_failure
      policy/retry_helpers.py    _sync_sleep_action, _handle_sleep_decision, _finalize_attempt,
                                 _build_outcome, _abort_outcome
      policy/runner/logic.py     determine_action_from_outcome, raise_exhausted_call, ...
      policy/runner/sync_core.py _run_sync_call / _run_sync_execute (async_core.py is the same
                                 control flow; both runners must correspond to this one model)
    Model only; proofs are in Runner*Proofs.v.  Times are integer ticks.

    Everything the library does not control is an input ([env]): what each invocation of the
    operation does and how long it takes, the answers of abort_if, the strategies' raw return values,
    the sleep handler's decisions, sleeper overshoot, and which hook invocations raise. *)
From Redress Require Import Base Window Budget.

Inductive mode := MCall | MExec.
Inductive cause := CExc | CRes.
Definition cause_eqb (a b : cause) : bool :=
  match a, b with CExc, CExc | CRes, CRes => true | _, _ => false end.

(** Classification(klass, retry_after_s) as returned by the (result) classifier *)
(** a Retry-After hint as the classifier hands it over: a number of ticks, or a non-finite float (passed through untouched) *)
Inductive hint := HFin (z : Z) | HNaN | HPInf | HNInf.
Record classif := { cl_k : klass; cl_ra : option hint }.

Inductive cancel_kind := KCancelled | KKeyboard | KSysExit | KGenExit.
Definition cancel_kind_eqb (a b : cancel_kind) : bool :=
  match a, b with
  | KCancelled, KCancelled | KKeyboard, KKeyboard | KSysExit, KSysExit | KGenExit, KGenExit => true
  | _, _ => false
  end.

(** what one invocation of the operation does *)
Inductive outcome :=
| OValue (rc : option classif)   (* returns; [rc] = answer of the result classifier (None = success) *)
| ORaise (cl : classif)          (* raises an ordinary Exception; [cl] = answer of the classifier *)
| OAbort                         (* raises AbortRetryError *)
| OCancel (k : cancel_kind)      (* raises CancelledError / KeyboardInterrupt / SystemExit / GeneratorExit *)
| ONested.                       (* raises RetryExhaustedError (a nested policy gave up) *)

Inductive sval := SFin (z : Z) | SNaN | SPInf | SNInf.      (* raw strategy return value *)
Inductive hdec := HSleep | HDefer | HAbort.                 (* SleepDecision *)
Inductive who := WPolicy | WCall | WDefault.                (* which callback was used *)
Inductive sid := SidDefault | SidClass (k : klass).         (* which strategy table entry *)

Definition who_eqb (a b : who) : bool :=
  match a, b with WPolicy, WPolicy | WCall, WCall | WDefault, WDefault => true | _, _ => false end.
Definition sid_eqb (a b : sid) : bool :=
  match a, b with
  | SidDefault, SidDefault => true
  | SidClass x, SidClass y => klass_eqb x y
  | _, _ => false
  end.
Definition hdec_eqb (a b : hdec) : bool :=
  match a, b with HSleep, HSleep | HDefer, HDefer | HAbort, HAbort => true | _, _ => false end.

(** ---------------- configuration ---------------- *)
Record cfg := {
  max_attempts : Z;
  deadline : Z;                               (* deadline_s in ticks *)
  max_unknown : option Z;
  per_class : klass -> option Z;
  strat_tab : klass -> option bool;           (* per-class strategy present? (true = legacy 3-arg signature) *)
  strat_default : option bool;
  has_rc : bool;                              (* result_classifier configured *)
  has_abort : bool;                           (* abort_if given *)
  handler_p : bool; handler_c : bool;         (* sleep handler: policy-level / call-level *)
  bs_p : bool; bs_c : bool;                   (* before_sleep hook *)
  sleeper_p : bool; sleeper_c : bool;         (* sleeper *)
  has_metric : bool; has_log : bool;
  has_opname : bool;                          (* operation= given (non-empty) *)
  capture_tl : bool;                          (* capture_timeline (execute only) *)
  budget : option bcfg
}.

Record env := {
  op : nat -> outcome * Z;                    (* attempt index (0-based) -> outcome, duration *)
  abort : nat -> bool;                        (* n-th abort_if poll *)
  strat : nat -> sval;                        (* raw strategy return at attempt index *)
  handler : nat -> hdec;                      (* sleep-handler decision at attempt index *)
  over : nat -> Z;                            (* sleeper overshoot at attempt index *)
  sleep_cancel : nat -> option cancel_kind;   (* sleeper raises a cancellation-type exception *)
  metric_raises : nat -> bool;                (* n-th on_metric invocation raises Exception *)
  log_raises : nat -> bool;
  bs_raises : nat -> bool;
  bs_cancel : nat -> option cancel_kind       (* before_sleep raises a cancellation-type exception (attempt index) *)
}.

(** ---------------- observable trace ---------------- *)
Record tags := {
  t_class : option klass; t_err : bool; t_stop : option stop; t_cause : option cause; t_op : bool }.

Record tlev := {                              (* TimelineEvent *)
  tl_att : Z; tl_name : evname; tl_elapsed : Z; tl_sleep : Z;
  tl_class : option klass; tl_stop : option stop; tl_cause : option cause }.

Inductive ev :=
| EPoll (ans : bool)                                                  (* abort_if() *)
| EInvoke (att : Z) (t : Z)                                           (* operation invoked at time t *)
| EClassify (att : Z)                                                 (* classifier(exception of attempt att) *)
| ERClassify (att : Z)                                                (* result_classifier(value of attempt att) *)
| EStrat (s : sid) (legacy : bool) (att : Z) (k : klass) (ra : option hint)
         (prev : option Z) (rem : option Z) (cs : option cause)       (* strategy call and its arguments *)
| EBudget (granted : bool)                                            (* budget.consume() *)
| EMetric (n : evname) (att : Z) (sleep : Z) (tg : tags)              (* on_metric(event, attempt, sleep_s, tags) *)
| ELog (n : evname) (att : Z) (sleep : Z) (tg : tags) (ra : option hint) (* on_log(event, fields) *)
| EHandler (w : who) (att : Z) (k : klass) (d : Z) (dec : hdec)       (* sleep handler(ctx, sleep_s) *)
| EBeforeSleep (w : who) (att : Z) (d : Z)                            (* before_sleep(ctx, sleep_s) *)
| ESleep (w : who) (d : Z) (t : Z).                                   (* sleeper(sleep_s) at time t *)

Record outc := {                       (* RetryOutcome *)
  o_ok : bool; o_value : option Z; o_stop : option stop; o_attempts : Z;
  o_class : option klass; o_exc : option Z; o_res : option Z; o_cause : option cause;
  o_elapsed : Z; o_next : option Z; o_tl : option (list tlev) }.

(** what the caller gets; values / exception objects are identified by the attempt that produced them *)
Inductive delivery :=
| DReturn (att : Z)
| DRaiseOp (att : Z)
| DExhausted (r : stop) (attempts : Z) (lc : option klass) (lexc lres : option Z) (next : option Z)
| DAbort
| DCancel (k : cancel_kind) (att : Z)         (* raised by the operation at attempt att *)
| DCancelSleep (k : cancel_kind) (att : Z)    (* raised by the sleeper after attempt att *)
| DNested (att : Z)
| DRuntimeError
| DOutcome (o : outc).

(** ---------------- run state (= _RetryState + clock + shared budget) ---------------- *)
Record rst := {
  now : Z; t0 : Z;
  npoll : nat; nmet : nat; nlog : nat; nbs : nat;
  prev : option Z;                            (* prev_sleep *)
  unk : Z;                                    (* unknown_attempts *)
  cnt : klass -> Z;                           (* per_class_counts *)
  last_fail : option (classif * cause * Z);   (* last recorded failure: classification, cause, attempt *)
  last_stop : option stop;
  bev : list Z;                               (* the shared Budget's deque *)
  tl : list tlev                              (* captured timeline *)
}.

Definition init_rst (start : Z) (b : list Z) : rst :=
  {| now := start; t0 := start; npoll := 0; nmet := 0; nlog := 0; nbs := 0; prev := None; unk := 0;
     cnt := fun _ => 0; last_fail := None; last_stop := None; bev := b; tl := [] |}.

Definition elapsed (s : rst) : Z := now s - t0 s.
Definition last_class (s : rst) : option klass :=
  match last_fail s with Some (cl, _, _) => Some (cl_k cl) | None => None end.
Definition last_cause (s : rst) : option cause :=
  match last_fail s with Some (_, cs, _) => Some cs | None => None end.
Definition last_exc (s : rst) : option Z :=
  match last_fail s with Some (_, CExc, a) => Some a | _ => None end.
Definition last_res (s : rst) : option Z :=
  match last_fail s with Some (_, CRes, a) => Some a | _ => None end.

Definition set_now (s : rst) (v : Z) : rst :=
  {| now := v; t0 := t0 s; npoll := npoll s; nmet := nmet s; nlog := nlog s; nbs := nbs s; prev := prev s;
     unk := unk s; cnt := cnt s; last_fail := last_fail s; last_stop := last_stop s; bev := bev s; tl := tl s |}.
Definition set_npoll (s : rst) (v : nat) : rst :=
  {| now := now s; t0 := t0 s; npoll := v; nmet := nmet s; nlog := nlog s; nbs := nbs s; prev := prev s;
     unk := unk s; cnt := cnt s; last_fail := last_fail s; last_stop := last_stop s; bev := bev s; tl := tl s |}.
Definition set_nmet (s : rst) (v : nat) : rst :=
  {| now := now s; t0 := t0 s; npoll := npoll s; nmet := v; nlog := nlog s; nbs := nbs s; prev := prev s;
     unk := unk s; cnt := cnt s; last_fail := last_fail s; last_stop := last_stop s; bev := bev s; tl := tl s |}.
Definition set_nlog (s : rst) (v : nat) : rst :=
  {| now := now s; t0 := t0 s; npoll := npoll s; nmet := nmet s; nlog := v; nbs := nbs s; prev := prev s;
     unk := unk s; cnt := cnt s; last_fail := last_fail s; last_stop := last_stop s; bev := bev s; tl := tl s |}.
Definition set_nbs (s : rst) (v : nat) : rst :=
  {| now := now s; t0 := t0 s; npoll := npoll s; nmet := nmet s; nlog := nlog s; nbs := v; prev := prev s;
     unk := unk s; cnt := cnt s; last_fail := last_fail s; last_stop := last_stop s; bev := bev s; tl := tl s |}.
Definition set_prev (s : rst) (v : option Z) : rst :=
  {| now := now s; t0 := t0 s; npoll := npoll s; nmet := nmet s; nlog := nlog s; nbs := nbs s; prev := v;
     unk := unk s; cnt := cnt s; last_fail := last_fail s; last_stop := last_stop s; bev := bev s; tl := tl s |}.
Definition set_counts (s : rst) (c : klass -> Z) (u : Z) : rst :=
  {| now := now s; t0 := t0 s; npoll := npoll s; nmet := nmet s; nlog := nlog s; nbs := nbs s; prev := prev s;
     unk := u; cnt := c; last_fail := last_fail s; last_stop := last_stop s; bev := bev s; tl := tl s |}.
Definition set_last_fail (s : rst) (v : option (classif * cause * Z)) : rst :=
  {| now := now s; t0 := t0 s; npoll := npoll s; nmet := nmet s; nlog := nlog s; nbs := nbs s; prev := prev s;
     unk := unk s; cnt := cnt s; last_fail := v; last_stop := last_stop s; bev := bev s; tl := tl s |}.
Definition set_last_stop (s : rst) (v : option stop) : rst :=
  {| now := now s; t0 := t0 s; npoll := npoll s; nmet := nmet s; nlog := nlog s; nbs := nbs s; prev := prev s;
     unk := unk s; cnt := cnt s; last_fail := last_fail s; last_stop := v; bev := bev s; tl := tl s |}.
Definition set_bev (s : rst) (v : list Z) : rst :=
  {| now := now s; t0 := t0 s; npoll := npoll s; nmet := nmet s; nlog := nlog s; nbs := nbs s; prev := prev s;
     unk := unk s; cnt := cnt s; last_fail := last_fail s; last_stop := last_stop s; bev := v; tl := tl s |}.
Definition set_tl (s : rst) (v : list tlev) : rst :=
  {| now := now s; t0 := t0 s; npoll := npoll s; nmet := nmet s; nlog := nlog s; nbs := nbs s; prev := prev s;
     unk := unk s; cnt := cnt s; last_fail := last_fail s; last_stop := last_stop s; bev := bev s; tl := v |}.

Definition bump (f : klass -> Z) (k : klass) : klass -> Z :=
  fun k' => if klass_eqb k k' then f k' + 1 else f k'.

(** ---------------- emit (state.py:90-135) ---------------- *)
Definition name_of_stop (r : stop) : evname :=
  match r with
  | S_GLOBAL | S_PERCLASS => N_MAX_ATTEMPTS_EXCEEDED
  | S_DEADLINE => N_DEADLINE_EXCEEDED
  | S_UNKNOWN => N_MAX_UNKNOWN_ATTEMPTS_EXCEEDED
  | S_NONRETRY => N_PERMANENT_FAIL
  | S_NOSTRAT => N_NO_STRATEGY_CONFIGURED
  | S_BUDGET => N_BUDGET_EXHAUSTED
  | S_SCHED => N_SCHEDULED
  | S_ABORT => N_ABORTED
  end.

(** a guarded hook call: [try: hook(...) except Exception: pass] — whether the hook raised or
    returned, control continues at the same point with the same state *)
Definition guarded {A} (raised : bool) (k : A) : A := if raised then k else k.

(** [timeline] says whether the timeline collector wraps the metric hook (execute with
    capture_timeline): it records first, then calls the user's on_metric. *)
Definition emit (m : mode) (c : cfg) (e : env) (s : rst) (n : evname) (att sleep : Z)
    (k : option klass) (err : bool) (r : option stop) (cs : option cause) (ra : option hint)
    : rst * list ev :=
  let tg := {| t_class := k; t_err := err; t_stop := r; t_cause := cs; t_op := has_opname c |} in
  let timeline := match m with MExec => capture_tl c | MCall => false end in
  let s1 := if timeline
            then set_tl s (tl s ++ [{| tl_att := att; tl_name := n; tl_elapsed := elapsed s; tl_sleep := sleep;
                                       tl_class := k; tl_stop := r; tl_cause := cs |}])
            else s in
  let '(s2, tr1) := if has_metric c
                    then guarded (metric_raises e (nmet s1)) (set_nmet s1 (S (nmet s1)), [EMetric n att sleep tg])
                    else (s1, []) in
  let '(s3, tr2) := if has_log c
                    then guarded (log_raises e (nlog s2))
                           (set_nlog s2 (S (nlog s2)),
                            [ELog n att sleep tg (match n with N_RETRY => ra | _ => None end)])
                    else (s2, []) in
  (s3, tr1 ++ tr2).

(** ---------------- check_abort (state.py:72-85) ---------------- *)
Definition check_abort (m : mode) (c : cfg) (e : env) (s : rst) (att : Z) : bool * rst * list ev :=
  if has_abort c then
    let ans := abort e (npoll s) in
    let s1 := set_npoll s (S (npoll s)) in
    if ans then
      let s2 := set_last_stop s1 (Some S_ABORT) in
      let '(s3, tr) := emit m c e s2 N_ABORTED att 0 None false (Some S_ABORT) None None in
      (true, s3, EPoll true :: tr)
    else (false, s1, [EPoll false])
  else (false, s, []).

(** emit ABORTED unless already done (handle_abort_in_call / _abort_outcome / _handle_sleep_decision) *)
Definition emit_aborted_once (m : mode) (c : cfg) (e : env) (s : rst) (att : Z) : rst * list ev :=
  match last_stop s with
  | Some S_ABORT => (s, [])
  | _ => emit m c e (set_last_stop s (Some S_ABORT)) N_ABORTED att 0 None false (Some S_ABORT) None None
  end.

(** ---------------- _handle_failure (state.py:193-341) ---------------- *)
Definition select_strategy (c : cfg) (k : klass) : option (sid * bool) :=
  match strat_tab c k with
  | Some l => Some (SidClass k, l)
  | None => match strat_default c with Some l => Some (SidDefault, l) | None => None end
  end.

Definition sanitize (v : sval) (rem : Z) : Z :=
  let f := match v with SFin z => z | _ => 0 end in Z.min (Z.max 0 f) rem.

Inductive decision := DecRetry (d : Z) | DecRaise.

Definition stop_with (m : mode) (c : cfg) (e : env) (s : rst) (r : stop) (att : Z) (k : klass)
    (cs : cause) : decision * rst * list ev :=
  let '(s', tr) := emit m c e (set_last_stop s (Some r)) (name_of_stop r) att 0 (Some k)
                        (cause_eqb cs CExc) (Some r) (Some cs) None in
  (DecRaise, s', tr).

Definition over_limit (c : cfg) (k : klass) (n : Z) : bool :=
  match per_class c k with Some l => l <? n | None => false end.
Definition over_unknown (c : cfg) (n : Z) : bool :=
  match max_unknown c with Some l => l <? n | None => false end.

Definition handle_failure (m : mode) (c : cfg) (e : env) (i : nat) (att : Z) (cl : classif) (cs : cause)
    (s : rst) : decision * rst * list ev :=
  let k := cl_k cl in
  let s := set_last_fail s (Some (cl, cs, att)) in
  let cnt' := bump (cnt s) k in
  let s := set_counts s cnt' (unk s) in
  if over_limit c k (cnt' k) then stop_with m c e s S_PERCLASS att k cs else
  if nonretryable k then stop_with m c e s S_NONRETRY att k cs else
  let unk' := if klass_eqb k UNKNOWN then unk s + 1 else unk s in
  let s := set_counts s cnt' unk' in
  if klass_eqb k UNKNOWN && over_unknown c unk' then stop_with m c e s S_UNKNOWN att k cs else
  if deadline c <? elapsed s then stop_with m c e s S_DEADLINE att k cs else
  match select_strategy c k with
  | None => stop_with m c e s S_NOSTRAT att k cs
  | Some (sd, legacy) =>
      let rem := deadline c - elapsed s in
      if rem <=? 0 then stop_with m c e s S_DEADLINE att k cs else
      if max_attempts c <=? att then stop_with m c e s S_GLOBAL att k cs else
      let d := sanitize (strat e i) rem in
      let ev_strat := if legacy then EStrat sd true att k None (prev s) None None
                      else EStrat sd false att k (cl_ra cl) (prev s) (Some rem) (Some cs) in
      match budget c with
      | Some b =>
          let '(r, bev') := consume b (now s) 1 (bev s) in
          let s := set_bev s bev' in
          match r with
          | RGrant =>
              let s := set_prev s (Some d) in
              let '(s', tr) := emit m c e s N_RETRY att d (Some k) (cause_eqb cs CExc) None (Some cs) (cl_ra cl) in
              (DecRetry d, s', ev_strat :: EBudget true :: tr)
          | _ =>
              let '(dec, s', tr) := stop_with m c e s S_BUDGET att k cs in
              (dec, s', ev_strat :: EBudget false :: tr)
          end
      | None =>
          let s := set_prev s (Some d) in
          let '(s', tr) := emit m c e s N_RETRY att d (Some k) (cause_eqb cs CExc) None (Some cs) (cl_ra cl) in
          (DecRetry d, s', ev_strat :: tr)
      end
  end.

(** ---------------- sleep action + finalize (retry_helpers.py:193-489) ---------------- *)
Definition resolve (p c : bool) : option who :=
  if c then Some WCall else if p then Some WPolicy else None.

Inductive attempt_end :=
| AContinue                       (* AttemptDecision.RETRY *)
| ARaise (r : stop)               (* RAISE: stop reason now in state.last_stop_reason *)
| AScheduled (d : Z)              (* SCHEDULED with next_sleep_s *)
| AAborted                        (* ABORTED by the sleep handler *)
| ASleepCancel (k : cancel_kind). (* the sleeper raised a cancellation-type exception *)

Definition before_sleep_ev (c : cfg) (e : env) (i : nat) (s : rst) (att d : Z)
    : option cancel_kind * rst * list ev :=
  match resolve (bs_p c) (bs_c c) with
  | Some w =>
      match bs_cancel e i with
      | Some kk => (Some kk, set_nbs s (S (nbs s)), [EBeforeSleep w att d])   (* BaseException: not caught *)
      | None => guarded (bs_raises e (nbs s)) (None, set_nbs s (S (nbs s)), [EBeforeSleep w att d])
      end
  | None => (None, s, [])
  end.

Definition sleeper_who (c : cfg) : who :=
  match resolve (sleeper_p c) (sleeper_c c) with Some w => w | None => WDefault end.

(** the part of an attempt after a retry was granted with delay [d] (and the abort poll that follows
    the grant answered False) *)
Definition backoff (m : mode) (c : cfg) (e : env) (i : nat) (att : Z) (d : Z) (k : klass) (cs : cause)
    (s : rst) : attempt_end * rst * list ev :=
  let hw := resolve (handler_p c) (handler_c c) in
  let dec := match hw with Some _ => handler e i | None => HSleep end in
  let htr := match hw with Some w => [EHandler w att k d dec] | None => [] end in
  match dec with
  | HDefer =>
      let s1 := set_last_stop s (Some S_SCHED) in
      let '(s2, tr) := emit m c e s1 N_SCHEDULED att d (last_class s1)
                            (match last_exc s1 with Some _ => true | None => false end)
                            (Some S_SCHED) (last_cause s1) None in
      (AScheduled d, s2, htr ++ tr)
  | HAbort =>
      let '(s1, tr) := emit_aborted_once m c e s att in
      (AAborted, s1, htr ++ tr)
  | HSleep =>
      let '(bc, s1, btr) := before_sleep_ev c e i s att d in
      match bc with Some kk => (ASleepCancel kk, s1, htr ++ btr) | None =>
      let sl := [ESleep (sleeper_who c) d (now s1)] in
      match sleep_cancel e i with
      | Some kk => (ASleepCancel kk, s1, htr ++ btr ++ sl)
      | None =>
          let s2 := set_now s1 (now s1 + d + over e i) in
          (* _finalize_attempt: post-sleep deadline check, then attempt == max_attempts *)
          if deadline c <? elapsed s2 then
            let '(s3, tr) := emit m c e (set_last_stop s2 (Some S_DEADLINE)) N_DEADLINE_EXCEEDED att 0
                                  (last_class s2) (cause_eqb cs CExc) (Some S_DEADLINE) (Some cs) None in
            (ARaise S_DEADLINE, s3, htr ++ btr ++ sl ++ tr)
          else if att =? max_attempts c then
            let '(s3, tr) := emit m c e (set_last_stop s2 (Some S_GLOBAL)) N_MAX_ATTEMPTS_EXCEEDED att 0
                                  (last_class s2) (cause_eqb cs CExc) (Some S_GLOBAL) (Some cs) None in
            (ARaise S_GLOBAL, s3, htr ++ btr ++ sl ++ tr)
          else (AContinue, s2, htr ++ btr ++ sl)
      end end
  end.

(** ---------------- outcomes (retry_helpers.py:41-86) ---------------- *)
Definition build_outcome (m : mode) (c : cfg) (ok : bool) (value : option Z) (s : rst) (attempts : Z)
    (next : option Z) : outc :=
  {| o_ok := ok; o_value := if ok then value else None;
     o_stop := if ok then None else last_stop s;
     o_attempts := attempts;
     o_class := if ok then None else last_class s;
     o_exc := if ok then None else last_exc s;
     o_res := if ok then None else last_res s;
     o_cause := if ok then None else last_cause s;
     o_elapsed := elapsed s; o_next := next;
     o_tl := if capture_tl c then Some (tl s) else None |}.

(** how a finished run is delivered: call raises/returns, execute reports *)
Inductive fin :=
| FSuccess (att : Z)
| FAbort (attempts : Z)                       (* abort: attempts = value of the `attempts` variable *)
| FStop (att : Z) (cs : cause) (next : option Z)   (* retries stopped on a failure of attempt att *)
| FCancel (k : cancel_kind) (att : Z)
| FCancelSleep (k : cancel_kind) (att : Z)
| FNested (att : Z).

Definition deliver (m : mode) (c : cfg) (s : rst) (f : fin) : delivery :=
  match f with
  | FCancel k a => DCancel k a
  | FCancelSleep k a => DCancelSleep k a
  | FNested a => DNested a
  | FSuccess a =>
      match m with MCall => DReturn a | MExec => DOutcome (build_outcome m c true (Some a) s a None) end
  | FAbort n =>
      match m with MCall => DAbort | MExec => DOutcome (build_outcome m c false None s n None) end
  | FStop a cs next =>
      match m with
      | MExec => DOutcome (build_outcome m c false None s a next)
      | MCall =>
          let r := match last_stop s with Some r => r | None => S_GLOBAL end in
          match cs, next with
          | CExc, None => DRaiseOp a                                   (* bare [raise] *)
          | CExc, Some d => DExhausted r a (last_class s) (last_exc s) None (Some d)
          | CRes, _ => DExhausted r a (last_class s) None (last_res s) next
          end
      end
  end.

(** ---------------- one loop iteration ---------------- *)
Definition failure_path (m : mode) (c : cfg) (e : env) (i : nat) (att : Z) (cl : classif) (cs : cause)
    (s : rst) (pre : list ev) : (rst + fin) * rst * list ev :=
  (* check_abort(attempt) between the failure and its classification/handling *)
  let '(a1, s1, tr1) := check_abort m c e s att in
  if a1 then (inr (FAbort att), s1, pre ++ tr1) else
  let ctr := match cs with CExc => [EClassify att] | CRes => [] end in
  let '(dec, s2, tr2) := handle_failure m c e i att cl cs s1 in
  match dec with
  | DecRaise => (inr (FStop att cs None), s2, pre ++ tr1 ++ ctr ++ tr2)
  | DecRetry d =>
      let '(a2, s3, tr3) := check_abort m c e s2 att in
      if a2 then (inr (FAbort att), s3, pre ++ tr1 ++ ctr ++ tr2 ++ tr3) else
      let '(ae, s4, tr4) := backoff m c e i att d (cl_k cl) cs s3 in
      let tr := pre ++ tr1 ++ ctr ++ tr2 ++ tr3 ++ tr4 in
      match ae with
      | AContinue => (inl s4, s4, tr)
      | ARaise _ => (inr (FStop att cs None), s4, tr)
      | AScheduled d' => (inr (FStop att cs (Some d')), s4, tr)
      | AAborted => (inr (FAbort att), s4, tr)
      | ASleepCancel kk => (inr (FCancelSleep kk att), s4, tr)
      end
  end.

(** returns (inl state to continue with | inr how the run ended), the final state, the trace chunk *)
Definition iter (m : mode) (c : cfg) (e : env) (i : nat) (s : rst) : (rst + fin) * rst * list ev :=
  let att := Z.of_nat i + 1 in
  (* state.check_abort(attempt - 1) at the top of the loop; `attempts` still counts the previous attempt *)
  let '(a0, s0, tr0) := check_abort m c e s (att - 1) in
  if a0 then (inr (FAbort (att - 1)), s0, tr0) else
  let '(o, dur) := op e i in
  let pre := tr0 ++ [EInvoke att (now s0)] in
  let s1 := set_now s0 (now s0 + dur) in
  match o with
  | OCancel k => (inr (FCancel k att), s1, pre)
  | ONested => (inr (FNested att), s1, pre)
  | OAbort =>
      let '(s2, tr) := emit_aborted_once m c e s1 att in
      (inr (FAbort att), s2, pre ++ tr)
  | ORaise cl => failure_path m c e i att cl CExc s1 pre
  | OValue rc =>
      let rtr := if has_rc c then [ERClassify att] else [] in
      match (if has_rc c then rc else None) with
      | None =>
          let '(s2, tr) := emit m c e s1 N_SUCCESS att 0 None false None None None in
          (inr (FSuccess att), s2, pre ++ rtr ++ tr)
      | Some cl => failure_path m c e i att cl CRes s1 (pre ++ rtr)
      end
  end.

(** fall-through after the loop (reached only when max_attempts <= 0):
    raise_exhausted_call / build_exhausted_outcome *)
Definition fallthrough (m : mode) (c : cfg) (e : env) (s : rst) : delivery * rst * list ev :=
  let '(s1, tr) := emit m c e s N_MAX_ATTEMPTS_EXCEEDED (max_attempts c) 0 (last_class s)
                        (match last_exc s with Some _ => true | None => false end)
                        (Some S_GLOBAL) (last_cause s) None in
  let s2 := set_last_stop s1 (Some S_GLOBAL) in
  match m with
  | MExec => (DOutcome (build_outcome m c false None s2 0 None), s2, tr)
  | MCall =>
      match last_fail s2 with
      | Some (cl, CRes, a) => (DExhausted S_GLOBAL (max_attempts c) (Some (cl_k cl)) None (Some a) None, s2, tr)
      | Some (_, CExc, a) => (DRaiseOp a, s2, tr)
      | None => (DRuntimeError, s2, tr)
      end
  end.

Fixpoint loop (m : mode) (c : cfg) (e : env) (fuel : nat) (i : nat) (s : rst) : delivery * rst * list ev :=
  match fuel with
  | O => fallthrough m c e s
  | S f =>
      match iter m c e i s with
      | (inr fn, s', tr) => (deliver m c s' fn, s', tr)
      | (inl s1, _, tr) => let '(d, sf, tr') := loop m c e f (S i) s1 in (d, sf, tr ++ tr')
      end
  end.

(** one call()/execute(): starts at time [start] with the shared budget deque [b];
    [for attempt in range(1, max_attempts + 1)] gives exactly [Z.to_nat max_attempts] iterations *)
Definition run (m : mode) (c : cfg) (e : env) (start : Z) (b : list Z) : delivery * rst * list ev :=
  loop m c e (Z.to_nat (max_attempts c)) 0 (init_rst start b).

Definition run_trace m c e start b : list ev := snd (run m c e start b).
Definition run_delivery m c e start b : delivery := fst (fst (run m c e start b)).
Definition run_final m c e start b : rst := snd (fst (run m c e start b)).

(** several calls on one policy object / sharing one budget: counters restart, clock and budget carry on *)
Record call_spec := { cs_mode : mode; cs_cfg : cfg; cs_env : env; cs_gap : Z }.
Fixpoint run_seq (calls : list call_spec) (start : Z) (b : list Z) : list (delivery * list ev) :=
  match calls with
  | [] => []
  | k :: r =>
      let t := start + cs_gap k in
      let '(d, sf, tr) := run (cs_mode k) (cs_cfg k) (cs_env k) t b in
      (d, tr) :: run_seq r (now sf) (bev sf)
  end.
