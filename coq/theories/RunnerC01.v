(** RunnerC01.v — attempt caps (C01): invocations, non-retryable classes, per-class and UNKNOWN caps,
    freshness of counters per call. *)
From Redress Require Import Base Window Budget Runner RunnerProofs RunnerSpec.

(** filtering the trace of one iteration through its stripped form *)
Lemma filter_strip (f : ev -> bool) tr :
  (forall x, is_obs x = true -> f x = false) -> filter f tr = filter f (strip tr).
Proof.
  intros Hf. unfold strip. induction tr as [|x r IH]; simpl; [reflexivity|].
  destruct (is_obs x) eqn:O; simpl.
  - rewrite (Hf x O). exact IH.
  - destruct (f x); simpl; rewrite IH; reflexivity.
Qed.

Lemma invoke_not_obs x : is_obs x = true -> is_invoke x = false.
Proof. destruct x; simpl; congruence. Qed.

Ltac ev_crush :=
  unfold iter_events, fail_events, poll_event, strat_event, budget_event, backoff_events, handler_event, bs_event;
  repeat (rewrite ?filter_app; simpl);
  repeat match goal with
         | |- context [if ?b then _ else _] => destruct b; repeat (rewrite ?filter_app; simpl)
         | |- context [match ?x with _ => _ end] => destruct x; repeat (rewrite ?filter_app; simpl)
         end.

Lemma iter_events_invokes c e i s :
  filter is_invoke (iter_events c e i s) =
  if pa c e s 0 then [] else [EInvoke (Z.of_nat i + 1) (now s)].
Proof.
  unfold iter_events. destruct (pa c e s 0) eqn:P0.
  - rewrite app_nil_r. unfold poll_event. destruct (has_abort c); reflexivity.
  - rewrite !filter_app.
    assert (Z1: filter is_invoke (poll_event c false) = []) by (unfold poll_event; destruct (has_abort c); reflexivity).
    assert (ZF: forall cl cs, filter is_invoke (fail_events c e i s cl cs) = []).
    { intros cl cs. clear. ev_crush; reflexivity. }
    rewrite Z1. simpl. f_equal.
    destruct (fst (op e i)) as [rc|cl| |k|]; try reflexivity.
    + rewrite filter_app. destruct (has_rc c) eqn:RC; simpl.
      * destruct rc as [cl|]; [apply ZF|reflexivity].
      * reflexivity.
    + apply ZF.
Qed.

Lemma iter_invokes m c e i s res s2 tr :
  iter m c e i s = (res, s2, tr) ->
  filter is_invoke tr = if pa c e s 0 then [] else [EInvoke (Z.of_nat i + 1) (now s)].
Proof.
  intros H. apply iter_spec in H. destruct H as (_ & ST & _).
  rewrite (filter_strip is_invoke tr invoke_not_obs), ST. apply iter_events_invokes.
Qed.

Lemma fallthrough_no_invoke m c e s : filter is_invoke (snd (fallthrough m c e s)) = [].
Proof.
  unfold fallthrough.
  destruct (emit m c e s N_MAX_ATTEMPTS_EXCEEDED (max_attempts c) 0 (last_class s)
              (match last_exc s with Some _ => true | None => false end) (Some S_GLOBAL) (last_cause s) None)
    as [s1 tr] eqn:E.
  apply emit_no_invoke in E.
  destruct m; simpl; [|exact E].
  destruct (last_fail s1) as [[[cl cs] a]|]; [destruct cs|]; exact E.
Qed.

(** (1) the operation is invoked at most max_attempts times *)
Lemma invocations_bounded m c e start b :
  Z.of_nat (length (filter is_invoke (run_trace m c e start b))) <= Z.max 0 (max_attempts c).
Proof.
  unfold run_trace, run. rewrite loop_trace, filter_app, app_length.
  set (fuel := Z.to_nat (max_attempts c)).
  assert (A: (length (filter is_invoke (chunks (iters m c e fuel 0 (init_rst start b)))) <= fuel)%nat).
  { pose proof (chunks_filter_length is_invoke (iters m c e fuel 0 (init_rst start b)) 1) as P.
    pose proof (iters_length m c e fuel 0 (init_rst start b)) as L.
    assert (Q: forall r, In r (iters m c e fuel 0 (init_rst start b)) -> (length (filter is_invoke (ir_tr r)) <= 1)%nat).
    { intros r Hr. apply iters_In in Hr as [_ Hi]. apply iter_invokes in Hi. rewrite Hi.
      destruct (pa c e (ir_pre r) 0); simpl; lia. }
    specialize (P Q). lia. }
  assert (B: length (filter is_invoke
               match exhausted m c e fuel 0 (init_rst start b) with
               | Some sf => snd (fallthrough m c e sf) | None => [] end) = 0%nat).
  { destruct (exhausted m c e fuel 0 (init_rst start b)); [rewrite fallthrough_no_invoke|]; reflexivity. }
  rewrite B. subst fuel. lia.
Qed.

(** every EInvoke of a run belongs to an executed iteration and carries its number *)
Lemma invoke_in_run m c e fuel i s a t :
  In (EInvoke a t) (snd (loop m c e fuel i s)) ->
  exists r, In r (iters m c e fuel i s) /\ a = Z.of_nat (ir_i r) + 1 /\ t = now (ir_pre r).
Proof.
  rewrite loop_trace. intros H. apply in_app_or in H as [H|H].
  - apply in_chunks in H as (r & Hr & Hx). exists r. split; [exact Hr|].
    apply iters_In in Hr as [_ Hi]. apply iter_invokes in Hi.
    assert (F: In (EInvoke a t) (filter is_invoke (ir_tr r))) by (apply filter_In; split; [exact Hx|reflexivity]).
    rewrite Hi in F. destruct (pa c e (ir_pre r) 0); [destruct F|].
    destruct F as [F|[]]. inversion F. split; reflexivity.
  - exfalso. destruct (exhausted m c e fuel i s) as [sf|]; [|destruct H].
    assert (F: In (EInvoke a t) (filter is_invoke (snd (fallthrough m c e sf)))) by (apply filter_In; split; [exact H|reflexivity]).
    rewrite fallthrough_no_invoke in F. destruct F.
Qed.

(** an iteration that did not continue is the last one: no later invocation *)
Lemma last_iteration m c e fuel i s r a t :
  In r (iters m c e fuel i s) -> continued r = false ->
  In (EInvoke a t) (snd (loop m c e fuel i s)) -> a <= Z.of_nat (ir_i r) + 1.
Proof.
  intros Hr Hc Hin. apply invoke_in_run in Hin as (r' & Hr' & -> & _).
  apply In_nth_error in Hr as [n Hn]. apply In_nth_error in Hr' as [n' Hn'].
  pose proof (iters_nth m c e fuel i s n r Hn) as (I1 & _ & _ & I4).
  pose proof (iters_nth m c e fuel i s n' r' Hn') as (I1' & _).
  specialize (I4 Hc). apply nth_error_None in I4.
  assert (n' < length (iters m c e fuel i s))%nat by (apply nth_error_Some; congruence). lia.
Qed.

(** the failure (classification, cause) of the attempt an iteration record stands for *)
Definition rec_fail (c : cfg) (e : env) (r : irec) : option (classif * cause) := fail_of c (fst (op e (ir_i r))).
Definition rec_class (c : cfg) (e : env) (r : irec) : option klass :=
  match rec_fail c e r with Some (cl, _) => Some (cl_k cl) | None => None end.

(** a record continues only through the IBackoff/BContinue verdict *)
Lemma continued_verdict m c e i s s1 s2 tr :
  iter m c e i s = (inl s1, s2, tr) ->
  exists cl cs d, iter_verdict c e i s = IBackoff cl cs d BContinue /\ s1 = s2.
Proof.
  intros H. apply iter_spec in H. cbn zeta in H. destruct H as (_ & _ & V).
  destruct (iter_verdict c e i s) as [| | | | | | | |cl cs d bv];
    try (destruct V as [V _]; discriminate).
  destruct V as (_ & _ & _ & _ & _ & _ & V).
  destruct bv; try (destruct V as [V _]; discriminate).
  destruct V as [V _]. inversion V. eauto.
Qed.

Lemma verdict_backoff_inv c e i s cl cs d bv :
  iter_verdict c e i s = IBackoff cl cs d bv ->
  pa c e s 0 = false /\ fail_of c (fst (op e i)) = Some (cl, cs) /\ pa c e s 1 = false /\
  hf_verdict c e i (Z.of_nat i + 1) (cl_k cl) (at_fail e i s) = inr d /\ pa c e s 2 = false /\
  bv = backoff_verdict c e i (Z.of_nat i + 1) d (at_fail e i s).
Proof.
  unfold iter_verdict. destruct (pa c e s 0); [discriminate|].
  destruct (fst (op e i)) as [rc|cl0| |k|] eqn:O; try discriminate.
  - destruct (fail_of c (OValue rc)) as [[cl0 cs0]|] eqn:F; [|discriminate].
    destruct (pa c e s 1); [discriminate|].
    destruct (hf_verdict c e i (Z.of_nat i + 1) (cl_k cl0) (at_fail e i s)) eqn:HV; [discriminate|].
    destruct (pa c e s 2); [discriminate|]. intros H; inversion H; subst. repeat split; auto.
  - cbn [fail_of]. destruct (pa c e s 1); [discriminate|].
    destruct (hf_verdict c e i (Z.of_nat i + 1) (cl_k cl0) (at_fail e i s)) eqn:HV; [discriminate|].
    destruct (pa c e s 2); [discriminate|]. intros H; inversion H; subst. repeat split; auto.
Qed.

Lemma hf_retry_inv c e i att k s d :
  hf_verdict c e i att k s = inr d ->
  over_limit c k (cnt s k + 1) = false /\ nonretryable k = false /\
  (klass_eqb k UNKNOWN && over_unknown c (unk_after k (unk s))) = false /\
  elapsed s < deadline c /\ select_strategy c k <> None /\ att < max_attempts c /\
  d = sanitize (strat e i) (deadline c - elapsed s) /\
  (forall b, budget c = Some b -> fst (consume b (now s) 1 (bev s)) = RGrant).
Proof.
  unfold hf_verdict.
  destruct (over_limit c k (cnt s k + 1)); [discriminate|].
  destruct (nonretryable k); [discriminate|].
  destruct (klass_eqb k UNKNOWN && over_unknown c (unk_after k (unk s))); [discriminate|].
  destruct (deadline c <? elapsed s) eqn:D1; [discriminate|].
  destruct (select_strategy c k); [|discriminate].
  destruct (deadline c - elapsed s <=? 0) eqn:D2; [discriminate|].
  destruct (max_attempts c <=? att) eqn:MA; [discriminate|].
  destruct (budget c) as [b|] eqn:B.
  - destruct (fst (consume b (now s) 1 (bev s))) eqn:CO; try discriminate.
    intros H; inversion H. repeat split; auto; try lia; try discriminate.
    intros b0 Hb; inversion Hb; subst; exact CO.
  - intros H; inversion H. repeat split; auto; try lia; try discriminate.
Qed.

(** (2) after a failure classified PERMANENT / AUTH / PERMISSION the run ends *)
Lemma nonretryable_ends m c e fuel i s r cl cs :
  In r (iters m c e fuel i s) -> rec_fail c e r = Some (cl, cs) -> nonretryable (cl_k cl) = true ->
  continued r = false.
Proof.
  intros Hr Hf Hn. apply iters_In in Hr as [_ Hi].
  destruct (continued r) eqn:C; [|reflexivity]. exfalso. unfold continued in C.
  destruct (ir_res r) as [s1|fn]; [|discriminate].
  apply continued_verdict in Hi as (cl' & cs' & d & V & _).
  apply verdict_backoff_inv in V as (_ & F & _ & HV & _).
  unfold rec_fail in Hf. rewrite Hf in F. inversion F; subst.
  apply hf_retry_inv in HV as (_ & NR & _). congruence.
Qed.

(** ---------------- per-class and UNKNOWN caps ---------------- *)
Definition cont_class (c : cfg) (e : env) (k : klass) (r : irec) : bool :=
  continued r && match rec_class c e r with Some k' => klass_eqb k k' | None => false end.

Lemma continued_state m c e i s s1 s2 tr :
  iter m c e i s = (inl s1, s2, tr) ->
  exists cl cs, fail_of c (fst (op e i)) = Some (cl, cs) /\
    cnt s1 = bump (cnt s) (cl_k cl) /\ unk s1 = unk_after (cl_k cl) (unk s) /\
    over_limit c (cl_k cl) (cnt s (cl_k cl) + 1) = false /\
    (klass_eqb (cl_k cl) UNKNOWN && over_unknown c (unk_after (cl_k cl) (unk s))) = false.
Proof.
  intros H. pose proof (continued_verdict _ _ _ _ _ _ _ _ H) as (cl & cs & d & V & ->).
  apply iter_spec in H. cbn zeta in H. destruct H as (_ & _ & SV). rewrite V in SV.
  destruct SV as (_ & _ & C1 & U1 & _).
  apply verdict_backoff_inv in V as (_ & F & _ & HV & _).
  apply hf_retry_inv in HV as (OL & _ & OU & _).
  unfold at_fail in *; norm. exists cl, cs. repeat split; auto.
Qed.

Lemma klass_eqb_sym' a b : klass_eqb a b = klass_eqb b a.
Proof. destruct a, b; reflexivity. Qed.

Lemma per_class_cap m c e k l : per_class c k = Some l ->
  forall fuel i s,
  Z.of_nat (length (filter (cont_class c e k) (iters m c e fuel i s))) <= Z.max 0 (l - cnt s k).
Proof.
  intros PC. induction fuel as [|f IH]; intros i s; simpl; [lia|].
  destruct (iter m c e i s) as [[[s1|fn] s'] tr] eqn:E; simpl.
  - pose proof (continued_state _ _ _ _ _ _ _ _ E) as (cl & cs & F & C1 & U1 & OL & OU).
    specialize (IH (S i) s1).
    unfold cont_class at 1, continued, rec_class, rec_fail. cbn [ir_res ir_i]. rewrite F. cbn [andb].
    destruct (klass_eqb k (cl_k cl)) eqn:EQ; cbn [length].
    + apply klass_eqb_eq in EQ. subst k. rewrite C1, bump_same in IH.
      unfold over_limit in OL. rewrite PC in OL. lia.
    + rewrite C1, bump_other in IH by (rewrite klass_eqb_sym'; exact EQ). exact IH.
  - unfold cont_class, continued; simpl. lia.
Qed.


Lemma unknown_cap m c e l : max_unknown c = Some l ->
  forall fuel i s,
  Z.of_nat (length (filter (cont_class c e UNKNOWN) (iters m c e fuel i s))) <= Z.max 0 (l - unk s).
Proof.
  intros MU. induction fuel as [|f IH]; intros i s; simpl; [lia|].
  destruct (iter m c e i s) as [[[s1|fn] s'] tr] eqn:E; simpl.
  - pose proof (continued_state _ _ _ _ _ _ _ _ E) as (cl & cs & F & C1 & U1 & OL & OU).
    specialize (IH (S i) s1).
    unfold cont_class at 1, continued, rec_class, rec_fail. cbn [ir_res ir_i]. rewrite F. cbn [andb].
    unfold unk_after in *.
    destruct (klass_eqb UNKNOWN (cl_k cl)) eqn:EQ; cbn [length].
    + rewrite klass_eqb_sym' in EQ. rewrite EQ in *. simpl in OU.
      unfold over_unknown in OU. rewrite MU in OU. rewrite U1 in IH. lia.
    + rewrite klass_eqb_sym' in EQ. rewrite EQ in *. rewrite U1 in IH. exact IH.
  - unfold cont_class, continued; simpl. lia.
Qed.

(** the records of one call()/execute() *)
Definition run_iters m c e start b : list irec :=
  iters m c e (Z.to_nat (max_attempts c)) 0 (init_rst start b).

Lemma per_class_bound m c e start b k l :
  per_class c k = Some l ->
  Z.of_nat (length (filter (cont_class c e k) (run_iters m c e start b))) <= Z.max 0 l.
Proof.
  intros PC. pose proof (per_class_cap m c e k l PC (Z.to_nat (max_attempts c)) 0%nat (init_rst start b)) as H.
  simpl in H. unfold run_iters. lia.
Qed.

Lemma unknown_bound m c e start b l :
  max_unknown c = Some l ->
  Z.of_nat (length (filter (cont_class c e UNKNOWN) (run_iters m c e start b))) <= Z.max 0 l.
Proof.
  intros MU. pose proof (unknown_cap m c e l MU (Z.to_nat (max_attempts c)) 0%nat (init_rst start b)) as H.
  simpl in H. unfold run_iters. lia.
Qed.

Lemma nonretryable_last m c e start b r cl cs a t :
  In r (run_iters m c e start b) -> rec_fail c e r = Some (cl, cs) -> nonretryable (cl_k cl) = true ->
  In (EInvoke a t) (run_trace m c e start b) -> a <= Z.of_nat (ir_i r) + 1.
Proof.
  intros Hr Hf Hn Hin. unfold run_iters in Hr. unfold run_trace, run in Hin.
  eapply last_iteration; eauto. eapply nonretryable_ends; eauto.
Qed.

(** the number of operation invocations that follow a class-k failure is bounded by the number of
    continuing class-k iterations: each continuing iteration is followed by at most one invocation *)
Lemma invoke_has_record m c e start b a t :
  In (EInvoke a t) (run_trace m c e start b) ->
  exists r, In r (run_iters m c e start b) /\ a = Z.of_nat (ir_i r) + 1.
Proof.
  intros H. unfold run_trace, run in H. apply invoke_in_run in H as (r & Hr & Ha & _). eauto.
Qed.

Lemma later_record_means_continued m c e start b r r' :
  In r (run_iters m c e start b) -> In r' (run_iters m c e start b) -> (ir_i r < ir_i r')%nat -> continued r = true.
Proof.
  unfold run_iters. intros Hr Hr' Hlt.
  apply In_nth_error in Hr as [n Hn]. apply In_nth_error in Hr' as [n' Hn'].
  pose proof (iters_nth _ _ _ _ _ _ _ _ Hn) as (I1 & _). pose proof (iters_nth _ _ _ _ _ _ _ _ Hn') as (I1' & _).
  eapply iters_continued; eauto.
  assert (n' < length (iters m c e (Z.to_nat (max_attempts c)) 0 (init_rst start b)))%nat by (apply nth_error_Some; congruence).
  lia.
Qed.

(** counters never carry over: every call of a sequence is a [run] from a fresh [init_rst] *)
Lemma run_seq_fresh : forall calls start b j k d tr,
  nth_error calls j = Some k -> nth_error (run_seq calls start b) j = Some (d, tr) ->
  exists start' b', d = run_delivery (cs_mode k) (cs_cfg k) (cs_env k) start' b' /\
                    tr = run_trace (cs_mode k) (cs_cfg k) (cs_env k) start' b'.
Proof.
  induction calls as [|k0 r IH]; intros start b j k d tr Hk Hr; [destruct j; discriminate|].
  simpl in Hr. destruct (run (cs_mode k0) (cs_cfg k0) (cs_env k0) (start + cs_gap k0) b) as [[d0 sf] tr0] eqn:R.
  destruct j as [|j]; simpl in *.
  - inversion Hk; inversion Hr; subst. exists (start + cs_gap k), b.
    unfold run_delivery, run_trace. rewrite R. split; reflexivity.
  - eapply IH; eauto.
Qed.
