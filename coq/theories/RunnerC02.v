(** RunnerC02.v — deadline envelope (C02). *)
From Redress Require Import Base Window Budget Runner RunnerProofs RunnerSpec RunnerC01 RunnerC03 RunnerFull RunnerLoop.

(** the world's side of the timing contract: attempts do not take negative time and a sleeper sleeps
    at least what it is asked *)
Definition timing_ok (e : env) : Prop := (forall i, 0 <= snd (op e i)) /\ (forall i, 0 <= over e i).

(** membership in an iteration's event list = membership in the trace chunk of that iteration *)
Lemma rec_events_tr m c e fuel i s r :
  In r (iters m c e fuel i s) -> rec_events c e r = ir_tr r.
Proof. intros H. apply iters_In in H as [_ Hi]. unfold rec_events. symmetry. eapply iter_full; eauto. Qed.

(** (1) no attempt other than the first starts after the deadline *)
Lemma attempt_start_within_deadline m c e start b a t :
  In (EInvoke a t) (run_trace m c e start b) -> 2 <= a -> t - start <= deadline c.
Proof.
  intros H A. unfold run_trace, run in H. apply invoke_in_run in H as (r & Hr & -> & ->).
  pose proof (run_top m c e start b r Hr) as T. apply (top_deadline _ _ _ _ T). lia.
Qed.

(** what a sleeper call of an iteration looks like *)
Lemma sleep_facts m c e start b w d t :
  In (ESleep w d t) (run_trace m c e start b) ->
  exists r cl cs bv, In r (run_iters m c e start b) /\
    iter_verdict c e (ir_i r) (ir_pre r) = IBackoff cl cs d bv /\
    t = now (at_fail e (ir_i r) (ir_pre r)) /\ w = sleeper_who c /\
    elapsed (at_fail e (ir_i r) (ir_pre r)) < deadline c /\
    d = sanitize (strat e (ir_i r)) (deadline c - elapsed (at_fail e (ir_i r) (ir_pre r))).
Proof.
  intros H. apply in_run_trace in H as (r & Hr & Hx); [|reflexivity].
  pose proof Hr as Hr'. unfold run_iters in Hr'. rewrite (rec_events_tr _ _ _ _ _ _ _ Hr') in Hx.
  apply iters_In in Hr' as [_ Hi].
  apply (sleep_iff _ _ _ _ _ _ _ _ w d t Hi) in Hx as (cl & cs & bv & V & _ & _ & W & T).
  exists r, cl, cs, bv. split; [exact Hr|]. split; [exact V|]. split; [exact T|]. split; [exact W|].
  apply verdict_backoff_inv in V as (_ & _ & _ & HV & _).
  apply hf_retry_inv in HV as (_ & _ & _ & EL & _ & _ & D & _). auto.
Qed.

(** (2) a requested sleep is never negative and never longer than the time then remaining *)
Lemma sleep_within_remaining m c e start b w d t :
  In (ESleep w d t) (run_trace m c e start b) -> 0 <= d <= deadline c - (t - start).
Proof.
  intros H. apply sleep_facts in H as (r & cl & cs & bv & Hr & _ & -> & _ & EL & ->).
  pose proof (run_top _ _ _ _ _ _ Hr) as T. destruct T as [T0 _ _ _ _ _].
  unfold elapsed, at_fail in *; norm. rewrite T0 in *.
  apply sanitize_nonneg. lia.
Qed.

(** (3) total requested sleep *)
Definition sleep_of (x : ev) : Z := match x with ESleep _ d _ => d | _ => 0 end.
Fixpoint total_sleep (tr : list ev) : Z := match tr with [] => 0 | x :: r => sleep_of x + total_sleep r end.
Lemma total_sleep_app a b : total_sleep (a ++ b) = total_sleep a + total_sleep b.
Proof. induction a as [|x a IH]; simpl; [reflexivity|]. rewrite IH. lia. Qed.
Lemma total_sleep_filter tr : total_sleep tr = total_sleep (filter is_sleep tr).
Proof. induction tr as [|x r IH]; simpl; [reflexivity|]. destruct x; simpl; lia. Qed.

Lemma fs_emit c n att sl k err r cs ra : filter is_sleep (emit_evs c n att sl k err r cs ra) = [].
Proof. unfold emit_evs. destruct (has_metric c); destruct (has_log c); reflexivity. Qed.
Lemma fs_poll c a : filter is_sleep (poll_event c a) = [].
Proof. unfold poll_event. destruct (has_abort c); reflexivity. Qed.
Lemma fs_strat c att cl cs s : filter is_sleep (strat_event c att cl cs s) = [].
Proof. unfold strat_event. destruct (select_strategy c (cl_k cl)) as [[sd []]|]; reflexivity. Qed.
Lemma fs_budget c s : filter is_sleep (budget_event c s) = [].
Proof. unfold budget_event. destruct (budget c); reflexivity. Qed.
Lemma fs_handler c e i att k d : filter is_sleep (handler_event c e i att k d) = [].
Proof. unfold handler_event. destruct (resolve (handler_p c) (handler_c c)); reflexivity. Qed.
Lemma fs_bs c att d : filter is_sleep (bs_event c att d) = [].
Proof. unfold bs_event. destruct (resolve (bs_p c) (bs_c c)); reflexivity. Qed.
Lemma fs_cls cs att : filter is_sleep (cls_event cs att) = [].
Proof. destruct cs; reflexivity. Qed.
Lemma fs_aborted_once c s att : filter is_sleep (aborted_once_evs c s att) = [].
Proof. unfold aborted_once_evs, aborted_evs. destruct (last_stop s) as [[]|]; try apply fs_emit; reflexivity. Qed.

Ltac fs1 := rewrite ?filter_app, ?fs_emit, ?fs_poll, ?fs_strat, ?fs_budget, ?fs_handler, ?fs_bs, ?fs_cls, ?fs_aborted_once.
Ltac fs := unfold aborted_evs, stop_evs, retry_evs, sched_evs, success_evs;
           fs1; simpl; fs1; simpl; fs1; rewrite ?app_nil_r.

Definition iter_sleep (c : cfg) (e : env) (i : nat) (s : rst) : list ev :=
  match iter_verdict c e i s with
  | IBackoff cl cs d bv =>
      match handler_dec c e i, bs_cancelled c e i with
      | HSleep, None => [ESleep (sleeper_who c) d (now (at_fail e i s))]
      | _, _ => []
      end
  | _ => []
  end.

Lemma fail_full_sleeps c e i s cl cs :
  filter is_sleep (fail_full c e i s cl cs) =
  if pa c e s 1 then [] else
  match hf_verdict c e i (Z.of_nat i + 1) (cl_k cl) (at_fail e i s) with
  | inl _ => []
  | inr d => if pa c e s 2 then [] else
             match handler_dec c e i, bs_cancelled c e i with
             | HSleep, None => [ESleep (sleeper_who c) d (now (at_fail e i s))]
             | _, _ => []
             end
  end.
Proof.
  unfold fail_full. fs. destruct (pa c e s 1); [fs; reflexivity|]. fs.
  assert (Z: filter is_sleep (if hf_consulted c (Z.of_nat i + 1) (cl_k cl) (at_fail e i s)
                              then strat_event c (Z.of_nat i + 1) cl cs (at_fail e i s) ++ budget_event c (at_fail e i s) else []) = []).
  { destruct (hf_consulted c (Z.of_nat i + 1) (cl_k cl) (at_fail e i s)); fs; reflexivity. }
  rewrite Z. simpl.
  destruct (hf_verdict c e i (Z.of_nat i + 1) (cl_k cl) (at_fail e i s)) as [r|d]; [fs; reflexivity|]. fs.
  destruct (pa c e s 2); [fs; reflexivity|].
  unfold backoff_tail, backoff_verdict, sleep_event. fs.
  destruct (handler_dec c e i); fs; try reflexivity.
  destruct (bs_cancelled c e i); fs; [reflexivity|].
  destruct (sleep_cancel e i); fs; [reflexivity|].
  destruct (deadline c <? _); fs; [reflexivity|].
  destruct (Z.of_nat i + 1 =? max_attempts c); fs; reflexivity.
Qed.

Lemma full_events_sleeps c e i s : filter is_sleep (full_events c e i s) = iter_sleep c e i s.
Proof.
  unfold full_events, iter_sleep, iter_verdict. fs.
  destruct (pa c e s 0); [fs; reflexivity|]. simpl.
  destruct (fst (op e i)) as [rc|cl| |k|]; cbn [fail_of]; fs; try reflexivity.
  - assert (Z: filter is_sleep (if has_rc c then [ERClassify (Z.of_nat i + 1)] else []) = []) by (destruct (has_rc c); reflexivity).
    rewrite Z. simpl. destruct (has_rc c); [|fs; reflexivity]. destruct rc as [cl|]; [|fs; reflexivity].
    rewrite fail_full_sleeps. destruct (pa c e s 1); [reflexivity|].
    destruct (hf_verdict c e i (Z.of_nat i + 1) (cl_k cl) (at_fail e i s)); [reflexivity|].
    destruct (pa c e s 2); reflexivity.
  - rewrite fail_full_sleeps. destruct (pa c e s 1); [reflexivity|].
    destruct (hf_verdict c e i (Z.of_nat i + 1) (cl_k cl) (at_fail e i s)); [reflexivity|].
    destruct (pa c e s 2); reflexivity.
Qed.

(** per iteration: the requested sleep fits into the time that remained at the loop top, and a
    continuing iteration leaves at least that much less *)
Lemma iter_sleep_budget m c e i s res s2 tr :
  timing_ok e -> iter m c e i s = (res, s2, tr) ->
  total_sleep tr <= Z.max 0 (deadline c - elapsed s) /\
  0 <= total_sleep tr /\
  (forall s1, res = inl s1 -> total_sleep tr + Z.max 0 (deadline c - elapsed s1) <= Z.max 0 (deadline c - elapsed s)).
Proof.
  intros [TD TO] H. pose proof (iter_full _ _ _ _ _ _ _ _ H) as F.
  rewrite total_sleep_filter, F, full_events_sleeps. unfold iter_sleep.
  destruct (iter_verdict c e i s) as [| | | | | | | |cl cs d bv] eqn:V;
    try (simpl; split; [lia|]; split; [lia|]; intros s1 ->; apply continued_verdict in H as (? & ? & ? & V' & _); congruence).
  pose proof V as V0. apply verdict_backoff_inv in V0 as (_ & _ & _ & HV & _ & BV).
  apply hf_retry_inv in HV as (_ & _ & _ & EL & _ & _ & D & _).
  assert (DB: 0 <= d <= deadline c - elapsed (at_fail e i s)) by (subst d; apply sanitize_nonneg; lia).
  assert (EF: elapsed s <= elapsed (at_fail e i s)) by (unfold elapsed, at_fail; norm; specialize (TD i); lia).
  destruct (handler_dec c e i) eqn:HD; try (simpl; split; [lia|]; split; [lia|]; intros s1 ->;
    apply continue_facts in H as (? & ? & ? & V' & _); rewrite V in V'; inversion V'; subst;
    unfold backoff_verdict in *; rewrite HD in *; discriminate).
  destruct (bs_cancelled c e i) eqn:BC; try (simpl; split; [lia|]; split; [lia|]; intros s1 ->;
    apply continue_facts in H as (? & ? & ? & V' & _); rewrite V in V'; inversion V'; subst;
    unfold backoff_verdict in *; rewrite HD, BC in *; discriminate).
  simpl. split; [lia|]. split; [lia|]. intros s1 ->.
  apply continue_facts in H as (cl' & cs' & d' & V' & _ & T1 & _ & _ & _ & N1 & DL1 & _).
  rewrite V in V'. inversion V'; subst d'.
  unfold elapsed, at_fail in *; norm. rewrite T1 in *. specialize (TO i). lia.
Qed.

Lemma iters_total_sleep m c e : timing_ok e -> forall fuel i s,
  0 <= total_sleep (chunks (iters m c e fuel i s)) <= Z.max 0 (deadline c - elapsed s).
Proof.
  intros TM. induction fuel as [|f IH]; intros i s; simpl; [unfold chunks; simpl; lia|].
  destruct (iter m c e i s) as [[[s1|fn] s'] tr] eqn:E; unfold chunks in *; simpl.
  - rewrite total_sleep_app.
    pose proof (iter_sleep_budget _ _ _ _ _ _ _ _ TM E) as (_ & P & K). specialize (K s1 eq_refl).
    specialize (IH (S i) s1). lia.
  - rewrite app_nil_r. pose proof (iter_sleep_budget _ _ _ _ _ _ _ _ TM E) as (B & P & _). lia.
Qed.

Lemma total_sleep_bounded m c e start b :
  timing_ok e -> 0 <= total_sleep (run_trace m c e start b) <= Z.max 0 (deadline c).
Proof.
  intros TM. unfold run_trace, run. rewrite loop_trace, total_sleep_app.
  pose proof (iters_total_sleep m c e TM (Z.to_nat (max_attempts c)) 0%nat (init_rst start b)) as H.
  assert (Z: total_sleep (match exhausted m c e (Z.to_nat (max_attempts c)) 0 (init_rst start b) with
                          | Some sf => snd (fallthrough m c e sf) | None => [] end) = 0).
  { destruct (exhausted m c e (Z.to_nat (max_attempts c)) 0 (init_rst start b)); [|reflexivity].
    rewrite fallthrough_trace, total_sleep_filter. unfold fallthrough_evs. rewrite fs_emit. reflexivity. }
  rewrite Z. unfold elapsed in H; simpl in H. replace (start - start) with 0 in H by lia. lia.
Qed.

(** (4) a failure observed at or after the deadline is never retried: the iteration ends the run
    without a strategy call, a budget token, a retry event, a sleep or another attempt *)
Lemma failure_at_deadline_verdict c e i s cl cs :
  pa c e s 0 = false -> fail_of c (fst (op e i)) = Some (cl, cs) ->
  deadline c <= elapsed (at_fail e i s) ->
  iter_verdict c e i s = IAbortAfterFail cl cs \/
  exists r, iter_verdict c e i s = IStop cl cs r /\ hf_consulted c (Z.of_nat i + 1) (cl_k cl) (at_fail e i s) = false.
Proof.
  intros P0 F DL. unfold iter_verdict. rewrite P0.
  assert (HV: exists r, hf_verdict c e i (Z.of_nat i + 1) (cl_k cl) (at_fail e i s) = inl r /\
                        hf_consulted c (Z.of_nat i + 1) (cl_k cl) (at_fail e i s) = false).
  { unfold hf_verdict, hf_consulted.
    destruct (over_limit c (cl_k cl) (cnt (at_fail e i s) (cl_k cl) + 1)); [eexists; split; reflexivity|].
    destruct (nonretryable (cl_k cl)); [eexists; split; reflexivity|].
    destruct (klass_eqb (cl_k cl) UNKNOWN && over_unknown c (unk_after (cl_k cl) (unk (at_fail e i s)))); [eexists; split; reflexivity|].
    destruct (deadline c <? elapsed (at_fail e i s)) eqn:D1; [eexists; split; reflexivity|].
    destruct (select_strategy c (cl_k cl)); [|eexists; split; reflexivity].
    replace (deadline c - elapsed (at_fail e i s) <=? 0) with true by lia. eexists; split; reflexivity. }
  destruct HV as (r & HV & HC).
  destruct (fst (op e i)) as [rc|cl0| |k|]; cbn [fail_of] in *; try discriminate.
  - rewrite F. destruct (pa c e s 1); [left; reflexivity|]. rewrite HV. right. eauto.
  - inversion F; subst. destruct (pa c e s 1); [left; reflexivity|]. rewrite HV. right. eauto.
Qed.

Definition is_retry_work (x : ev) : bool :=
  match x with
  | ESleep _ _ _ | EStrat _ _ _ _ _ _ _ _ | EBudget _ | EHandler _ _ _ _ _ | EBeforeSleep _ _ _ => true
  | EMetric N_RETRY _ _ _ | ELog N_RETRY _ _ _ _ => true
  | _ => false
  end.

Lemma rw_emit c n att sl k err r cs ra : n <> N_RETRY -> filter is_retry_work (emit_evs c n att sl k err r cs ra) = [].
Proof. intros N. unfold emit_evs. destruct (has_metric c); destruct (has_log c); destruct n; simpl; congruence. Qed.
Lemma rw_poll c a : filter is_retry_work (poll_event c a) = [].
Proof. unfold poll_event. destruct (has_abort c); reflexivity. Qed.
Lemma rw_cls cs att : filter is_retry_work (cls_event cs att) = [].
Proof. destruct cs; reflexivity. Qed.
Lemma name_of_stop_not_retry r : name_of_stop r <> N_RETRY.
Proof. destruct r; discriminate. Qed.

Lemma no_retry_at_deadline m c e i s res s2 tr cl cs :
  iter m c e i s = (res, s2, tr) -> pa c e s 0 = false -> fail_of c (fst (op e i)) = Some (cl, cs) ->
  deadline c <= elapsed (at_fail e i s) ->
  filter is_retry_work tr = [] /\ exists fn, res = inr fn.
Proof.
  intros H P0 F DL. pose proof (iter_full _ _ _ _ _ _ _ _ H) as FT.
  pose proof (iter_spec _ _ _ _ _ _ _ _ H) as SP. cbn zeta in SP. destruct SP as (_ & _ & SV).
  pose proof (failure_at_deadline_verdict c e i s cl cs P0 F DL) as V.
  assert (RC: filter is_retry_work (if has_rc c then [ERClassify (Z.of_nat i + 1)] else []) = []) by (destruct (has_rc c); reflexivity).
  assert (FF: filter is_retry_work (fail_full c e i s cl cs) = []).
  { unfold fail_full, iter_verdict in *. rewrite P0 in V.
    destruct (pa c e s 1) eqn:P1.
    - rewrite filter_app, rw_poll. unfold aborted_evs. rewrite rw_emit by discriminate. reflexivity.
    - destruct V as [V|(r & V & HC)].
      + destruct (fst (op e i)) as [rc|cl0| |k|]; cbn [fail_of] in *; try discriminate.
        * rewrite F in V. destruct (hf_verdict c e i (Z.of_nat i + 1) (cl_k cl) (at_fail e i s)); [discriminate|].
          destruct (pa c e s 2); discriminate.
        * destruct (hf_verdict c e i (Z.of_nat i + 1) (cl_k cl0) (at_fail e i s)); [discriminate|].
          destruct (pa c e s 2); discriminate.
      + rewrite HC.
        assert (HV: hf_verdict c e i (Z.of_nat i + 1) (cl_k cl) (at_fail e i s) = inl r).
        { destruct (fst (op e i)) as [rc|cl0| |k|]; cbn [fail_of] in *; try discriminate.
          - rewrite F in V. destruct (hf_verdict c e i (Z.of_nat i + 1) (cl_k cl) (at_fail e i s)); [inversion V; reflexivity|].
            destruct (pa c e s 2); discriminate.
          - inversion F; subst.
            destruct (hf_verdict c e i (Z.of_nat i + 1) (cl_k cl) (at_fail e i s)); [inversion V; reflexivity|].
            destruct (pa c e s 2); discriminate. }
        rewrite HV. rewrite !filter_app, rw_poll, rw_cls. unfold stop_evs. rewrite rw_emit by apply name_of_stop_not_retry.
        reflexivity. }
  split.
  - rewrite FT. unfold full_events. rewrite P0, !filter_app, rw_poll. simpl.
    destruct (fst (op e i)) as [rc|cl0| |k|]; cbn [fail_of] in *; try discriminate.
    + rewrite F, filter_app, RC, FF. reflexivity.
    + inversion F; subst. exact FF.
  - destruct V as [V|(r & V & _)]; rewrite V in SV; destruct SV as (-> & _); eauto.
Qed.
