(** RunnerC02.v — deadline envelope (C02). *)
From Redress Require Import Base Window Budget Runner RunnerProofs RunnerSpec RunnerC01 RunnerC03.

(** the world's side of the timing contract: attempts do not take negative time and a sleeper sleeps
    at least what it is asked *)
Definition timing_ok (e : env) : Prop := (forall i, 0 <= snd (op e i)) /\ (forall i, 0 <= over e i).

Lemma sanitize_bounds v rem : 0 < rem -> 0 <= sanitize v rem <= rem.
Proof. unfold sanitize. intros H. destruct v; lia. Qed.

(** facts about a continuing iteration *)
Lemma continue_timing m c e i s s1 s2 tr :
  iter m c e i s = (inl s1, s2, tr) ->
  exists d, t0 s1 = t0 s /\ now s1 = now s + snd (op e i) + d + over e i /\
            now s1 - t0 s1 <= deadline c /\
            0 <= d <= deadline c - (now s + snd (op e i) - t0 s).
Proof.
  intros H. pose proof (continued_verdict _ _ _ _ _ _ _ _ H) as (cl & cs & d & V & ->).
  pose proof (iter_spec _ _ _ _ _ _ _ _ H) as SP. cbn zeta in SP. destruct SP as (T0 & _ & SV).
  rewrite V in SV. destruct SV as (_ & _ & _ & _ & _ & _ & _ & _ & N).
  apply verdict_backoff_inv in V as (_ & _ & _ & HV & _ & BV).
  apply hf_retry_inv in HV as (_ & _ & _ & EL & _ & _ & D & _).
  exists d. split; [exact T0|]. split; [exact N|].
  unfold backoff_verdict in BV.
  destruct (handler_dec c e i); try discriminate. destruct (bs_cancelled c e i); [discriminate|].
  destruct (sleep_cancel e i); [discriminate|].
  destruct (deadline c <? now (at_fail e i s) + d + over e i - t0 (at_fail e i s)) eqn:DL; [discriminate|].
  unfold at_fail, elapsed in *; norm. split; [lia|].
  subst d. apply sanitize_bounds. lia.
Qed.

(** loop invariant: t0 is the start of the call, and from the second attempt on the loop top is
    reached within the deadline *)
Lemma iters_pre_inv m c e : forall fuel i s r,
  In r (iters m c e fuel i s) ->
  t0 (ir_pre r) = t0 s /\ (ir_i r = i \/ now (ir_pre r) - t0 s <= deadline c).
Proof.
  induction fuel as [|f IH]; intros i s r H; simpl in H; [destruct H|].
  destruct (iter m c e i s) as [[[s1|fn] s'] tr] eqn:E.
  - destruct H as [<-|H]; [simpl; auto|].
    pose proof (continue_timing _ _ _ _ _ _ _ _ E) as (d & T & _ & DL & _).
    destruct (IH _ _ _ H) as [T' O]. split; [congruence|]. right.
    destruct O as [O|O]; [|rewrite T in O; exact O].
    apply iters_In in H as [_ Hi].
    assert (ir_pre r = s1).
    { clear IH. destruct f; simpl in *; [tauto|].
      revert O. generalize dependent r. intros r Hr. clear Hr. intros. 
      (* the record with index S i in iters f (S i) s1 is the first one, whose pre-state is s1 *)
      admit_placeholder. }
    subst. rewrite <- T. exact DL.
  - destruct H as [<-|[]]. simpl. auto.
Qed.
