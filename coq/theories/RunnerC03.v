(** RunnerC03.v — retry exactly when permitted (C03). *)
From Redress Require Import Base Window Budget Runner RunnerProofs RunnerSpec RunnerC01.

(** the stop conditions that can be evaluated when the failure is observed *)
Definition static_ok (c : cfg) (e : env) (i : nat) (s : rst) (k : klass) : Prop :=
  nonretryable k = false /\
  select_strategy c k <> None /\
  (forall l, per_class c k = Some l -> cnt s k + 1 <= l) /\
  (k = UNKNOWN -> forall l, max_unknown c = Some l -> unk s + 1 <= l) /\
  elapsed (at_fail e i s) < deadline c /\
  Z.of_nat i + 1 < max_attempts c.

Definition budget_grants (c : cfg) (e : env) (i : nat) (s : rst) : Prop :=
  forall b, budget c = Some b -> fst (consume b (now (at_fail e i s)) 1 (bev s)) = RGrant.

Lemma klass_UNKNOWN_eqb k : klass_eqb k UNKNOWN = true <-> k = UNKNOWN.
Proof. apply klass_eqb_eq. Qed.

Lemma consulted_iff c e i s k :
  hf_consulted c (Z.of_nat i + 1) k (at_fail e i s) = true <-> static_ok c e i s k.
Proof.
  unfold hf_consulted, static_ok, over_limit, over_unknown, unk_after, at_fail; norm.
  destruct (nonretryable k); simpl; [rewrite andb_false_r; simpl; split; [discriminate|intros (? & _); discriminate]|].
  destruct (select_strategy c k) eqn:SS.
  2:{ rewrite !andb_false_r. simpl. split; [discriminate|intros (_ & ? & _); congruence]. }
  destruct (per_class c k) as [l|] eqn:PC; destruct (klass_eqb k UNKNOWN) eqn:KU;
  destruct (max_unknown c) as [mu|] eqn:MU; simpl;
  rewrite ?andb_true_r, ?andb_true_iff, ?negb_true_iff, ?Z.ltb_ge, ?Z.ltb_lt, ?Z.leb_gt, ?Z.leb_le;
  try (apply klass_UNKNOWN_eqb in KU);
  (split; [intros H; decompose [and] H; repeat split; try discriminate; try lia;
           try (intros ? E; inversion E; subst; lia); try (intros ? ? E; inversion E; subst; lia);
           try (intros ? ? E; discriminate); try (intros ? E; discriminate)
          |intros (_ & _ & P & U & D & G); repeat split; try lia;
           try (specialize (P _ eq_refl); lia); try (specialize (U KU _ eq_refl); lia)]).
  all: try (intros KU'; subst k; discriminate).
Qed.

Lemma hf_retry_iff c e i s k d :
  hf_verdict c e i (Z.of_nat i + 1) k (at_fail e i s) = inr d <->
  static_ok c e i s k /\ budget_grants c e i s /\
  d = sanitize (strat e i) (deadline c - elapsed (at_fail e i s)).
Proof.
  split.
  - intros H. pose proof (hf_retry_inv _ _ _ _ _ _ _ H) as (OL & NR & OU & EL & SS & MA & D & BG).
    split; [|split; [|exact D]].
    + apply consulted_iff. unfold hf_consulted. rewrite OL, NR, OU. simpl.
      destruct (select_strategy c k); [|congruence].
      replace (deadline c <? elapsed (at_fail e i s)) with false by lia.
      replace (deadline c - elapsed (at_fail e i s) <=? 0) with false by lia.
      replace (max_attempts c <=? Z.of_nat i + 1) with false by lia. reflexivity.
    + unfold budget_grants. unfold at_fail in *; norm. exact BG.
  - intros (SO & BG & ->). apply consulted_iff in SO. unfold hf_consulted in SO. unfold hf_verdict.
    destruct (over_limit c k (cnt (at_fail e i s) k + 1)); [discriminate|].
    destruct (nonretryable k); [discriminate|].
    destruct (klass_eqb k UNKNOWN && over_unknown c (unk_after k (unk (at_fail e i s)))); [discriminate|].
    destruct (deadline c <? elapsed (at_fail e i s)); [discriminate|].
    destruct (select_strategy c k); [|discriminate].
    destruct (deadline c - elapsed (at_fail e i s) <=? 0); [discriminate|].
    destruct (max_attempts c <=? Z.of_nat i + 1); [discriminate|].
    unfold budget_grants in BG. unfold at_fail in *; norm.
    destruct (budget c) as [b|]; [rewrite (BG b eq_refl)|]; reflexivity.
Qed.

(** "a failed attempt is followed by another attempt iff ...": the loop goes on to the next
    iteration exactly when every condition of the property holds at that moment *)
Definition permitted (c : cfg) (e : env) (i : nat) (s : rst) : Prop :=
  pa c e s 0 = false /\
  exists cl cs, fail_of c (fst (op e i)) = Some (cl, cs) /\
    pa c e s 1 = false /\                                  (* no abort requested after the failure *)
    static_ok c e i s (cl_k cl) /\                        (* retryable, strategy, caps, deadline *)
    budget_grants c e i s /\                              (* the budget grants a token *)
    pa c e s 2 = false /\                                  (* no abort requested before the backoff *)
    handler_dec c e i = HSleep /\                         (* the sleep handler neither defers nor aborts *)
    bs_cancelled c e i = None /\ sleep_cancel e i = None /\    (* no cancellation during the backoff *)
    (* the deadline did not pass during the sleep (overshoot is the sleeper's) *)
    now (at_fail e i s) + sanitize (strat e i) (deadline c - elapsed (at_fail e i s)) + over e i - t0 s <= deadline c.

Lemma verdict_continue_iff c e i s :
  (exists cl cs d, iter_verdict c e i s = IBackoff cl cs d BContinue) <-> permitted c e i s.
Proof.
  split.
  - intros (cl & cs & d & V). apply verdict_backoff_inv in V as (P0 & F & P1 & HV & P2 & BV).
    apply hf_retry_iff in HV as (SO & BG & D).
    split; [exact P0|]. exists cl, cs. split; [exact F|]. split; [exact P1|]. split; [exact SO|].
    split; [exact BG|]. split; [exact P2|].
    unfold backoff_verdict in BV.
    destruct (handler_dec c e i); try discriminate. split; [reflexivity|].
    destruct (bs_cancelled c e i); [discriminate|]. split; [reflexivity|].
    destruct (sleep_cancel e i); [discriminate|]. split; [reflexivity|].
    destruct (deadline c <? now (at_fail e i s) + d + over e i - t0 (at_fail e i s)) eqn:DL; [discriminate|].
    subst d. unfold at_fail in *; norm. lia.
  - intros (P0 & cl & cs & F & P1 & SO & BG & P2 & HD & BC & SC & DL).
    exists cl, cs, (sanitize (strat e i) (deadline c - elapsed (at_fail e i s))).
    unfold iter_verdict. rewrite P0.
    assert (HV: hf_verdict c e i (Z.of_nat i + 1) (cl_k cl) (at_fail e i s) =
                inr (sanitize (strat e i) (deadline c - elapsed (at_fail e i s)))).
    { apply hf_retry_iff. auto. }
    assert (BV: backoff_verdict c e i (Z.of_nat i + 1) (sanitize (strat e i) (deadline c - elapsed (at_fail e i s)))
                  (at_fail e i s) = BContinue).
    { unfold backoff_verdict. rewrite HD, BC, SC.
      destruct SO as (_ & _ & _ & _ & _ & MA).
      replace (deadline c <? _) with false by (unfold at_fail in *; norm; lia).
      replace (Z.of_nat i + 1 =? max_attempts c) with false by lia. reflexivity. }
    destruct (fst (op e i)) as [rc|cl0| |k|] eqn:O; try (cbn [fail_of] in F; discriminate).
    + rewrite F, P1, HV, P2, BV. reflexivity.
    + cbn [fail_of] in *. inversion F; subst. rewrite P1, HV, P2, BV. reflexivity.
Qed.

Lemma iter_continue_iff m c e i s :
  (exists s1 s2 tr, iter m c e i s = (inl s1, s2, tr)) <-> permitted c e i s.
Proof.
  rewrite <- verdict_continue_iff. split.
  - intros (s1 & s2 & tr & H). apply continued_verdict in H as (cl & cs & d & V & _). eauto.
  - intros (cl & cs & d & V).
    destruct (iter m c e i s) as [[res s2] tr] eqn:E.
    pose proof (iter_spec _ _ _ _ _ _ _ _ E) as SP. cbn zeta in SP. destruct SP as (_ & _ & SV).
    rewrite V in SV. destruct SV as (_ & _ & _ & _ & _ & _ & R & _). subst res. eauto.
Qed.

(** in particular a successful attempt ends the run at once *)
Lemma success_ends m c e i s res s2 tr :
  iter m c e i s = (res, s2, tr) -> pa c e s 0 = false ->
  fail_of c (fst (op e i)) = None ->
  (forall rc, fst (op e i) = OValue rc) ->
  res = inr (FSuccess (Z.of_nat i + 1)) /\
  strip tr = poll_event c false ++ [EInvoke (Z.of_nat i + 1) (now s)] ++ (if has_rc c then [ERClassify (Z.of_nat i + 1)] else []).
Proof.
  intros H P0 F O. pose proof (iter_spec _ _ _ _ _ _ _ _ H) as SP. cbn zeta in SP.
  destruct SP as (_ & ST & SV). unfold iter_verdict, iter_events in *. rewrite P0 in *.
  destruct (fst (op e i)) as [rc|cl| |k|] eqn:OO; try (specialize (O None); discriminate).
  rewrite F in *. destruct SV as (-> & _). split; [reflexivity|].
  rewrite ST. rewrite app_nil_r. reflexivity.
Qed.

(** events of an iteration: budget token, strategy call, sleep *)
Lemma budget_not_obs x : is_obs x = true -> is_budget x = false.
Proof. destruct x; simpl; congruence. Qed.
Lemma sleep_not_obs x : is_obs x = true -> is_sleep x = false.
Proof. destruct x; simpl; congruence. Qed.

Lemma fail_events_budget c e i s cl cs :
  filter is_budget (fail_events c e i s cl cs) =
  if pa c e s 1 then [] else
  if hf_consulted c (Z.of_nat i + 1) (cl_k cl) (at_fail e i s) then budget_event c (at_fail e i s) else [].
Proof.
  unfold fail_events. rewrite filter_app.
  assert (Z1: forall a, filter is_budget (poll_event c a) = []) by (intros a; unfold poll_event; destruct (has_abort c); reflexivity).
  rewrite Z1. simpl. destruct (pa c e s 1); [reflexivity|].
  rewrite !filter_app.
  assert (Z2: filter is_budget (match cs with CExc => [EClassify (Z.of_nat i + 1)] | CRes => [] end) = []) by (destruct cs; reflexivity).
  rewrite Z2. simpl.
  assert (Z3: filter is_budget
                match hf_verdict c e i (Z.of_nat i + 1) (cl_k cl) (at_fail e i s) with
                | inl _ => []
                | inr d => poll_event c (pa c e s 2) ++
                           (if pa c e s 2 then [] else backoff_events c e i (Z.of_nat i + 1) (cl_k cl) d (at_fail e i s))
                end = []).
  { destruct (hf_verdict c e i (Z.of_nat i + 1) (cl_k cl) (at_fail e i s)); [reflexivity|].
    rewrite filter_app, Z1. simpl. destruct (pa c e s 2); [reflexivity|].
    unfold backoff_events, handler_event, bs_event.
    repeat (rewrite ?filter_app; simpl);
    repeat match goal with
           | |- context [match ?x with _ => _ end] => destruct x; repeat (rewrite ?filter_app; simpl)
           end; reflexivity. }
  rewrite Z3, app_nil_r.
  destruct (hf_consulted c (Z.of_nat i + 1) (cl_k cl) (at_fail e i s)); [|reflexivity].
  rewrite filter_app.
  assert (Z4: filter is_budget (strat_event c (Z.of_nat i + 1) cl cs (at_fail e i s)) = []).
  { unfold strat_event. destruct (select_strategy c (cl_k cl)) as [[sd []]|]; reflexivity. }
  rewrite Z4. simpl. unfold budget_event. destruct (budget c); reflexivity.
Qed.

(** the budget is asked exactly when the failure passes every static stop condition (and no abort
    was requested); a token is spent exactly when it then grants *)
Lemma budget_asked_iff m c e i s res s2 tr cl cs g :
  iter m c e i s = (res, s2, tr) -> pa c e s 0 = false -> fail_of c (fst (op e i)) = Some (cl, cs) ->
  (In (EBudget g) tr <->
   pa c e s 1 = false /\ static_ok c e i s (cl_k cl) /\
   exists b, budget c = Some b /\
             g = match fst (consume b (now (at_fail e i s)) 1 (bev s)) with RGrant => true | _ => false end).
Proof.
  intros H P0 F. pose proof (iter_spec _ _ _ _ _ _ _ _ H) as SP. cbn zeta in SP. destruct SP as (_ & ST & _).
  assert (EQ: In (EBudget g) tr <-> In (EBudget g) (filter is_budget (iter_events c e i s))).
  { rewrite <- ST, <- (filter_strip is_budget tr budget_not_obs), filter_In. simpl. tauto. }
  rewrite EQ. unfold iter_events. rewrite P0. rewrite !filter_app.
  assert (Z1: forall a, filter is_budget (poll_event c a) = []) by (intros a; unfold poll_event; destruct (has_abort c); reflexivity).
  rewrite Z1. cbn [app filter is_budget].
  assert (FE: filter is_budget
                match fst (op e i) with
                | OValue rc => (if has_rc c then [ERClassify (Z.of_nat i + 1)] else []) ++
                               match fail_of c (OValue rc) with Some (cl, cs) => fail_events c e i s cl cs | None => [] end
                | ORaise cl => fail_events c e i s cl CExc
                | _ => []
                end = filter is_budget (fail_events c e i s cl cs)).
  { destruct (fst (op e i)) as [rc|cl0| |k|]; cbn [fail_of] in *; try discriminate.
    - rewrite filter_app. destruct (has_rc c); [|discriminate]. destruct rc; [|discriminate].
      inversion F; subst. reflexivity.
    - inversion F; subst. reflexivity. }
  rewrite FE, fail_events_budget.
  destruct (pa c e s 1); [split; [intros []|intros (? & _); discriminate]|].
  destruct (hf_consulted c (Z.of_nat i + 1) (cl_k cl) (at_fail e i s)) eqn:HC.
  - apply consulted_iff in HC. unfold budget_event. unfold at_fail at 1 2; norm.
    destruct (budget c) as [b|].
    + simpl. split.
      * intros [E|[]]. inversion E. split; [reflexivity|]. split; [exact HC|]. exists b. split; [reflexivity|].
        unfold at_fail; norm. reflexivity.
      * intros (_ & _ & b' & Hb & ->). inversion Hb; subst. left. unfold at_fail; norm. reflexivity.
    + split; [intros []|intros (_ & _ & b' & Hb & _); discriminate].
  - split; [intros []|]. intros (_ & SO & _). apply consulted_iff in SO. congruence.
Qed.

(** stop reasons are sound: a reason reported by _handle_failure is a stop condition that holds *)
Definition reason_holds (c : cfg) (e : env) (i : nat) (s : rst) (k : klass) (r : stop) : Prop :=
  match r with
  | S_PERCLASS => exists l, per_class c k = Some l /\ l < cnt s k + 1
  | S_NONRETRY => nonretryable k = true
  | S_UNKNOWN => k = UNKNOWN /\ exists l, max_unknown c = Some l /\ l < unk s + 1
  | S_DEADLINE => deadline c <= elapsed (at_fail e i s)
  | S_NOSTRAT => select_strategy c k = None
  | S_GLOBAL => max_attempts c <= Z.of_nat i + 1
  | S_BUDGET => static_ok c e i s k /\
                exists b, budget c = Some b /\ fst (consume b (now (at_fail e i s)) 1 (bev s)) <> RGrant
  | S_SCHED | S_ABORT => False
  end.

Lemma stop_reason_sound c e i s k r :
  hf_verdict c e i (Z.of_nat i + 1) k (at_fail e i s) = inl r -> reason_holds c e i s k r.
Proof.
  unfold hf_verdict.
  destruct (over_limit c k (cnt (at_fail e i s) k + 1)) eqn:OL.
  { intros H; inversion H; subst. unfold over_limit in OL. simpl.
    destruct (per_class c k) as [l|]; [|discriminate]. exists l. unfold at_fail in *; norm. split; [reflexivity|lia]. }
  destruct (nonretryable k) eqn:NR; [intros H; inversion H; subst; exact NR|].
  destruct (klass_eqb k UNKNOWN && over_unknown c (unk_after k (unk (at_fail e i s)))) eqn:OU.
  { intros H; inversion H; subst. apply andb_true_iff in OU as [KU OU]. simpl.
    split; [apply klass_eqb_eq; exact KU|]. unfold over_unknown, unk_after in OU. rewrite KU in OU.
    destruct (max_unknown c) as [l|]; [|discriminate]. exists l. unfold at_fail in *; norm. split; [reflexivity|lia]. }
  destruct (deadline c <? elapsed (at_fail e i s)) eqn:D1; [intros H; inversion H; subst; simpl; lia|].
  destruct (select_strategy c k) eqn:SS; [|intros H; inversion H; subst; exact SS].
  destruct (deadline c - elapsed (at_fail e i s) <=? 0) eqn:D2; [intros H; inversion H; subst; simpl; lia|].
  destruct (max_attempts c <=? Z.of_nat i + 1) eqn:MA; [intros H; inversion H; subst; simpl; lia|].
  destruct (budget c) as [b|] eqn:B; [|discriminate].
  destruct (fst (consume b (now (at_fail e i s)) 1 (bev (at_fail e i s)))) eqn:CO; try discriminate;
  intros H; inversion H; subst; simpl;
  (split; [apply consulted_iff; unfold hf_consulted; rewrite OL, NR, OU, D1, SS, D2, MA; reflexivity|];
   exists b; split; [exact B|]; unfold at_fail in *; norm; rewrite CO; discriminate).
Qed.

(** after a sleep the run goes on unless the deadline passed during that sleep (or the sleeper was
    cancelled): the library never backs off after the last permitted attempt *)
Lemma no_wasted_backoff c e i s cl cs d bv :
  iter_verdict c e i s = IBackoff cl cs d bv ->
  match bv with
  | BStop r => r = S_DEADLINE /\ deadline c < now (at_fail e i s) + d + over e i - t0 s
  | _ => True
  end.
Proof.
  intros V. apply verdict_backoff_inv in V as (_ & _ & _ & HV & _ & ->).
  apply hf_retry_inv in HV as (_ & _ & _ & _ & _ & MA & _).
  unfold backoff_verdict. destruct (handler_dec c e i); auto.
  destruct (bs_cancelled c e i); auto. destruct (sleep_cancel e i); auto.
  destruct (deadline c <? now (at_fail e i s) + d + over e i - t0 (at_fail e i s)) eqn:DL.
  - unfold at_fail in *; norm. split; [reflexivity|lia].
  - replace (Z.of_nat i + 1 =? max_attempts c) with false by lia. exact I.
Qed.

(** the sleeper is called exactly when a retry was granted, no abort was requested, the handler said
    SLEEP and before_sleep was not cancelled *)
Lemma backoff_events_sleep c e i att k d s :
  filter is_sleep (backoff_events c e i att k d s) =
  match handler_dec c e i, bs_cancelled c e i with
  | HSleep, None => [ESleep (sleeper_who c) d (now s)]
  | _, _ => []
  end.
Proof.
  unfold backoff_events, handler_event, bs_event, handler_dec.
  destruct (resolve (handler_p c) (handler_c c)); simpl.
  - destruct (handler e i); simpl; try reflexivity.
    rewrite filter_app. destruct (resolve (bs_p c) (bs_c c)); simpl; destruct (bs_cancelled c e i); reflexivity.
  - rewrite filter_app. destruct (resolve (bs_p c) (bs_c c)); simpl; destruct (bs_cancelled c e i); reflexivity.
Qed.

Lemma sleep_iff m c e i s res s2 tr w d t :
  iter m c e i s = (res, s2, tr) ->
  (In (ESleep w d t) tr <->
   exists cl cs bv, iter_verdict c e i s = IBackoff cl cs d bv /\ handler_dec c e i = HSleep /\
                    bs_cancelled c e i = None /\ w = sleeper_who c /\ t = now (at_fail e i s)).
Proof.
  intros H. pose proof (iter_spec _ _ _ _ _ _ _ _ H) as SP. cbn zeta in SP. destruct SP as (_ & ST & _).
  assert (EQ: In (ESleep w d t) tr <-> In (ESleep w d t) (filter is_sleep (iter_events c e i s))).
  { rewrite <- ST, <- (filter_strip is_sleep tr sleep_not_obs), filter_In. simpl. tauto. }
  rewrite EQ. clear EQ ST H.
  unfold iter_events, iter_verdict.
  assert (Z1: forall a, filter is_sleep (poll_event c a) = []) by (intros a; unfold poll_event; destruct (has_abort c); reflexivity).
  rewrite filter_app, Z1. simpl.
  destruct (pa c e s 0); [split; [intros []|intros (? & ? & ? & ? & _); discriminate]|].
  simpl.
  assert (FE: forall cl cs,
    (In (ESleep w d t) (filter is_sleep (fail_events c e i s cl cs)) <->
     exists bv, (if pa c e s 1 then IAbortAfterFail cl cs else
                 match hf_verdict c e i (Z.of_nat i + 1) (cl_k cl) (at_fail e i s) with
                 | inl r => IStop cl cs r
                 | inr d0 => if pa c e s 2 then IAbortAfterGrant cl cs d0
                             else IBackoff cl cs d0 (backoff_verdict c e i (Z.of_nat i + 1) d0 (at_fail e i s))
                 end) = IBackoff cl cs d bv /\
                handler_dec c e i = HSleep /\ bs_cancelled c e i = None /\ w = sleeper_who c /\ t = now (at_fail e i s))).
  { intros cl cs. unfold fail_events. rewrite filter_app, Z1. simpl.
    destruct (pa c e s 1); [split; [intros []|intros (? & ? & _); discriminate]|].
    rewrite !filter_app.
    assert (Z2: filter is_sleep (match cs with CExc => [EClassify (Z.of_nat i + 1)] | CRes => [] end) = []) by (destruct cs; reflexivity).
    assert (Z3: filter is_sleep (if hf_consulted c (Z.of_nat i + 1) (cl_k cl) (at_fail e i s)
                                 then strat_event c (Z.of_nat i + 1) cl cs (at_fail e i s) ++ budget_event c (at_fail e i s) else []) = []).
    { destruct (hf_consulted c (Z.of_nat i + 1) (cl_k cl) (at_fail e i s)); [|reflexivity].
      rewrite filter_app. unfold strat_event, budget_event.
      destruct (select_strategy c (cl_k cl)) as [[sd []]|]; destruct (budget c); reflexivity. }
    rewrite Z2, Z3. simpl.
    destruct (hf_verdict c e i (Z.of_nat i + 1) (cl_k cl) (at_fail e i s)) as [r|d0];
      [split; [intros []|intros (? & ? & _); discriminate]|].
    rewrite filter_app, Z1. simpl.
    destruct (pa c e s 2); [split; [intros []|intros (? & ? & _); discriminate]|].
    rewrite backoff_events_sleep.
    destruct (handler_dec c e i) eqn:HD; try (split; [intros []|intros (? & _ & ? & _); discriminate]).
    destruct (bs_cancelled c e i) eqn:BC; [split; [intros []|intros (? & _ & _ & ? & _); discriminate]|].
    split.
    - intros [E|[]]. inversion E; subst. eexists. repeat split; reflexivity.
    - intros (bv & E & _ & _ & -> & ->). inversion E; subst. left. reflexivity. }
  destruct (fst (op e i)) as [rc|cl| |k|]; cbn [fail_of];
    try (split; [intros []|intros (? & ? & ? & ? & _); discriminate]).
  - rewrite filter_app.
    assert (Z4: filter is_sleep (if has_rc c then [ERClassify (Z.of_nat i + 1)] else []) = []) by (destruct (has_rc c); reflexivity).
    rewrite Z4. simpl. destruct (has_rc c); [|split; [intros []|intros (? & ? & ? & ? & _); discriminate]].
    destruct rc as [cl|]; [|split; [intros []|intros (? & ? & ? & ? & _); discriminate]].
    rewrite FE. split.
    + intros (bv & E & R). exists cl, CRes, bv. split; [exact E|exact R].
    + intros (cl' & cs' & bv & E & R). exists bv.
      assert (cl' = cl /\ cs' = CRes) as [-> ->].
      { destruct (pa c e s 1); [discriminate|]. destruct (hf_verdict c e i (Z.of_nat i + 1) (cl_k cl) (at_fail e i s)); [discriminate|].
        destruct (pa c e s 2); [discriminate|]. inversion E; auto. }
      split; [exact E|exact R].
  - rewrite FE. split.
    + intros (bv & E & R). exists cl, CExc, bv. split; [exact E|exact R].
    + intros (cl' & cs' & bv & E & R). exists bv.
      assert (cl' = cl /\ cs' = CExc) as [-> ->].
      { destruct (pa c e s 1); [discriminate|]. destruct (hf_verdict c e i (Z.of_nat i + 1) (cl_k cl) (at_fail e i s)); [discriminate|].
        destruct (pa c e s 2); [discriminate|]. inversion E; auto. }
      split; [exact E|exact R].
Qed.

(** loop level: another attempt after attempt [ir_i r + 1] implies that everything was permitted *)
Lemma next_attempt_only_if m c e start b r t :
  In r (run_iters m c e start b) ->
  In (EInvoke (Z.of_nat (ir_i r) + 2) t) (run_trace m c e start b) ->
  permitted c e (ir_i r) (ir_pre r).
Proof.
  intros Hr Hin. apply invoke_has_record in Hin as (r' & Hr' & Ha).
  assert (C: continued r = true) by (eapply later_record_means_continued; eauto; lia).
  unfold run_iters in Hr. apply iters_In in Hr as [_ Hi].
  unfold continued in C. destruct (ir_res r) as [s1|]; [|discriminate].
  apply (iter_continue_iff m). eauto.
Qed.

(** a granted retry that is permitted makes the loop begin the next attempt: the next iteration's
    record exists whenever fuel remains *)
Lemma iters_next m c e : forall fuel i s n r s1,
  nth_error (iters m c e fuel i s) n = Some r -> ir_res r = inl s1 -> (S n < fuel)%nat ->
  exists r', nth_error (iters m c e fuel i s) (S n) = Some r' /\ ir_pre r' = s1.
Proof.
  induction fuel as [|f IH]; intros i s n r s1 Hn Hr Hf; [lia|].
  simpl in *. destruct (iter m c e i s) as [[[s1'|fn] s'] tr] eqn:E.
  - destruct n as [|n]; simpl in *.
    + inversion Hn; subst r; simpl in Hr. inversion Hr; subst s1'.
      destruct f as [|f]; [lia|]. simpl.
      destruct (iter m c e (S i) s1) as [[[s2|fn2] s2'] tr2]; eexists; split; reflexivity.
    + eapply IH; eauto. lia.
  - destruct n as [|n]; simpl in *; [|destruct n; discriminate].
    inversion Hn; subst r; simpl in Hr. discriminate.
Qed.
