(** RunnerC05.v — backoff delay data-flow (C05). *)
From Redress Require Import Base Window Budget Runner RunnerProofs RunnerSpec RunnerC01 RunnerC03 RunnerFull RunnerLoop
  RunnerVerdict RunnerC02 RunnerC13 RunnerC16.

Definition is_strat (x : ev) : bool := match x with EStrat _ _ _ _ _ _ _ _ => true | _ => false end.

Lemma ft_emit c n att sl k err r cs ra : filter is_strat (emit_evs c n att sl k err r cs ra) = [].
Proof. unfold emit_evs. destruct (has_metric c); destruct (has_log c); reflexivity. Qed.
Lemma ft_poll c a : filter is_strat (poll_event c a) = [].
Proof. unfold poll_event. destruct (has_abort c); reflexivity. Qed.
Lemma ft_strat c att cl cs s : filter is_strat (strat_event c att cl cs s) = strat_event c att cl cs s.
Proof. unfold strat_event. destruct (select_strategy c (cl_k cl)) as [[sd []]|]; reflexivity. Qed.
Lemma ft_budget c s : filter is_strat (budget_event c s) = [].
Proof. unfold budget_event. destruct (budget c); reflexivity. Qed.
Lemma ft_cls cs att : filter is_strat (cls_event cs att) = [].
Proof. destruct cs; reflexivity. Qed.
Lemma ft_aborted_once c s att : filter is_strat (aborted_once_evs c s att) = [].
Proof. unfold aborted_once_evs, aborted_evs. destruct (last_stop s) as [[]|]; try apply ft_emit; reflexivity. Qed.
Lemma ft_pre c e i s : filter is_strat (pre_events c e i s) = [].
Proof.
  unfold pre_events, rc_event. rewrite !filter_app, ft_poll. simpl.
  destruct (fst (op e i)); try reflexivity. destruct (has_rc c); reflexivity.
Qed.
Lemma ft_grant c e i s cl cs d :
  filter is_strat (grant_events c e i s cl cs d) = strat_event c (Z.of_nat i + 1) cl cs (at_fail e i s).
Proof.
  unfold grant_events, retry_evs. rewrite !filter_app, ft_poll, ft_cls, ft_strat, ft_budget, ft_emit.
  simpl. rewrite app_nil_r. reflexivity.
Qed.
Lemma ft_handler c e i att k d : filter is_strat (handler_event c e i att k d) = [].
Proof. unfold handler_event. destruct (resolve (handler_p c) (handler_c c)); reflexivity. Qed.
Lemma ft_bs c att d : filter is_strat (bs_event c att d) = [].
Proof. unfold bs_event. destruct (resolve (bs_p c) (bs_c c)); reflexivity. Qed.
Lemma ft_tail c e i att cl cs d bv sf s : filter is_strat (backoff_tail c e i att cl cs d bv sf s) = [].
Proof.
  unfold backoff_tail, sched_evs, stop_evs, sleep_event.
  destruct bv; rewrite ?filter_app, ?ft_handler, ?ft_bs, ?ft_emit, ?ft_aborted_once; simpl; rewrite ?ft_emit; try reflexivity.
  destruct (bs_cancelled c e i); reflexivity.
Qed.

(** (1) the strategy is called at most once per failed attempt, exactly once for each granted retry
    (and once more only when the budget then refuses), and not at all otherwise *)
Lemma strat_calls_by_verdict m c e i s res s2 tr :
  iter m c e i s = (res, s2, tr) ->
  filter is_strat tr =
  match iter_verdict c e i s with
  | IStop cl cs _ =>
      if hf_consulted c (Z.of_nat i + 1) (cl_k cl) (at_fail e i s)
      then strat_event c (Z.of_nat i + 1) cl cs (at_fail e i s) else []
  | IAbortAfterGrant cl cs _ | IBackoff cl cs _ _ => strat_event c (Z.of_nat i + 1) cl cs (at_fail e i s)
  | _ => []
  end.
Proof.
  intros H. rewrite (iter_by_verdict _ _ _ _ _ _ _ _ H).
  destruct (iter_verdict c e i s) as [| | | | |cl cs|cl cs r|cl cs d|cl cs d bv] eqn:V; cbn [verdict_events];
    unfold aborted_evs, success_evs, stop_evs;
    rewrite ?filter_app, ?ft_pre, ?ft_grant, ?ft_poll, ?ft_emit, ?ft_aborted_once, ?ft_cls, ?ft_tail, ?app_nil_r; try reflexivity.
  destruct (hf_consulted c (Z.of_nat i + 1) (cl_k cl) (at_fail e i s)); rewrite ?filter_app, ?ft_strat, ?ft_budget, ?app_nil_r; reflexivity.
Qed.

Lemma strat_event_length c att cl cs s : (length (strat_event c att cl cs s) <= 1)%nat.
Proof. unfold strat_event. destruct (select_strategy c (cl_k cl)) as [[sd []]|]; simpl; lia. Qed.

Lemma strat_at_most_once m c e i s res s2 tr :
  iter m c e i s = (res, s2, tr) -> (length (filter is_strat tr) <= 1)%nat.
Proof.
  intros H. rewrite (strat_calls_by_verdict _ _ _ _ _ _ _ _ H).
  destruct (iter_verdict c e i s); simpl; try lia; try apply strat_event_length.
  destruct (hf_consulted _ _ _ _); [apply strat_event_length|simpl; lia].
Qed.

Lemma granted_has_strategy c e i att k s d :
  hf_verdict c e i att k s = inr d -> exists sd legacy, select_strategy c k = Some (sd, legacy).
Proof.
  intros H. apply hf_retry_inv in H as (_ & _ & _ & _ & SS & _).
  destruct (select_strategy c k) as [[sd l]|]; [eauto|congruence].
Qed.

Lemma strat_exactly_once_per_grant m c e i s res s2 tr cl cs d bv :
  iter m c e i s = (res, s2, tr) -> iter_verdict c e i s = IBackoff cl cs d bv ->
  length (filter is_strat tr) = 1%nat.
Proof.
  intros H V. rewrite (strat_calls_by_verdict _ _ _ _ _ _ _ _ H), V.
  apply verdict_backoff_inv in V as (_ & _ & _ & HV & _).
  apply granted_has_strategy in HV as (sd & legacy & SS). unfold strat_event. rewrite SS. destruct legacy; reflexivity.
Qed.

(** (2) which strategy, with which arguments *)
Lemma select_strategy_spec c k :
  select_strategy c k =
  match strat_tab c k with
  | Some legacy => Some (SidClass k, legacy)
  | None => match strat_default c with Some legacy => Some (SidDefault, legacy) | None => None end
  end.
Proof. reflexivity. Qed.

Lemma strat_event_spec c att cl cs s :
  strat_event c att cl cs s =
  match select_strategy c (cl_k cl) with
  | Some (sd, true) => [EStrat sd true att (cl_k cl) None (prev s) None None]
  | Some (sd, false) => [EStrat sd false att (cl_k cl) (cl_ra cl) (prev s) (Some (deadline c - elapsed s)) (Some cs)]
  | None => []
  end.
Proof. reflexivity. Qed.

(** the previously applied delay: None on the first attempt, afterwards the delay of the previous
    granted retry of this call *)
Lemma prev_is_previous_delay m c e i s s1 s2 tr :
  iter m c e i s = (inl s1, s2, tr) ->
  exists cl cs d, iter_verdict c e i s = IBackoff cl cs d BContinue /\ prev s1 = Some d.
Proof. intros H. apply continue_facts in H as (cl & cs & d & V & _ & _ & _ & P & _). eauto. Qed.

Lemma first_attempt_no_prev m c e start b r :
  In r (run_iters m c e start b) -> ir_i r = 0%nat -> prev (ir_pre r) = None.
Proof. intros Hr I0. pose proof (run_top _ _ _ _ _ _ Hr) as T. apply (top_first _ _ _ _ T I0). Qed.

(** (3) the granted delay *)
Lemma sanitize_spec v rem :
  sanitize v rem = Z.min (Z.max 0 (match v with SFin z => z | _ => 0 end)) rem.
Proof. reflexivity. Qed.

Lemma granted_delay c e i s cl cs d bv :
  iter_verdict c e i s = IBackoff cl cs d bv ->
  d = sanitize (strat e i) (deadline c - elapsed (at_fail e i s)) /\ 0 <= d <= deadline c - elapsed (at_fail e i s).
Proof.
  intros V. apply verdict_backoff_inv in V as (_ & _ & _ & HV & _).
  apply hf_retry_inv in HV as (_ & _ & _ & EL & _ & _ & D & _). split; [exact D|].
  subst d. apply sanitize_nonneg. lia.
Qed.

(** (4) that same delay is what the handler, before_sleep, the sleeper and the `retry` / `scheduled`
    reports see *)
Definition delay_of (x : ev) : option Z :=
  match x with
  | EHandler _ _ _ d _ | EBeforeSleep _ _ d | ESleep _ d _ => Some d
  | EMetric N_RETRY _ d _ | ELog N_RETRY _ d _ _ | EMetric N_SCHEDULED _ d _ | ELog N_SCHEDULED _ d _ _ => Some d
  | _ => None
  end.
Definition carries (d : Z) (x : ev) : Prop := match delay_of x with Some d' => d' = d | None => True end.

Lemma carries_emit_other c n att sl k err r cs ra d :
  n <> N_RETRY -> n <> N_SCHEDULED -> Forall (carries d) (emit_evs c n att sl k err r cs ra).
Proof.
  intros N1 N2. unfold emit_evs. apply Forall_app. split.
  - destruct (has_metric c); constructor; [|constructor]. unfold carries. destruct n; simpl; first [exact I|congruence].
  - destruct (has_log c); constructor; [|constructor]. unfold carries. destruct n; simpl; first [exact I|congruence].
Qed.
Lemma carries_emit_d c n att k err r cs ra d : Forall (carries d) (emit_evs c n att d k err r cs ra).
Proof.
  unfold emit_evs. apply Forall_app. split.
  - destruct (has_metric c); constructor; [|constructor]. unfold carries. destruct n; simpl; first [exact I|reflexivity].
  - destruct (has_log c); constructor; [|constructor]. unfold carries. destruct n; simpl; first [exact I|reflexivity].
Qed.
Lemma carries_poll c a d : Forall (carries d) (poll_event c a).
Proof. unfold poll_event. destruct (has_abort c); repeat constructor. Qed.
Lemma carries_pre c e i s d : Forall (carries d) (pre_events c e i s).
Proof.
  unfold pre_events, rc_event. apply Forall_app. split; [apply carries_poll|]. constructor; [exact I|].
  destruct (fst (op e i)); try constructor. destruct (has_rc c); repeat constructor.
Qed.
Lemma carries_grant c e i s cl cs d : Forall (carries d) (grant_events c e i s cl cs d).
Proof.
  unfold grant_events, retry_evs.
  apply Forall_app; split; [apply carries_poll|].
  apply Forall_app; split; [destruct cs; repeat constructor|].
  apply Forall_app; split.
  { unfold strat_event. destruct (select_strategy c (cl_k cl)) as [[sd []]|]; repeat constructor. }
  apply Forall_app; split.
  { unfold budget_event. destruct (budget c); repeat constructor. }
  apply carries_emit_d.
Qed.
Lemma carries_aborted_once c s att d : Forall (carries d) (aborted_once_evs c s att).
Proof.
  unfold aborted_once_evs, aborted_evs. destruct (last_stop s) as [[]|]; try constructor;
    apply carries_emit_other; discriminate.
Qed.
Lemma name_of_stop_not_sched r : r <> S_SCHED -> name_of_stop r <> N_SCHEDULED.
Proof. destruct r; simpl; congruence. Qed.

Lemma carries_tail c e i att cl cs d bv sf s :
  (forall r, bv = BStop r -> r <> S_SCHED) ->
  Forall (carries d) (backoff_tail c e i att cl cs d bv sf s).
Proof.
  intros NS. unfold backoff_tail, sched_evs, stop_evs, sleep_event. apply Forall_app. split.
  { unfold handler_event. destruct (resolve (handler_p c) (handler_c c)); repeat constructor. }
  assert (B: Forall (carries d) (bs_event c att d)).
  { unfold bs_event. destruct (resolve (bs_p c) (bs_c c)); repeat constructor. }
  destruct bv.
  - apply carries_emit_d.
  - apply carries_aborted_once.
  - apply Forall_app. split; [exact B|]. destruct (bs_cancelled c e i); repeat constructor.
  - apply Forall_app. split; [exact B|]. constructor; [reflexivity|].
    apply carries_emit_other; [apply name_of_stop_not_retry|apply name_of_stop_not_sched; eapply NS; reflexivity].
  - apply Forall_app. split; [exact B|]. repeat constructor.
Qed.

Lemma same_delay_everywhere m c e i s res s2 tr cl cs d bv :
  iter m c e i s = (res, s2, tr) -> iter_verdict c e i s = IBackoff cl cs d bv -> Forall (carries d) tr.
Proof.
  intros H V. rewrite (iter_by_verdict _ _ _ _ _ _ _ _ H), V. cbn [verdict_events].
  apply Forall_app; split; [apply carries_pre|].
  apply Forall_app; split; [apply carries_grant|].
  apply Forall_app; split; [apply carries_poll|].
  apply carries_tail. intros r ->. pose proof (no_wasted_backoff _ _ _ _ _ _ _ _ V) as [-> _]. discriminate.
Qed.

