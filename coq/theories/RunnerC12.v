(** RunnerC12.v — call() and execute() run the same loop (C12): same trace, same final state up to the
    captured timeline, and deliveries that are two views of the same result. *)
From Redress Require Import Base Window Budget Runner Corr RunnerProofs RunnerSpec RunnerC01 RunnerC03 RunnerFull RunnerLoop
  RunnerVerdict RunnerC02 RunnerC13 RunnerC14 RunnerDeliver.

(** forget the captured timeline (the only piece of state execute() keeps and call() does not) *)
Definition drop (s : rst) : rst := set_tl s [].

Definition st3 {A} (r : A * rst * list ev) : A * rst * list ev := let '(a, s, tr) := r in (a, drop s, tr).

Lemma emit_drop c e s n att sl k err r cs ra :
  emit MCall c e (drop s) n att sl k err r cs ra =
  (drop (fst (emit MExec c e s n att sl k err r cs ra)), snd (emit MExec c e s n att sl k err r cs ra)).
Proof.
  unfold emit. rewrite !guarded_id.
  destruct (capture_tl c); destruct (has_metric c); destruct (has_log c); rewrite ?guarded_id; reflexivity.
Qed.

Ltac use_emit_drop :=
  repeat match goal with
         | |- context [emit MCall ?c ?e (drop ?s) ?n ?a ?sl ?k ?er ?r ?cs ?ra] =>
             rewrite (emit_drop c e s n a sl k er r cs ra);
             destruct (emit MExec c e s n a sl k er r cs ra) as [? ?]; cbn [fst snd]
         end.

Lemma check_abort_drop c e s att :
  check_abort MCall c e (drop s) att = st3 (check_abort MExec c e s att).
Proof.
  unfold check_abort, st3. destruct (has_abort c); [|reflexivity].
  change (npoll (drop s)) with (npoll s).
  destruct (abort e (npoll s)); [|reflexivity].
  change (set_last_stop (set_npoll (drop s) (S (npoll s))) (Some S_ABORT))
    with (drop (set_last_stop (set_npoll s (S (npoll s))) (Some S_ABORT))).
  use_emit_drop. reflexivity.
Qed.

Lemma emit_aborted_once_drop c e s att :
  emit_aborted_once MCall c e (drop s) att =
  (drop (fst (emit_aborted_once MExec c e s att)), snd (emit_aborted_once MExec c e s att)).
Proof.
  unfold emit_aborted_once. change (last_stop (drop s)) with (last_stop s).
  destruct (last_stop s) as [[]|]; try reflexivity;
    change (set_last_stop (drop s) (Some S_ABORT)) with (drop (set_last_stop s (Some S_ABORT)));
    use_emit_drop; reflexivity.
Qed.

Lemma stop_with_drop c e s r att k cs :
  stop_with MCall c e (drop s) r att k cs = st3 (stop_with MExec c e s r att k cs).
Proof.
  unfold stop_with, st3.
  change (set_last_stop (drop s) (Some r)) with (drop (set_last_stop s (Some r))).
  use_emit_drop. reflexivity.
Qed.

Lemma handle_failure_drop c e i att cl cs s :
  handle_failure MCall c e i att cl cs (drop s) = st3 (handle_failure MExec c e i att cl cs s).
Proof.
  unfold handle_failure.
  change (cnt (set_last_fail (drop s) (Some (cl, cs, att)))) with (cnt (set_last_fail s (Some (cl, cs, att)))).
  change (unk (set_last_fail (drop s) (Some (cl, cs, att)))) with (unk (set_last_fail s (Some (cl, cs, att)))).
  set (s1 := set_counts (set_last_fail s (Some (cl, cs, att))) (bump (cnt (set_last_fail s (Some (cl, cs, att)))) (cl_k cl))
               (unk (set_last_fail s (Some (cl, cs, att))))).
  change (set_counts (set_last_fail (drop s) (Some (cl, cs, att))) (bump (cnt (set_last_fail s (Some (cl, cs, att)))) (cl_k cl))
               (unk (set_last_fail s (Some (cl, cs, att))))) with (drop s1).
  destruct (over_limit c (cl_k cl) _); [apply stop_with_drop|].
  destruct (nonretryable (cl_k cl)); [apply stop_with_drop|].
  change (unk (drop s1)) with (unk s1).
  set (u' := if klass_eqb (cl_k cl) UNKNOWN then unk s1 + 1 else unk s1).
  set (s2 := set_counts s1 (bump (cnt (set_last_fail s (Some (cl, cs, att)))) (cl_k cl)) u').
  change (set_counts (drop s1) (bump (cnt (set_last_fail s (Some (cl, cs, att)))) (cl_k cl)) u') with (drop s2).
  destruct (klass_eqb (cl_k cl) UNKNOWN && over_unknown c u'); [apply stop_with_drop|].
  change (elapsed (drop s2)) with (elapsed s2).
  destruct (deadline c <? elapsed s2); [apply stop_with_drop|].
  destruct (select_strategy c (cl_k cl)) as [[sd legacy]|]; [|apply stop_with_drop].
  destruct (deadline c - elapsed s2 <=? 0); [apply stop_with_drop|].
  destruct (max_attempts c <=? att); [apply stop_with_drop|].
  change (prev (drop s2)) with (prev s2). change (now (drop s2)) with (now s2). change (bev (drop s2)) with (bev s2).
  destruct (budget c) as [b|].
  - destruct (consume b (now s2) 1 (bev s2)) as [r bev'].
    change (set_bev (drop s2) bev') with (drop (set_bev s2 bev')).
    destruct r.
    + match goal with |- context [set_prev (drop ?x) ?v] => change (set_prev (drop x) v) with (drop (set_prev x v)) end.
      use_emit_drop. reflexivity.
    + rewrite stop_with_drop. unfold st3. destruct (stop_with MExec c e _ S_BUDGET att (cl_k cl) cs) as [[dec s'] tr]. reflexivity.
    + rewrite stop_with_drop. unfold st3. destruct (stop_with MExec c e _ S_BUDGET att (cl_k cl) cs) as [[dec s'] tr]. reflexivity.
    + rewrite stop_with_drop. unfold st3. destruct (stop_with MExec c e _ S_BUDGET att (cl_k cl) cs) as [[dec s'] tr]. reflexivity.
  - match goal with |- context [set_prev (drop ?x) ?v] => change (set_prev (drop x) v) with (drop (set_prev x v)) end.
    use_emit_drop. reflexivity.
Qed.

Lemma before_sleep_drop c e i s att d :
  before_sleep_ev c e i (drop s) att d =
  (let '(k, s', tr) := before_sleep_ev c e i s att d in (k, drop s', tr)).
Proof.
  unfold before_sleep_ev. destruct (resolve (bs_p c) (bs_c c)); [|reflexivity].
  destruct (bs_cancel e i); rewrite ?guarded_id; reflexivity.
Qed.

Lemma backoff_drop c e i att d k cs s :
  backoff MCall c e i att d k cs (drop s) = st3 (backoff MExec c e i att d k cs s).
Proof.
  unfold backoff, st3.
  destruct (match resolve (handler_p c) (handler_c c) with Some _ => handler e i | None => HSleep end).
  - rewrite before_sleep_drop. destruct (before_sleep_ev c e i s att d) as [[bc s1] btr].
    destruct bc; [reflexivity|].
    change (now (drop s1)) with (now s1).
    destruct (sleep_cancel e i); [reflexivity|].
    change (set_now (drop s1) (now s1 + d + over e i)) with (drop (set_now s1 (now s1 + d + over e i))).
    set (s2 := set_now s1 (now s1 + d + over e i)).
    change (elapsed (drop s2)) with (elapsed s2). change (last_class (drop s2)) with (last_class s2).
    destruct (deadline c <? elapsed s2).
    + change (set_last_stop (drop s2) (Some S_DEADLINE)) with (drop (set_last_stop s2 (Some S_DEADLINE))).
      use_emit_drop. reflexivity.
    + destruct (att =? max_attempts c); [|reflexivity].
      change (set_last_stop (drop s2) (Some S_GLOBAL)) with (drop (set_last_stop s2 (Some S_GLOBAL))).
      use_emit_drop. reflexivity.
  - change (set_last_stop (drop s) (Some S_SCHED)) with (drop (set_last_stop s (Some S_SCHED))).
    set (s1 := set_last_stop s (Some S_SCHED)).
    change (last_class (drop s1)) with (last_class s1). change (last_exc (drop s1)) with (last_exc s1).
    change (last_cause (drop s1)) with (last_cause s1).
    use_emit_drop. reflexivity.
  - rewrite emit_aborted_once_drop. destruct (emit_aborted_once MExec c e s att) as [s1 tr]. reflexivity.
Qed.

Definition map_res (r : rst + fin) : rst + fin := match r with inl s => inl (drop s) | inr f => inr f end.

Lemma failure_path_drop c e i att cl cs s pre :
  failure_path MCall c e i att cl cs (drop s) pre =
  (let '(r, s', tr) := failure_path MExec c e i att cl cs s pre in (map_res r, drop s', tr)).
Proof.
  unfold failure_path. rewrite check_abort_drop. unfold st3.
  destruct (check_abort MExec c e s att) as [[a1 s1] tr1]. destruct a1; [reflexivity|].
  rewrite handle_failure_drop. unfold st3.
  destruct (handle_failure MExec c e i att cl cs s1) as [[dec s2] tr2]. destruct dec; [|reflexivity].
  rewrite check_abort_drop. unfold st3.
  destruct (check_abort MExec c e s2 att) as [[a2 s3] tr3]. destruct a2; [reflexivity|].
  rewrite backoff_drop. unfold st3.
  destruct (backoff MExec c e i att d (cl_k cl) cs s3) as [[ae s4] tr4]. destruct ae; reflexivity.
Qed.

Lemma iter_drop c e i s :
  iter MCall c e i (drop s) = (let '(r, s', tr) := iter MExec c e i s in (map_res r, drop s', tr)).
Proof.
  unfold iter. rewrite check_abort_drop. unfold st3.
  destruct (check_abort MExec c e s (Z.of_nat i + 1 - 1)) as [[a0 s0] tr0]. destruct a0; [reflexivity|].
  destruct (op e i) as [o dur]. change (now (drop s0)) with (now s0).
  change (set_now (drop s0) (now s0 + dur)) with (drop (set_now s0 (now s0 + dur))).
  destruct o; try reflexivity.
  - destruct (if has_rc c then rc else None); [apply failure_path_drop|].
    use_emit_drop. reflexivity.
  - apply failure_path_drop.
  - rewrite emit_aborted_once_drop. destruct (emit_aborted_once MExec c e _ (Z.of_nat i + 1)) as [s2 tr]. reflexivity.
Qed.

(** call()'s view of what execute() reports *)
Definition call_view (d : delivery) : delivery :=
  match d with
  | DOutcome o =>
      if o_ok o then match o_value o with Some a => DReturn a | None => DRuntimeError end
      else match o_stop o with
           | Some S_ABORT => DAbort
           | Some r =>
               match o_cause o, o_next o, o_exc o with
               | Some CExc, None, Some a => DRaiseOp a
               | Some _, _, _ => DExhausted r (o_attempts o) (o_class o) (o_exc o) (o_res o) (o_next o)
               | None, _, _ => DRuntimeError
               end
           | None => DRuntimeError
           end
  | _ => d
  end.

Lemma deliver_view c s fn :
  (forall a cs nx, fn = FStop a cs nx -> exists cl r, last_fail s = Some (cl, cs, a) /\ last_stop s = Some r /\ r <> S_ABORT) ->
  (forall n, fn = FAbort n -> last_stop s = Some S_ABORT) ->
  deliver MCall c (drop s) fn = call_view (deliver MExec c s fn).
Proof.
  intros HS HA. destruct fn; simpl; try reflexivity.
  - rewrite (HA _ eq_refl). reflexivity.
  - destruct (HS _ _ _ eq_refl) as (cl & r & LF & LS & NA).
    change (last_stop (drop s)) with (last_stop s). change (last_class (drop s)) with (last_class s).
    change (last_exc (drop s)) with (last_exc s). change (last_res (drop s)) with (last_res s).
    unfold last_class, last_exc, last_res, last_cause. rewrite LF, LS.
    destruct r; try congruence; destruct cs; try destruct next; reflexivity.
Qed.

(** the loop without the delivery step *)
Fixpoint loop_raw (m : mode) (c : cfg) (e : env) (fuel i : nat) (s : rst) : option fin * rst * list ev :=
  match fuel with
  | O => (None, s, [])
  | S f =>
      match iter m c e i s with
      | (inr fn, s', tr) => (Some fn, s', tr)
      | (inl s1, _, tr) => let '(r, sf, tr') := loop_raw m c e f (S i) s1 in (r, sf, tr ++ tr')
      end
  end.

Lemma loop_of_raw m c e : forall fuel i s,
  loop m c e fuel i s =
  match loop_raw m c e fuel i s with
  | (Some fn, sf, tr) => (deliver m c sf fn, sf, tr)
  | (None, sf, tr) => let '(d, s2, tr2) := fallthrough m c e sf in (d, s2, tr ++ tr2)
  end.
Proof.
  induction fuel as [|f IH]; intros i s; simpl.
  - destruct (fallthrough m c e s) as [[d s2] tr2]. reflexivity.
  - destruct (iter m c e i s) as [[[s1|fn] s'] tr]; [|reflexivity].
    rewrite IH. destruct (loop_raw m c e f (S i) s1) as [[[fn|] sf] tr'].
    + reflexivity.
    + destruct (fallthrough m c e sf) as [[d s2] tr2]. rewrite app_assoc. reflexivity.
Qed.

Lemma loop_raw_drop c e : forall fuel i s,
  loop_raw MCall c e fuel i (drop s) = (let '(r, sf, tr) := loop_raw MExec c e fuel i s in (r, drop sf, tr)).
Proof.
  induction fuel as [|f IH]; intros i s; simpl; [reflexivity|].
  rewrite iter_drop. destruct (iter MExec c e i s) as [[[s1|fn] s'] tr]; simpl; [|reflexivity].
  rewrite IH. destruct (loop_raw MExec c e f (S i) s1) as [[r sf] tr']. reflexivity.
Qed.

Lemma loop_raw_last m c e : forall fuel i s fn sf tr,
  loop_raw m c e fuel i s = (Some fn, sf, tr) ->
  exists r l, iters m c e fuel i s = l ++ [r] /\ ir_res r = inr fn /\ ir_post r = sf.
Proof.
  induction fuel as [|f IH]; intros i s fn sf tr H; simpl in *; [discriminate|].
  destruct (iter m c e i s) as [[[s1|fn0] s'] tr0] eqn:E.
  - destruct (loop_raw m c e f (S i) s1) as [[r0 sf0] tr'] eqn:L. inversion H; subst.
    destruct (IH _ _ _ _ _ L) as (r & l & IT & R & P).
    exists r, ({| ir_i := i; ir_pre := s; ir_res := inl s1; ir_post := s'; ir_tr := tr0 |} :: l).
    rewrite IT. repeat split; auto.
  - inversion H; subst. eexists _, []. repeat split; reflexivity.
Qed.

Lemma loop_raw_none_exhausted m c e : forall fuel i s sf tr,
  loop_raw m c e fuel i s = (None, sf, tr) -> exhausted m c e fuel i s = Some sf.
Proof.
  induction fuel as [|f IH]; intros i s sf tr H; simpl in *; [inversion H; reflexivity|].
  destruct (iter m c e i s) as [[[s1|fn0] s'] tr0]; [|discriminate].
  destruct (loop_raw m c e f (S i) s1) as [[r0 sf0] tr'] eqn:L. inversion H; subst. eapply IH; eauto.
Qed.

(** call() and execute() perform the same operation invocations, strategy calls, sleeps, hook calls
    and budget interactions, and leave the same state (clock, shared budget); they differ only in
    how the identical final result is delivered *)
Theorem call_execute_agree c e start b :
  run_trace MCall c e start b = run_trace MExec c e start b /\
  drop (run_final MCall c e start b) = drop (run_final MExec c e start b) /\
  run_delivery MCall c e start b = call_view (run_delivery MExec c e start b).
Proof.
  unfold run_trace, run_final, run_delivery, run.
  set (fuel := Z.to_nat (max_attempts c)).
  change (init_rst start b) with (drop (init_rst start b)) at 1 3 5.
  rewrite !loop_of_raw, loop_raw_drop.
  destruct (loop_raw MExec c e fuel 0 (init_rst start b)) as [[[fn|] sf] tr] eqn:L.
  - cbn [fst snd]. split; [reflexivity|]. split; [reflexivity|].
    destruct (loop_raw_last _ _ _ _ _ _ _ _ _ L) as (r & l & IT & R & P).
    assert (MA: 1 <= max_attempts c).
    { destruct fuel eqn:F; [simpl in L; discriminate|]. subst fuel. lia. }
    assert (FP: final_pass MExec c e start b r fn).
    { unfold final_pass, run_iters, run_delivery, run_final, run. fold fuel. rewrite loop_of_raw, L. cbn [fst snd].
      subst sf. repeat split; eauto. }
    pose proof (final_pass_facts _ _ _ _ _ _ _ FP) as FF. cbn zeta in FF. destruct FF as (_ & FF). rewrite P in FF.
    apply deliver_view.
    + intros a cs nx ->. destruct FF as (_ & cl & r0 & _ & LF & LS & _ & SC & NS).
      exists cl, r0. repeat split; auto.
      destruct nx as [d|]; [rewrite SC by discriminate; discriminate|apply NS; reflexivity].
    + intros n ->. destruct FF as (LS & _). exact LS.
  - apply loop_raw_none_exhausted in L. apply (exhausted_only_nonpositive MExec c e start b) in L as [MA ->].
    unfold fallthrough. cbn [fst snd].
    change (last_class (drop (init_rst start b))) with (last_class (init_rst start b)).
    change (last_exc (drop (init_rst start b))) with (last_exc (init_rst start b)).
    change (last_cause (drop (init_rst start b))) with (last_cause (init_rst start b)).
    rewrite emit_drop.
    destruct (emit MExec c e (init_rst start b) N_MAX_ATTEMPTS_EXCEEDED (max_attempts c) 0 (last_class (init_rst start b))
                (match last_exc (init_rst start b) with Some _ => true | None => false end) (Some S_GLOBAL)
                (last_cause (init_rst start b)) None) as [s1 tr1] eqn:E.
    cbn [fst snd]. apply emit_core in E. unfold core_eq in E. simpl in E. destruct E as (_ & _ & _ & _ & _ & _ & LF & _).
    change (last_fail (set_last_stop (drop s1) (Some S_GLOBAL))) with (last_fail s1). rewrite LF. cbn [fst snd].
    split; [reflexivity|]. split; [reflexivity|].
    unfold call_view, build_outcome. cbn [o_ok o_stop o_cause].
    change (last_stop (set_last_stop s1 (Some S_GLOBAL))) with (Some S_GLOBAL).
    unfold last_cause. change (last_fail (set_last_stop s1 (Some S_GLOBAL))) with (last_fail s1). rewrite LF. reflexivity.
Qed.
