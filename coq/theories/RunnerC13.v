(** RunnerC13.v — abort and cancellation (C13). *)
From Redress Require Import Base Window Budget Runner RunnerProofs RunnerSpec RunnerC01 RunnerC03 RunnerFull RunnerLoop
  RunnerVerdict RunnerC02.

Lemma pa_has_abort c e s j : pa c e s j = true -> has_abort c = true.
Proof. unfold pa. destruct (has_abort c); [reflexivity|discriminate]. Qed.

Lemma poll_event_on c a : has_abort c = true -> poll_event c a = [EPoll a].
Proof. unfold poll_event. intros ->. reflexivity. Qed.

Lemma in_emit_obs c n att sl k err r cs ra x : In x (emit_evs c n att sl k err r cs ra) -> is_obs x = true.
Proof. intros H. pose proof (emit_evs_obs c n att sl k err r cs ra) as O. rewrite forallb_forall in O. auto. Qed.

(** (1) abort_if is consulted immediately before every attempt *)
Lemma poll_before_attempt m c e i s res s2 tr a t :
  iter m c e i s = (res, s2, tr) -> has_abort c = true -> In (EInvoke a t) tr ->
  exists l2, tr = EPoll false :: EInvoke a t :: l2.
Proof.
  intros H HA Hin. pose proof (iter_invokes _ _ _ _ _ _ _ _ H) as FI.
  assert (F: In (EInvoke a t) (filter is_invoke tr)) by (apply filter_In; split; [exact Hin|reflexivity]).
  rewrite FI in F. destruct (pa c e s 0) eqn:P0; [destruct F|]. destruct F as [F|[]]. inversion F; subst a t.
  rewrite (iter_full _ _ _ _ _ _ _ _ H). unfold full_events. rewrite P0, (poll_event_on _ _ HA). simpl. eauto.
Qed.

(** (2) ... and again after the retry decision, before the backoff: between that poll and the sleeper
    call there is no invocation, classification, strategy call or budget call *)
Definition is_decision (x : ev) : bool :=
  match x with
  | EInvoke _ _ | EClassify _ | ERClassify _ | EStrat _ _ _ _ _ _ _ _ | EBudget _ | EPoll _ => true
  | _ => false
  end.

Lemma fd_emit c n att sl k err r cs ra : filter is_decision (emit_evs c n att sl k err r cs ra) = [].
Proof. unfold emit_evs. destruct (has_metric c); destruct (has_log c); reflexivity. Qed.
Lemma fd_handler c e i att k d : filter is_decision (handler_event c e i att k d) = [].
Proof. unfold handler_event. destruct (resolve (handler_p c) (handler_c c)); reflexivity. Qed.
Lemma fd_bs c att d : filter is_decision (bs_event c att d) = [].
Proof. unfold bs_event. destruct (resolve (bs_p c) (bs_c c)); reflexivity. Qed.
Lemma fd_aborted_once c s att : filter is_decision (aborted_once_evs c s att) = [].
Proof. unfold aborted_once_evs, aborted_evs. destruct (last_stop s) as [[]|]; try apply fd_emit; reflexivity. Qed.

Lemma backoff_tail_no_decision c e i att cl cs d bv sf s :
  filter is_decision (backoff_tail c e i att cl cs d bv sf s) = [].
Proof.
  unfold backoff_tail, sched_evs, stop_evs, sleep_event.
  destruct bv; rewrite ?filter_app, ?fd_handler, ?fd_bs, ?fd_emit, ?fd_aborted_once; simpl; rewrite ?fd_emit; try reflexivity.
  destruct (bs_cancelled c e i); reflexivity.
Qed.

Lemma poll_before_sleep m c e i s res s2 tr w d t :
  iter m c e i s = (res, s2, tr) -> has_abort c = true -> In (ESleep w d t) tr ->
  exists l1 l2, tr = l1 ++ EPoll false :: l2 /\ In (ESleep w d t) l2 /\ filter is_decision l2 = [].
Proof.
  intros H HA Hin.
  apply (sleep_iff _ _ _ _ _ _ _ _ w d t H) in Hin as (cl & cs & bv & V & HD & BC & -> & ->).
  rewrite (iter_by_verdict _ _ _ _ _ _ _ _ H), V. cbn [verdict_events].
  rewrite (poll_event_on c false HA).
  exists (pre_events c e i s ++ grant_events c e i s cl cs d),
         (backoff_tail c e i (Z.of_nat i + 1) cl cs d bv (at_fail e i s) s).
  split; [rewrite <- !app_assoc; reflexivity|]. split; [|apply backoff_tail_no_decision].
  apply verdict_backoff_inv in V as (_ & _ & _ & _ & _ & ->).
  unfold backoff_tail, backoff_verdict, sleep_event. rewrite HD, BC.
  apply in_or_app. right.
  destruct (sleep_cancel e i); [apply in_or_app; right; left; reflexivity|].
  destruct (deadline c <? _); [apply in_or_app; right; left; reflexivity|].
  destruct (Z.of_nat i + 1 =? max_attempts c); apply in_or_app; right; left; reflexivity.
Qed.

(** (3) once abort_if returns True the iteration ends the run as aborted and nothing but the
    `aborted` report follows that poll *)
Definition abort_verdict (v : iverdict) : bool :=
  match v with IAbortTop | IAbortAfterFail _ _ | IAbortAfterGrant _ _ _ => true | _ => false end.

Lemma abort_verdict_iff c e i s :
  abort_verdict (iter_verdict c e i s) = true <->
  pa c e s 0 = true \/
  (exists cl cs, fail_of c (fst (op e i)) = Some (cl, cs) /\
     (pa c e s 1 = true \/
      exists d, hf_verdict c e i (Z.of_nat i + 1) (cl_k cl) (at_fail e i s) = inr d /\ pa c e s 2 = true)).
Proof.
  unfold iter_verdict. destruct (pa c e s 0) eqn:P0; [simpl; tauto|].
  assert (K: forall cl cs,
    abort_verdict (if pa c e s 1 then IAbortAfterFail cl cs else
                   match hf_verdict c e i (Z.of_nat i + 1) (cl_k cl) (at_fail e i s) with
                   | inl r => IStop cl cs r
                   | inr d => if pa c e s 2 then IAbortAfterGrant cl cs d
                              else IBackoff cl cs d (backoff_verdict c e i (Z.of_nat i + 1) d (at_fail e i s))
                   end) = true <->
    (pa c e s 1 = true \/
     exists d, hf_verdict c e i (Z.of_nat i + 1) (cl_k cl) (at_fail e i s) = inr d /\ pa c e s 2 = true)).
  { intros cl cs. destruct (pa c e s 1); [simpl; tauto|].
    destruct (hf_verdict c e i (Z.of_nat i + 1) (cl_k cl) (at_fail e i s)) as [r|d].
    - simpl. split; [discriminate|]. intros [X|(d & X & _)]; discriminate.
    - destruct (pa c e s 2); simpl.
      + split; [|reflexivity]. intros _. right. eauto.
      + split; [discriminate|]. intros [X|(d' & _ & X)]; discriminate. }
  destruct (fst (op e i)) as [rc|cl| |k|]; cbn [fail_of].
  - destruct (if has_rc c then match rc with Some cl => Some (cl, CRes) | None => None end else None) as [[cl cs]|] eqn:F.
    + rewrite K. split.
      * intros X. right. exists cl, cs. split; [reflexivity|exact X].
      * intros [X|(cl' & cs' & E & X)]; [discriminate|]. inversion E; subst. exact X.
    + simpl. split; [discriminate|]. intros [X|(cl' & cs' & E & _)]; discriminate.
  - rewrite K. split.
    + intros X. right. exists cl, CExc. split; [reflexivity|exact X].
    + intros [X|(cl' & cs' & E & X)]; [discriminate|]. inversion E; subst. exact X.
  - simpl. split; [discriminate|]. intros [X|(cl' & cs' & E & _)]; discriminate.
  - simpl. split; [discriminate|]. intros [X|(cl' & cs' & E & _)]; discriminate.
  - simpl. split; [discriminate|]. intros [X|(cl' & cs' & E & _)]; discriminate.
Qed.

Lemma abort_verdict_has_abort c e i s : abort_verdict (iter_verdict c e i s) = true -> has_abort c = true.
Proof.
  rewrite abort_verdict_iff. intros [X|(cl & cs & _ & [X|(d & _ & X)])]; eapply pa_has_abort; eauto.
Qed.

Lemma abort_request_ends m c e i s res s2 tr :
  iter m c e i s = (res, s2, tr) -> abort_verdict (iter_verdict c e i s) = true ->
  (exists n, res = inr (FAbort n)) /\ last_stop s2 = Some S_ABORT /\
  exists l a, tr = l ++ EPoll true :: aborted_evs c a.
Proof.
  intros H AV. pose proof (abort_verdict_has_abort _ _ _ _ AV) as HA.
  pose proof (iter_res_by_verdict _ _ _ _ _ _ _ _ H) as R.
  pose proof (iter_spec _ _ _ _ _ _ _ _ H) as SP. cbn zeta in SP. destruct SP as (_ & _ & SV).
  rewrite (iter_by_verdict _ _ _ _ _ _ _ _ H).
  destruct (iter_verdict c e i s) as [| | | | |cl cs| |cl cs d|]; try discriminate; cbn [verdict_events verdict_fin] in *;
    rewrite (poll_event_on c true HA).
  - split; [eauto|]. split; [tauto|]. exists [], (Z.of_nat i + 1 - 1). reflexivity.
  - split; [eauto|]. split; [tauto|]. exists (pre_events c e i s), (Z.of_nat i + 1). reflexivity.
  - split; [eauto|]. split; [tauto|].
    exists (pre_events c e i s ++ grant_events c e i s cl cs d), (Z.of_nat i + 1). rewrite <- !app_assoc. reflexivity.
Qed.

(** (4) the operation raising AbortRetryError ends the run as aborted at once *)
Lemma abort_error_ends m c e i s res s2 tr :
  iter m c e i s = (res, s2, tr) -> pa c e s 0 = false -> fst (op e i) = OAbort ->
  res = inr (FAbort (Z.of_nat i + 1)) /\ last_stop s2 = Some S_ABORT /\
  tr = poll_event c false ++ [EInvoke (Z.of_nat i + 1) (now s)] ++ aborted_once_evs c s (Z.of_nat i + 1).
Proof.
  intros H P0 O. pose proof (iter_res_by_verdict _ _ _ _ _ _ _ _ H) as R.
  pose proof (iter_spec _ _ _ _ _ _ _ _ H) as SP. cbn zeta in SP. destruct SP as (_ & _ & SV).
  rewrite (iter_by_verdict _ _ _ _ _ _ _ _ H).
  assert (V: iter_verdict c e i s = IAbortOp) by (unfold iter_verdict; rewrite P0, O; reflexivity).
  rewrite V in *. cbn [verdict_events verdict_fin] in *. split; [exact R|]. split; [tauto|].
  unfold pre_events, rc_event. rewrite O. rewrite <- !app_assoc. reflexivity.
Qed.

(** how an abort is delivered *)
Lemma abort_delivery m c s n :
  last_stop s = Some S_ABORT ->
  match deliver m c s (FAbort n) with
  | DAbort => m = MCall
  | DOutcome o => m = MExec /\ o_ok o = false /\ o_stop o = Some S_ABORT /\ o_attempts o = n /\ o_next o = None
  | _ => False
  end.
Proof. intros LS. destruct m; simpl; [reflexivity|]. rewrite LS. repeat split. Qed.

(** an iteration that ended the run is the last one: no later invocation, and no event of a later
    iteration at all *)
Lemma ended_is_last m c e start b r :
  In r (run_iters m c e start b) -> continued r = false ->
  forall r', In r' (run_iters m c e start b) -> (ir_i r' <= ir_i r)%nat.
Proof.
  unfold run_iters. intros Hr Hc r' Hr'.
  apply In_nth_error in Hr as [n Hn]. apply In_nth_error in Hr' as [n' Hn'].
  pose proof (iters_nth _ _ _ _ _ _ _ _ Hn) as (I1 & _ & _ & I4).
  pose proof (iters_nth _ _ _ _ _ _ _ _ Hn') as (I1' & _).
  specialize (I4 Hc). apply nth_error_None in I4.
  assert (n' < length (iters m c e (Z.to_nat (max_attempts c)) 0 (init_rst start b)))%nat by (apply nth_error_Some; congruence).
  lia.
Qed.

(** (5) cancellation-type exceptions raised by the operation propagate at once: nothing follows the
    invocation (no classification, no event, no poll, no sleep) *)
Lemma cancel_propagates m c e i s res s2 tr k :
  iter m c e i s = (res, s2, tr) -> pa c e s 0 = false -> fst (op e i) = OCancel k ->
  res = inr (FCancel k (Z.of_nat i + 1)) /\
  tr = poll_event c false ++ [EInvoke (Z.of_nat i + 1) (now s)] /\
  (forall m' s', deliver m' c s' (FCancel k (Z.of_nat i + 1)) = DCancel k (Z.of_nat i + 1)).
Proof.
  intros H P0 O. pose proof (iter_res_by_verdict _ _ _ _ _ _ _ _ H) as R.
  rewrite (iter_by_verdict _ _ _ _ _ _ _ _ H).
  assert (V: iter_verdict c e i s = ICancel k) by (unfold iter_verdict; rewrite P0, O; reflexivity).
  rewrite V in *. cbn [verdict_events verdict_fin] in *. split; [exact R|]. split; [|reflexivity].
  unfold pre_events, rc_event. rewrite O, app_nil_r. reflexivity.
Qed.

(** (6) ... and so do those raised during the backoff (by before_sleep or the sleeper): the trace ends
    with that callback's invocation *)
Lemma sleep_cancel_propagates m c e i s res s2 tr cl cs d kk :
  iter m c e i s = (res, s2, tr) -> iter_verdict c e i s = IBackoff cl cs d (BCancel kk) ->
  res = inr (FCancelSleep kk (Z.of_nat i + 1)) /\
  (exists l x, tr = l ++ [x] /\
     match x with ESleep _ d' _ => d' = d | EBeforeSleep _ _ d' => d' = d | _ => False end) /\
  (forall m' s', deliver m' c s' (FCancelSleep kk (Z.of_nat i + 1)) = DCancelSleep kk (Z.of_nat i + 1)).
Proof.
  intros H V. pose proof (iter_res_by_verdict _ _ _ _ _ _ _ _ H) as R.
  rewrite (iter_by_verdict _ _ _ _ _ _ _ _ H). rewrite V in *. cbn [verdict_events verdict_fin] in *.
  split; [exact R|]. split; [|reflexivity].
  apply verdict_backoff_inv in V as (_ & _ & _ & _ & _ & BV).
  assert (T: exists l x, backoff_tail c e i (Z.of_nat i + 1) cl cs d (BCancel kk) (at_fail e i s) s = l ++ [x] /\
                         match x with ESleep _ d' _ => d' = d | EBeforeSleep _ _ d' => d' = d | _ => False end).
  { unfold backoff_tail, sleep_event, bs_event. unfold backoff_verdict, bs_cancelled in *.
    destruct (handler_dec c e i); try discriminate.
    destruct (resolve (bs_p c) (bs_c c)) as [bw|].
    - destruct (bs_cancel e i) as [k1|].
      + exists (handler_event c e i (Z.of_nat i + 1) (cl_k cl) d), (EBeforeSleep bw (Z.of_nat i + 1) d).
        split; [rewrite app_nil_r; reflexivity|reflexivity].
      + exists (handler_event c e i (Z.of_nat i + 1) (cl_k cl) d ++ [EBeforeSleep bw (Z.of_nat i + 1) d]),
               (ESleep (sleeper_who c) d (now (at_fail e i s))).
        split; [rewrite <- app_assoc; reflexivity|reflexivity].
    - exists (handler_event c e i (Z.of_nat i + 1) (cl_k cl) d), (ESleep (sleeper_who c) d (now (at_fail e i s))).
      split; reflexivity. }
  destruct T as (l & x & E & P).
  exists (pre_events c e i s ++ grant_events c e i s cl cs d ++ poll_event c false ++ l), x.
  split; [rewrite E, <- !app_assoc; reflexivity|exact P].
Qed.
