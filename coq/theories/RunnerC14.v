(** RunnerC14.v — the event stream (C14): what is reported to the metric hook and the log hook. *)
From Redress Require Import Base Window Budget Runner Corr RunnerProofs RunnerSpec RunnerC01 RunnerC03 RunnerFull RunnerLoop
  RunnerVerdict RunnerC02 RunnerC13.

(** one emitted event, before it is fanned out to the sinks *)
Record report := {
  r_name : evname; r_att : Z; r_sleep : Z; r_class : option klass; r_err : bool;
  r_stop : option stop; r_cause : option cause; r_ra : option hint }.

Definition emit_rep (c : cfg) (r : report) : list ev :=
  emit_evs c (r_name r) (r_att r) (r_sleep r) (r_class r) (r_err r) (r_stop r) (r_cause r) (r_ra r).

Definition rep_aborted (att : Z) : report :=
  {| r_name := N_ABORTED; r_att := att; r_sleep := 0; r_class := None; r_err := false; r_stop := Some S_ABORT;
     r_cause := None; r_ra := None |}.
Definition rep_stop (r : stop) (att : Z) (k : klass) (cs : cause) : report :=
  {| r_name := name_of_stop r; r_att := att; r_sleep := 0; r_class := Some k; r_err := cause_eqb cs CExc;
     r_stop := Some r; r_cause := Some cs; r_ra := None |}.
Definition rep_retry (att d : Z) (cl : classif) (cs : cause) : report :=
  {| r_name := N_RETRY; r_att := att; r_sleep := d; r_class := Some (cl_k cl); r_err := cause_eqb cs CExc;
     r_stop := None; r_cause := Some cs; r_ra := cl_ra cl |}.
Definition rep_sched (att d : Z) (k : klass) (cs : cause) : report :=
  {| r_name := N_SCHEDULED; r_att := att; r_sleep := d; r_class := Some k; r_err := cause_eqb cs CExc;
     r_stop := Some S_SCHED; r_cause := Some cs; r_ra := None |}.
Definition rep_success (att : Z) : report :=
  {| r_name := N_SUCCESS; r_att := att; r_sleep := 0; r_class := None; r_err := false; r_stop := None;
     r_cause := None; r_ra := None |}.
Definition aborted_once_reps (s : rst) (att : Z) : list report :=
  match last_stop s with Some S_ABORT => [] | _ => [rep_aborted att] end.

Definition verdict_reports (i : nat) (s : rst) (v : iverdict) : list report :=
  let att := Z.of_nat i + 1 in
  match v with
  | IAbortTop => [rep_aborted (att - 1)]
  | ICancel _ | INested => []
  | IAbortOp => aborted_once_reps s att
  | ISuccess => [rep_success att]
  | IAbortAfterFail _ _ => [rep_aborted att]
  | IStop cl cs r => [rep_stop r att (cl_k cl) cs]
  | IAbortAfterGrant cl cs d => [rep_retry att d cl cs; rep_aborted att]
  | IBackoff cl cs d bv =>
      rep_retry att d cl cs ::
      match bv with
      | BDefer => [rep_sched att d (cl_k cl) cs]
      | BHAbort => aborted_once_reps s att
      | BCancel _ => []
      | BStop r => [rep_stop r att (cl_k cl) cs]
      | BContinue => []
      end
  end.

Lemma fo_emit c n att sl k err r cs ra : filter is_obs (emit_evs c n att sl k err r cs ra) = emit_evs c n att sl k err r cs ra.
Proof. unfold emit_evs. destruct (has_metric c); destruct (has_log c); reflexivity. Qed.
Lemma fo_poll c a : filter is_obs (poll_event c a) = [].
Proof. unfold poll_event. destruct (has_abort c); reflexivity. Qed.
Lemma fo_strat c att cl cs s : filter is_obs (strat_event c att cl cs s) = [].
Proof. unfold strat_event. destruct (select_strategy c (cl_k cl)) as [[sd []]|]; reflexivity. Qed.
Lemma fo_budget c s : filter is_obs (budget_event c s) = [].
Proof. unfold budget_event. destruct (budget c); reflexivity. Qed.
Lemma fo_cls cs att : filter is_obs (cls_event cs att) = [].
Proof. destruct cs; reflexivity. Qed.
Lemma fo_handler c e i att k d : filter is_obs (handler_event c e i att k d) = [].
Proof. unfold handler_event. destruct (resolve (handler_p c) (handler_c c)); reflexivity. Qed.
Lemma fo_bs c att d : filter is_obs (bs_event c att d) = [].
Proof. unfold bs_event. destruct (resolve (bs_p c) (bs_c c)); reflexivity. Qed.
Lemma fo_pre c e i s : filter is_obs (pre_events c e i s) = [].
Proof.
  unfold pre_events, rc_event. rewrite !filter_app, fo_poll. simpl.
  destruct (fst (op e i)); try reflexivity. destruct (has_rc c); reflexivity.
Qed.
Lemma fo_aborted_once c s att : filter is_obs (aborted_once_evs c s att) = flat_map (emit_rep c) (aborted_once_reps s att).
Proof.
  unfold aborted_once_evs, aborted_once_reps, aborted_evs. destruct (last_stop s) as [[]|]; simpl;
    rewrite ?app_nil_r, ?fo_emit; reflexivity.
Qed.
Lemma fo_grant c e i s cl cs d :
  filter is_obs (grant_events c e i s cl cs d) = emit_rep c (rep_retry (Z.of_nat i + 1) d cl cs).
Proof.
  unfold grant_events, retry_evs. rewrite !filter_app, fo_poll, fo_cls, fo_strat, fo_budget, fo_emit. reflexivity.
Qed.

Theorem obs_by_verdict c e i s v :
  filter is_obs (verdict_events c e i s v) = flat_map (emit_rep c) (verdict_reports i s v).
Proof.
  destruct v as [| | | | |cl cs|cl cs r|cl cs d|cl cs d bv]; cbn [verdict_events verdict_reports flat_map];
    unfold aborted_evs, success_evs, stop_evs;
    rewrite ?filter_app, ?fo_pre, ?fo_grant, ?fo_poll, ?fo_emit, ?fo_aborted_once, ?fo_cls, ?app_nil_r; try reflexivity.
  - destruct (hf_consulted c (Z.of_nat i + 1) (cl_k cl) (at_fail e i s)); rewrite ?filter_app, ?fo_strat, ?fo_budget; reflexivity.
  - unfold backoff_tail, sched_evs, stop_evs, sleep_event. rewrite filter_app, fo_handler.
    destruct bv; simpl; rewrite ?filter_app, ?fo_bs, ?fo_emit, ?fo_aborted_once, ?app_nil_r; simpl; rewrite ?fo_emit, ?app_nil_r;
      try reflexivity.
    destruct (bs_cancelled c e i); simpl; rewrite ?app_nil_r; reflexivity.
Qed.

(** the reports of one pass *)
Definition iter_reports (c : cfg) (e : env) (i : nat) (s : rst) : list report :=
  verdict_reports i s (iter_verdict c e i s).

Lemma iter_obs m c e i s res s2 tr :
  iter m c e i s = (res, s2, tr) -> filter is_obs tr = flat_map (emit_rep c) (iter_reports c e i s).
Proof. intros H. rewrite (iter_by_verdict _ _ _ _ _ _ _ _ H). apply obs_by_verdict. Qed.

(** ---------------- the sinks ---------------- *)
Definition core := (evname * Z * Z * tags)%type.
Definition metric_core (x : ev) : option core := match x with EMetric n a s tg => Some (n, a, s, tg) | _ => None end.
Definition log_core (x : ev) : option core := match x with ELog n a s tg _ => Some (n, a, s, tg) | _ => None end.
Definition rep_core (c : cfg) (r : report) : core :=
  (r_name r, r_att r, r_sleep r, mk_tags c (r_class r) (r_err r) (r_stop r) (r_cause r)).

Lemma filtermap_app {A B} (f : A -> option B) a b : filtermap f (a ++ b) = filtermap f a ++ filtermap f b.
Proof. induction a as [|x a IH]; simpl; [reflexivity|]. destruct (f x); simpl; rewrite IH; reflexivity. Qed.

Lemma filtermap_obs {B} (f : ev -> option B) tr :
  (forall x, is_obs x = false -> f x = None) -> filtermap f tr = filtermap f (filter is_obs tr).
Proof.
  intros Hf. induction tr as [|x r IH]; simpl; [reflexivity|].
  destruct (is_obs x) eqn:O; simpl.
  - destruct (f x); rewrite IH; reflexivity.
  - rewrite (Hf x O). exact IH.
Qed.

Lemma metric_of_reps c reps :
  filtermap metric_core (flat_map (emit_rep c) reps) = if has_metric c then map (rep_core c) reps else [].
Proof.
  induction reps as [|r l IH]; simpl; [destruct (has_metric c); reflexivity|].
  rewrite filtermap_app, IH. unfold emit_rep, emit_evs, rep_core.
  destruct (has_metric c); destruct (has_log c); reflexivity.
Qed.
Lemma log_of_reps c reps :
  filtermap log_core (flat_map (emit_rep c) reps) = if has_log c then map (rep_core c) reps else [].
Proof.
  induction reps as [|r l IH]; simpl; [destruct (has_log c); reflexivity|].
  rewrite filtermap_app, IH. unfold emit_rep, emit_evs, rep_core.
  destruct (has_metric c); destruct (has_log c); reflexivity.
Qed.

Lemma metric_core_nonobs x : is_obs x = false -> metric_core x = None.
Proof. destruct x; simpl; congruence. Qed.
Lemma log_core_nonobs x : is_obs x = false -> log_core x = None.
Proof. destruct x; simpl; congruence. Qed.

(** the reports of a whole run *)
Definition fallthrough_rep (c : cfg) (s : rst) : report :=
  {| r_name := N_MAX_ATTEMPTS_EXCEEDED; r_att := max_attempts c; r_sleep := 0; r_class := last_class s;
     r_err := (match last_exc s with Some _ => true | None => false end); r_stop := Some S_GLOBAL;
     r_cause := last_cause s; r_ra := None |}.

Definition run_reports m c e start b : list report :=
  flat_map (fun r => iter_reports c e (ir_i r) (ir_pre r)) (run_iters m c e start b) ++
  match run_exhausted m c e start b with Some sf => [fallthrough_rep c sf] | None => [] end.

Lemma flat_map_flat_map {A B C} (f : A -> list B) (g : B -> list C) l :
  flat_map g (flat_map f l) = flat_map (fun x => flat_map g (f x)) l.
Proof. induction l as [|x l IH]; simpl; [reflexivity|]. rewrite flat_map_app, IH. reflexivity. Qed.

Lemma filter_flat_map {A B} (p : B -> bool) (f : A -> list B) l :
  filter p (flat_map f l) = flat_map (fun x => filter p (f x)) l.
Proof. induction l as [|x l IH]; simpl; [reflexivity|]. rewrite filter_app, IH. reflexivity. Qed.

Theorem run_obs m c e start b :
  filter is_obs (run_trace m c e start b) = flat_map (emit_rep c) (run_reports m c e start b).
Proof.
  rewrite run_trace_full. unfold run_reports. rewrite filter_app, flat_map_app, filter_flat_map, flat_map_flat_map.
  f_equal.
  - apply flat_map_ext. intros r. unfold rec_events. rewrite full_events_by_verdict. apply obs_by_verdict.
  - destruct (run_exhausted m c e start b); [|reflexivity]. unfold fallthrough_evs. rewrite fo_emit. simpl.
    rewrite app_nil_r. reflexivity.
Qed.

(** the metric hook and the log hook receive the same sequence: the run's reports *)
Theorem metric_sink m c e start b :
  filtermap metric_core (run_trace m c e start b) = if has_metric c then map (rep_core c) (run_reports m c e start b) else [].
Proof. rewrite (filtermap_obs _ _ metric_core_nonobs), run_obs. apply metric_of_reps. Qed.
Theorem log_sink m c e start b :
  filtermap log_core (run_trace m c e start b) = if has_log c then map (rep_core c) (run_reports m c e start b) else [].
Proof. rewrite (filtermap_obs _ _ log_core_nonobs), run_obs. apply log_of_reps. Qed.

Corollary sinks_equal m c e start b :
  has_metric c = true -> has_log c = true ->
  filtermap metric_core (run_trace m c e start b) = filtermap log_core (run_trace m c e start b).
Proof. intros M L. rewrite metric_sink, log_sink, M, L. reflexivity. Qed.

(** ---------------- grammar: retry* then exactly one terminal event ---------------- *)
Fixpoint wf_stream (a : Z) (l : list report) : bool :=
  match l with
  | [] => false
  | [t] => negb (evname_eqb (r_name t) N_RETRY)
  | r :: rest => evname_eqb (r_name r) N_RETRY && (r_att r =? a) && wf_stream (a + 1) rest
  end.

(** verdicts after which the run does not "end normally" (the exception propagates) *)
Definition abnormal (v : iverdict) : bool :=
  match v with ICancel _ | INested | IBackoff _ _ _ (BCancel _) => true | _ => false end.

Definition normal_run m c e start b : Prop :=
  forall r, In r (run_iters m c e start b) -> abnormal (iter_verdict c e (ir_i r) (ir_pre r)) = false.

Lemma name_of_stop_retry r : evname_eqb (name_of_stop r) N_RETRY = false.
Proof. destruct r; reflexivity. Qed.

Lemma ended_pass_stream c e i s :
  last_stop s = None -> abnormal (iter_verdict c e i s) = false ->
  verdict_fin i (iter_verdict c e i s) <> None ->
  wf_stream (Z.of_nat i + 1) (iter_reports c e i s) = true.
Proof.
  unfold iter_reports. intros LS AB FN.
  destruct (iter_verdict c e i s) as [| | | | |cl cs|cl cs r|cl cs d|cl cs d bv]; simpl in *; try discriminate; try reflexivity;
    unfold aborted_once_reps; rewrite ?LS; simpl; rewrite ?name_of_stop_retry, ?Z.eqb_refl; try reflexivity.
  destruct bv; simpl in *; try discriminate; try congruence; unfold aborted_once_reps; rewrite ?LS; simpl;
    rewrite ?name_of_stop_retry, ?Z.eqb_refl; reflexivity.
Qed.

Lemma iters_stream m c e : forall fuel i s,
  last_stop s = None -> Z.of_nat (i + fuel) = max_attempts c -> (0 < fuel)%nat ->
  (forall r, In r (iters m c e fuel i s) -> abnormal (iter_verdict c e (ir_i r) (ir_pre r)) = false) ->
  wf_stream (Z.of_nat i + 1) (flat_map (fun r => iter_reports c e (ir_i r) (ir_pre r)) (iters m c e fuel i s)) = true.
Proof.
  induction fuel as [|f IH]; intros i s LS FU POS NA; [lia|].
  simpl in *. destruct (iter m c e i s) as [[[s1|fn] s'] tr] eqn:E.
  - pose proof (continue_facts _ _ _ _ _ _ _ _ E) as (cl & cs & d & V & _ & _ & LS1 & _ & _ & _ & _ & _ & _ & MA).
    simpl. unfold iter_reports at 1. rewrite V. cbn [verdict_reports app].
    assert (F: (0 < f)%nat) by lia.
    assert (R: wf_stream (Z.of_nat (S i) + 1) (flat_map (fun r => iter_reports c e (ir_i r) (ir_pre r)) (iters m c e f (S i) s1)) = true).
    { apply IH; try lia; try congruence. intros r Hr. apply NA. right. exact Hr. }
    destruct (flat_map (fun r => iter_reports c e (ir_i r) (ir_pre r)) (iters m c e f (S i) s1)) as [|x l] eqn:FM.
    + simpl in R. discriminate.
    + cbn [wf_stream]. cbn [r_name r_att rep_retry]. rewrite Z.eqb_refl. simpl.
      replace (Z.of_nat i + 1 + 1) with (Z.of_nat (S i) + 1) by lia. exact R.
  - simpl. rewrite app_nil_r. apply ended_pass_stream; [exact LS| |].
    + apply (NA _ (or_introl eq_refl)).
    + pose proof (iter_res_by_verdict _ _ _ _ _ _ _ _ E) as R.
      destruct (verdict_fin i (iter_verdict c e i s)); [discriminate|discriminate].
Qed.

Theorem run_stream m c e start b :
  normal_run m c e start b -> wf_stream 1 (run_reports m c e start b) = true.
Proof.
  intros NR. unfold run_reports.
  destruct (run_exhausted m c e start b) as [sf|] eqn:EX.
  - apply exhausted_only_nonpositive in EX as [MA ->].
    unfold run_iters. replace (Z.to_nat (max_attempts c)) with 0%nat by lia. reflexivity.
  - rewrite app_nil_r. unfold run_iters, run_exhausted in *.
    destruct (Z.to_nat (max_attempts c)) as [|f] eqn:F; [simpl in EX; discriminate|].
    apply (iters_stream m c e (S f) 0 (init_rst start b)); try reflexivity; try lia.
    unfold normal_run, run_iters in NR. rewrite F in NR. exact NR.
Qed.

(** ---------------- the terminal event describes the delivered result ---------------- *)
Lemma terminal_of_ended_pass m c e i s res s2 tr fn :
  iter m c e i s = (res, s2, tr) -> last_stop s = None -> res = inr fn ->
  abnormal (iter_verdict c e i s) = false ->
  exists rs t, iter_reports c e i s = rs ++ [t] /\
    match fn with
    | FSuccess a => t = rep_success a
    | FAbort a => t = rep_aborted a /\ last_stop s2 = Some S_ABORT
    | FStop a cs nx =>
        exists cl r, last_fail s2 = Some (cl, cs, a) /\ last_stop s2 = Some r /\
          t = match nx with Some d => rep_sched a d (cl_k cl) cs | None => rep_stop r a (cl_k cl) cs end /\
          (nx <> None -> r = S_SCHED)
    | _ => False
    end.
Proof.
  intros H LS -> AB.
  pose proof (iter_res_by_verdict _ _ _ _ _ _ _ _ H) as R.
  pose proof (iter_stop_by_verdict _ _ _ _ _ _ _ _ H LS) as ST.
  pose proof (iter_last_fail_by_verdict _ _ _ _ _ _ _ _ H) as LF.
  unfold iter_reports.
  destruct (iter_verdict c e i s) as [| | | | |cl cs|cl cs r|cl cs d|cl cs d bv]; simpl in *; try discriminate;
    try (inversion R; subst; clear R).
  - exists [], (rep_aborted (Z.of_nat i + 1 - 1)). split; [reflexivity|]. split; [reflexivity|exact ST].
  - unfold aborted_once_reps. rewrite LS. exists [], (rep_aborted (Z.of_nat i + 1)). split; [reflexivity|]. split; [reflexivity|exact ST].
  - exists [], (rep_success (Z.of_nat i + 1)). split; reflexivity.
  - exists [], (rep_aborted (Z.of_nat i + 1)). split; [reflexivity|]. split; [reflexivity|exact ST].
  - exists [], (rep_stop r (Z.of_nat i + 1) (cl_k cl) cs). split; [reflexivity|]. exists cl, r. repeat split; auto; congruence.
  - exists [rep_retry (Z.of_nat i + 1) d cl cs], (rep_aborted (Z.of_nat i + 1)). split; [reflexivity|]. split; [reflexivity|exact ST].
  - destruct bv; simpl in *; try discriminate; inversion R; subst; clear R.
    + exists [rep_retry (Z.of_nat i + 1) d cl cs], (rep_sched (Z.of_nat i + 1) d (cl_k cl) cs). split; [reflexivity|].
      exists cl, S_SCHED. repeat split; auto.
    + unfold aborted_once_reps. rewrite LS.
      exists [rep_retry (Z.of_nat i + 1) d cl cs], (rep_aborted (Z.of_nat i + 1)). split; [reflexivity|]. split; [reflexivity|exact ST].
    + exists [rep_retry (Z.of_nat i + 1) d cl cs], (rep_stop r (Z.of_nat i + 1) (cl_k cl) cs). split; [reflexivity|].
      exists cl, r. repeat split; auto; congruence.
Qed.

(** the stop reason delivered to the caller is the one in the state when the run is delivered *)
Lemma delivered_stop m c s fn :
  match fn with FStop _ _ _ | FAbort _ => True | _ => False end ->
  (forall a cs nx, fn = FStop a cs nx -> exists r, last_stop s = Some r) ->
  match deliver m c s fn with
  | DExhausted r _ _ _ _ _ => last_stop s = Some r
  | DAbort => fn = FAbort (match fn with FAbort n => n | _ => 0 end)
  | DOutcome o => o_stop o = last_stop s
  | DRaiseOp _ => True
  | _ => False
  end.
Proof.
  intros K HS. destruct fn; try destruct K; destruct m; simpl; try reflexivity.
  destruct (HS _ _ _ eq_refl) as [r ->]. destruct cs; [destruct next|]; simpl; try reflexivity; exact I.
Qed.
