(** RunnerC15.v — observability hooks cannot alter control flow (C15). *)
From Redress Require Import Base Window Budget Runner Corr RunnerProofs RunnerSpec RunnerFull.

(** the same world with hooks that never raise *)
Definition silence (e : env) : env :=
  {| op := op e; abort := abort e; strat := strat e; handler := handler e; over := over e;
     sleep_cancel := sleep_cancel e;
     metric_raises := fun _ => false; log_raises := fun _ => false; bs_raises := fun _ => false;
     bs_cancel := bs_cancel e |}.

(** two worlds that differ at most in which hook invocations raise ordinary exceptions *)
Definition same_world (e e' : env) : Prop :=
  op e = op e' /\ abort e = abort e' /\ strat e = strat e' /\ handler e = handler e' /\ over e = over e' /\
  sleep_cancel e = sleep_cancel e' /\ bs_cancel e = bs_cancel e'.

Lemma same_world_silence e : same_world e (silence e).
Proof. unfold same_world, silence; simpl. repeat split; reflexivity. Qed.

Section NonInterference.
  Variables (e e' : env).
  Hypothesis W : same_world e e'.

  Lemma emit_same m c s n att sl k err r cs ra :
    emit m c e s n att sl k err r cs ra = emit m c e' s n att sl k err r cs ra.
  Proof. unfold emit. rewrite !guarded_id. destruct (has_metric c); destruct (has_log c); rewrite ?guarded_id; reflexivity. Qed.

  Lemma check_abort_same m c s att : check_abort m c e s att = check_abort m c e' s att.
  Proof. destruct W as (_ & A & _). unfold check_abort. rewrite A, !emit_same. reflexivity. Qed.

  Lemma emit_aborted_once_same m c s att : emit_aborted_once m c e s att = emit_aborted_once m c e' s att.
  Proof. unfold emit_aborted_once. rewrite !emit_same. reflexivity. Qed.

  Lemma stop_with_same m c s r att k cs : stop_with m c e s r att k cs = stop_with m c e' s r att k cs.
  Proof. unfold stop_with. rewrite emit_same. reflexivity. Qed.

  Lemma handle_failure_same m c i att cl cs s :
    handle_failure m c e i att cl cs s = handle_failure m c e' i att cl cs s.
  Proof.
    destruct W as (_ & _ & S & _). unfold handle_failure. rewrite S.
    repeat match goal with
           | |- (if ?b then _ else _) = (if ?b then _ else _) => destruct b
           | |- match ?x with _ => _ end = match ?x with _ => _ end => destruct x
           end; rewrite ?stop_with_same, ?emit_same; reflexivity.
  Qed.

  Lemma before_sleep_same c i s att d : before_sleep_ev c e i s att d = before_sleep_ev c e' i s att d.
  Proof. destruct W as (_ & _ & _ & _ & _ & _ & B). unfold before_sleep_ev. rewrite B.
    destruct (resolve (bs_p c) (bs_c c)); [|reflexivity]. destruct (bs_cancel e' i); rewrite ?guarded_id; reflexivity. Qed.

  Lemma backoff_same m c i att d k cs s : backoff m c e i att d k cs s = backoff m c e' i att d k cs s.
  Proof.
    destruct W as (_ & _ & _ & H & O & SC & _). unfold backoff.
    rewrite H, O, SC, before_sleep_same, emit_aborted_once_same.
    repeat match goal with
           | |- (if ?b then _ else _) = (if ?b then _ else _) => destruct b
           | |- match ?x with _ => _ end = match ?x with _ => _ end => destruct x
           end; rewrite ?emit_same; reflexivity.
  Qed.

  Lemma failure_path_same m c i att cl cs s pre :
    failure_path m c e i att cl cs s pre = failure_path m c e' i att cl cs s pre.
  Proof.
    unfold failure_path. rewrite check_abort_same.
    destruct (check_abort m c e' s att) as [[a1 s1] tr1]. destruct a1; [reflexivity|].
    rewrite handle_failure_same. destruct (handle_failure m c e' i att cl cs s1) as [[dec s2] tr2].
    destruct dec; [|reflexivity]. rewrite check_abort_same.
    destruct (check_abort m c e' s2 att) as [[a2 s3] tr3]. destruct a2; [reflexivity|].
    rewrite backoff_same. reflexivity.
  Qed.

  Lemma iter_same m c i s : iter m c e i s = iter m c e' i s.
  Proof.
    destruct W as (O & _). unfold iter. rewrite check_abort_same, O.
    destruct (check_abort m c e' s (Z.of_nat i + 1 - 1)) as [[a0 s0] tr0]. destruct a0; [reflexivity|].
    destruct (op e' i) as [o dur]. destruct o; try reflexivity.
    - destruct (if has_rc c then rc else None); [apply failure_path_same|rewrite emit_same; reflexivity].
    - apply failure_path_same.
    - rewrite emit_aborted_once_same. reflexivity.
  Qed.

  Lemma fallthrough_same m c s : fallthrough m c e s = fallthrough m c e' s.
  Proof. unfold fallthrough. rewrite emit_same. reflexivity. Qed.

  Lemma loop_same m c : forall fuel i s, loop m c e fuel i s = loop m c e' fuel i s.
  Proof.
    induction fuel as [|f IH]; intros i s; simpl; [apply fallthrough_same|].
    rewrite iter_same. destruct (iter m c e' i s) as [[[s1|fn] s'] tr]; [rewrite IH|]; reflexivity.
  Qed.

  (** the whole run — every invocation, sleep, event with its arguments, the delivery, and the final
      state including the shared budget — is the same *)
  Theorem run_same m c start b : run m c e start b = run m c e' start b.
  Proof. apply loop_same. Qed.
End NonInterference.

Theorem hooks_cannot_interfere m c e start b : run m c e start b = run m c (silence e) start b.
Proof. apply run_same. apply same_world_silence. Qed.

(** a raising metric hook does not prevent the log hook (nor the timeline) from receiving the event:
    what [emit] sends out does not depend on the world at all *)
Theorem both_sinks_always m c e s n att sl k err r cs ra :
  snd (emit m c e s n att sl k err r cs ra) = emit_evs c n att sl k err r cs ra /\
  tl (fst (emit m c e s n att sl k err r cs ra)) =
    if (match m with MExec => capture_tl c | MCall => false end) then tl s ++ [tl_entry s n att sl k r cs] else tl s.
Proof. split; [apply emit_trace|apply emit_tl]. Qed.

Lemma run_seq_same : forall calls calls' start b,
  Forall2 (fun k k' => cs_mode k = cs_mode k' /\ cs_cfg k = cs_cfg k' /\ cs_gap k = cs_gap k' /\
                       same_world (cs_env k) (cs_env k')) calls calls' ->
  run_seq calls start b = run_seq calls' start b.
Proof.
  intros calls calls' start b H. revert start b. induction H as [|k k' r r' (M & C & G & Wd) _ IH]; intros start b; simpl.
  - reflexivity.
  - rewrite M, C, G, (run_same _ _ Wd). destruct (run (cs_mode k') (cs_cfg k') (cs_env k') (start + cs_gap k') b) as [[d sf] tr].
    rewrite IH. reflexivity.
Qed.
