(** RunnerC16.v — sleep-handler protocol (C16). *)
From Redress Require Import Base Window Budget Runner RunnerProofs RunnerSpec RunnerC01 RunnerC03 RunnerFull RunnerLoop
  RunnerVerdict RunnerC02 RunnerC13.

Definition is_handler (x : ev) : bool := match x with EHandler _ _ _ _ _ => true | _ => false end.
Definition is_bs (x : ev) : bool := match x with EBeforeSleep _ _ _ => true | _ => false end.
(** the three callbacks of the backoff phase *)
Definition is_backoff_call (x : ev) : bool := is_handler x || is_bs x || is_sleep x.

Lemma fb_emit c n att sl k err r cs ra : filter is_backoff_call (emit_evs c n att sl k err r cs ra) = [].
Proof. unfold emit_evs. destruct (has_metric c); destruct (has_log c); reflexivity. Qed.
Lemma fb_poll c a : filter is_backoff_call (poll_event c a) = [].
Proof. unfold poll_event. destruct (has_abort c); reflexivity. Qed.
Lemma fb_strat c att cl cs s : filter is_backoff_call (strat_event c att cl cs s) = [].
Proof. unfold strat_event. destruct (select_strategy c (cl_k cl)) as [[sd []]|]; reflexivity. Qed.
Lemma fb_budget c s : filter is_backoff_call (budget_event c s) = [].
Proof. unfold budget_event. destruct (budget c); reflexivity. Qed.
Lemma fb_cls cs att : filter is_backoff_call (cls_event cs att) = [].
Proof. destruct cs; reflexivity. Qed.
Lemma fb_aborted_once c s att : filter is_backoff_call (aborted_once_evs c s att) = [].
Proof. unfold aborted_once_evs, aborted_evs. destruct (last_stop s) as [[]|]; try apply fb_emit; reflexivity. Qed.
Lemma fb_pre c e i s : filter is_backoff_call (pre_events c e i s) = [].
Proof.
  unfold pre_events, rc_event. rewrite !filter_app, fb_poll. simpl.
  destruct (fst (op e i)); try reflexivity. destruct (has_rc c); reflexivity.
Qed.
Lemma fb_grant c e i s cl cs d : filter is_backoff_call (grant_events c e i s cl cs d) = [].
Proof. unfold grant_events, retry_evs. rewrite !filter_app, fb_poll, fb_cls, fb_strat, fb_budget, fb_emit. reflexivity. Qed.
Lemma fb_handler c e i att k d : filter is_backoff_call (handler_event c e i att k d) = handler_event c e i att k d.
Proof. unfold handler_event. destruct (resolve (handler_p c) (handler_c c)); reflexivity. Qed.
Lemma fb_bs c att d : filter is_backoff_call (bs_event c att d) = bs_event c att d.
Proof. unfold bs_event. destruct (resolve (bs_p c) (bs_c c)); reflexivity. Qed.

(** the handler / before_sleep / sleeper calls of one pass, in order *)
Definition backoff_calls (c : cfg) (e : env) (i : nat) (s : rst) (cl : classif) (d : Z) : list ev :=
  handler_event c e i (Z.of_nat i + 1) (cl_k cl) d ++
  match handler_dec c e i with
  | HSleep => bs_event c (Z.of_nat i + 1) d ++
              match bs_cancelled c e i with Some _ => [] | None => sleep_event c d (at_fail e i s) end
  | _ => []
  end.

Lemma backoff_tail_calls c e i s cl cs d :
  filter is_backoff_call
    (backoff_tail c e i (Z.of_nat i + 1) cl cs d (backoff_verdict c e i (Z.of_nat i + 1) d (at_fail e i s)) (at_fail e i s) s) =
  backoff_calls c e i s cl d.
Proof.
  unfold backoff_tail, backoff_calls, backoff_verdict, sched_evs, stop_evs, sleep_event.
  rewrite filter_app, fb_handler.
  destruct (handler_dec c e i); [|rewrite fb_emit; reflexivity|rewrite fb_aborted_once; reflexivity].
  destruct (bs_cancelled c e i) eqn:BC.
  { rewrite filter_app, fb_bs. reflexivity. }
  destruct (sleep_cancel e i).
  { rewrite filter_app, fb_bs. reflexivity. }
  destruct (deadline c <? _).
  { rewrite !filter_app, fb_bs, fb_emit. reflexivity. }
  destruct (Z.of_nat i + 1 =? max_attempts c); rewrite !filter_app, fb_bs, ?fb_emit; reflexivity.
Qed.

(** (1) per granted retry that is not pre-empted by an abort request the handler is consulted exactly
    once (when one is configured) with the computed delay; in every other pass none of the three
    backoff callbacks is called *)
Lemma backoff_calls_by_verdict m c e i s res s2 tr :
  iter m c e i s = (res, s2, tr) ->
  filter is_backoff_call tr =
  match iter_verdict c e i s with
  | IBackoff cl cs d _ => backoff_calls c e i s cl d
  | _ => []
  end.
Proof.
  intros H. rewrite (iter_by_verdict _ _ _ _ _ _ _ _ H).
  destruct (iter_verdict c e i s) as [| | | | |cl cs|cl cs r|cl cs d|cl cs d bv] eqn:V; cbn [verdict_events];
    unfold aborted_evs, success_evs, stop_evs;
    rewrite ?filter_app, ?fb_pre, ?fb_grant, ?fb_poll, ?fb_emit, ?fb_aborted_once, ?fb_cls; try reflexivity.
  - destruct (hf_consulted c (Z.of_nat i + 1) (cl_k cl) (at_fail e i s)); rewrite ?filter_app, ?fb_strat, ?fb_budget; reflexivity.
  - apply verdict_backoff_inv in V as (_ & _ & _ & _ & _ & ->). rewrite backoff_tail_calls. reflexivity.
Qed.

Lemma handler_event_once c e i att k d :
  handler_event c e i att k d =
  match resolve (handler_p c) (handler_c c) with
  | Some w => [EHandler w att k d (handler e i)]
  | None => []
  end.
Proof. reflexivity. Qed.

(** (2) SLEEP (or no handler): before_sleep, then exactly one sleeper call with that delay; the pass
    then continues with the next attempt unless the deadline passed during the sleep or the backoff
    was cancelled *)
Lemma sleep_decision m c e i s res s2 tr cl cs d bv :
  iter m c e i s = (res, s2, tr) -> iter_verdict c e i s = IBackoff cl cs d bv -> handler_dec c e i = HSleep ->
  filter is_backoff_call tr =
    handler_event c e i (Z.of_nat i + 1) (cl_k cl) d ++ bs_event c (Z.of_nat i + 1) d ++
    match bs_cancelled c e i with Some _ => [] | None => [ESleep (sleeper_who c) d (now (at_fail e i s))] end /\
  match bv with
  | BContinue => res = inl s2
  | BStop r => r = S_DEADLINE /\ res = inr (FStop (Z.of_nat i + 1) cs None)
  | BCancel kk => res = inr (FCancelSleep kk (Z.of_nat i + 1))
  | _ => False
  end.
Proof.
  intros H V HD. split.
  - rewrite (backoff_calls_by_verdict _ _ _ _ _ _ _ _ H), V. unfold backoff_calls. rewrite HD. reflexivity.
  - pose proof (iter_res_by_verdict _ _ _ _ _ _ _ _ H) as R. rewrite V in R.
    pose proof (no_wasted_backoff _ _ _ _ _ _ _ _ V) as NW.
    apply verdict_backoff_inv in V as (_ & _ & _ & _ & _ & BV). unfold backoff_verdict in BV. rewrite HD in BV.
    destruct bv; cbn [verdict_fin] in R; try exact R.
    + destruct (bs_cancelled c e i); [discriminate|]. destruct (sleep_cancel e i); [discriminate|].
      destruct (deadline c <? _); [discriminate|]. destruct (Z.of_nat i + 1 =? max_attempts c); discriminate.
    + destruct (bs_cancelled c e i); [discriminate|]. destruct (sleep_cancel e i); [discriminate|].
      destruct (deadline c <? _); [discriminate|]. destruct (Z.of_nat i + 1 =? max_attempts c); discriminate.
    + destruct NW as [-> _]. split; [reflexivity|exact R].
Qed.

(** (3) DEFER: no before_sleep, no sleep, no further attempt; the run ends as SCHEDULED with
    next_sleep_s equal to the delay *)
Lemma defer_decision m c e i s res s2 tr cl cs d bv :
  iter m c e i s = (res, s2, tr) -> iter_verdict c e i s = IBackoff cl cs d bv -> handler_dec c e i = HDefer ->
  bv = BDefer /\
  filter is_backoff_call tr = handler_event c e i (Z.of_nat i + 1) (cl_k cl) d /\
  res = inr (FStop (Z.of_nat i + 1) cs (Some d)) /\ last_stop s2 = Some S_SCHED /\
  last_fail s2 = Some (cl, cs, Z.of_nat i + 1) /\
  exists l, tr = l ++ sched_evs c (Z.of_nat i + 1) d (cl_k cl) cs.
Proof.
  intros H V HD.
  pose proof (iter_res_by_verdict _ _ _ _ _ _ _ _ H) as R. rewrite V in R.
  pose proof (iter_spec _ _ _ _ _ _ _ _ H) as SP. cbn zeta in SP. destruct SP as (_ & _ & SV). rewrite V in SV.
  pose proof (backoff_calls_by_verdict _ _ _ _ _ _ _ _ H) as FC. rewrite V in FC.
  pose proof (iter_by_verdict _ _ _ _ _ _ _ _ H) as TR. rewrite V in TR. cbn [verdict_events] in TR.
  apply verdict_backoff_inv in V as (_ & _ & _ & _ & _ & BV). unfold backoff_verdict in BV. rewrite HD in BV. subst bv.
  split; [reflexivity|]. split.
  { rewrite FC. unfold backoff_calls. rewrite HD, app_nil_r. reflexivity. }
  cbn [verdict_fin] in R. split; [exact R|].
  destruct SV as (LF & _ & _ & _ & _ & _ & _ & LS & _). split; [exact LS|]. split; [exact LF|].
  unfold backoff_tail in TR.
  exists (pre_events c e i s ++ grant_events c e i s cl cs d ++ poll_event c false ++
          handler_event c e i (Z.of_nat i + 1) (cl_k cl) d).
  rewrite TR, <- !app_assoc. reflexivity.
Qed.

(** how a deferral is delivered *)
Lemma defer_delivery m c s att cs d cl :
  last_stop s = Some S_SCHED -> last_fail s = Some (cl, cs, att) ->
  match deliver m c s (FStop att cs (Some d)) with
  | DExhausted r a lc _ _ nx => m = MCall /\ r = S_SCHED /\ a = att /\ lc = Some (cl_k cl) /\ nx = Some d
  | DOutcome o => m = MExec /\ o_ok o = false /\ o_stop o = Some S_SCHED /\ o_attempts o = att /\ o_next o = Some d
  | _ => False
  end.
Proof.
  intros LS LF. destruct m; simpl.
  - unfold last_class. rewrite LS, LF. destruct cs; repeat split; reflexivity.
  - rewrite LS. repeat split.
Qed.

(** (4) ABORT: neither before_sleep nor sleep nor another attempt; the run ends as ABORTED *)
Lemma abort_decision m c e i s res s2 tr cl cs d bv :
  iter m c e i s = (res, s2, tr) -> iter_verdict c e i s = IBackoff cl cs d bv -> handler_dec c e i = HAbort ->
  bv = BHAbort /\
  filter is_backoff_call tr = handler_event c e i (Z.of_nat i + 1) (cl_k cl) d /\
  res = inr (FAbort (Z.of_nat i + 1)) /\ last_stop s2 = Some S_ABORT.
Proof.
  intros H V HD.
  pose proof (iter_res_by_verdict _ _ _ _ _ _ _ _ H) as R. rewrite V in R.
  pose proof (iter_spec _ _ _ _ _ _ _ _ H) as SP. cbn zeta in SP. destruct SP as (_ & _ & SV). rewrite V in SV.
  pose proof (backoff_calls_by_verdict _ _ _ _ _ _ _ _ H) as FC. rewrite V in FC.
  apply verdict_backoff_inv in V as (_ & _ & _ & _ & _ & BV). unfold backoff_verdict in BV. rewrite HD in BV. subst bv.
  split; [reflexivity|]. split.
  { rewrite FC. unfold backoff_calls. rewrite HD, app_nil_r. reflexivity. }
  cbn [verdict_fin] in R. split; [exact R|].
  destruct SV as (_ & _ & _ & _ & _ & _ & _ & LS & _). exact LS.
Qed.

(** (5) per-call callbacks override the policy-level ones; without a handler every granted retry sleeps *)
Lemma resolve_override p cc :
  resolve p cc = if cc then Some WCall else if p then Some WPolicy else None.
Proof. reflexivity. Qed.

Lemma no_handler_sleeps c e i :
  handler_p c = false -> handler_c c = false -> handler_dec c e i = HSleep.
Proof. intros P C. unfold handler_dec, resolve. rewrite P, C. reflexivity. Qed.

Lemma who_of_callbacks c e i att k d :
  handler_event c e i att k d =
    (if handler_c c then [EHandler WCall att k d (handler e i)]
     else if handler_p c then [EHandler WPolicy att k d (handler e i)] else []) /\
  bs_event c att d =
    (if bs_c c then [EBeforeSleep WCall att d] else if bs_p c then [EBeforeSleep WPolicy att d] else []) /\
  sleeper_who c = (if sleeper_c c then WCall else if sleeper_p c then WPolicy else WDefault).
Proof.
  unfold handler_event, bs_event, sleeper_who, resolve.
  destruct (handler_c c), (handler_p c), (bs_c c), (bs_p c), (sleeper_c c), (sleeper_p c); repeat split; reflexivity.
Qed.
