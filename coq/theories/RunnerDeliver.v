(** RunnerDeliver.v — what a run delivers (C04: call, C11: execute): the final pass of the loop, the
    state it leaves, and [deliver]. *)
From Redress Require Import Base Window Budget Runner Corr RunnerProofs RunnerSpec RunnerC01 RunnerC03 RunnerFull RunnerLoop
  RunnerVerdict RunnerC02 RunnerC13 RunnerC14.

(** the failure a verdict talks about is the classified outcome of this very attempt *)
Lemma verdict_fail_inv c e i s :
  match iter_verdict c e i s with
  | IAbortAfterFail cl cs | IStop cl cs _ | IAbortAfterGrant cl cs _ | IBackoff cl cs _ _ =>
      fail_of c (fst (op e i)) = Some (cl, cs)
  | ISuccess => fail_of c (fst (op e i)) = None /\ exists rc, fst (op e i) = OValue rc
  | _ => True
  end.
Proof.
  unfold iter_verdict. destruct (pa c e s 0); [exact I|].
  destruct (fst (op e i)) as [rc|cl| |k|] eqn:O; try exact I.
  - destruct (fail_of c (OValue rc)) as [[cl cs]|] eqn:F; [|split; [reflexivity|eauto]].
    destruct (pa c e s 1); [reflexivity|].
    destruct (hf_verdict c e i (Z.of_nat i + 1) (cl_k cl) (at_fail e i s)); [reflexivity|].
    destruct (pa c e s 2); reflexivity.
  - cbn [fail_of]. destruct (pa c e s 1); [reflexivity|].
    destruct (hf_verdict c e i (Z.of_nat i + 1) (cl_k cl) (at_fail e i s)); [reflexivity|].
    destruct (pa c e s 2); reflexivity.
Qed.

(** the loop's result is the delivery of the pass that ended it *)
Lemma loop_result m c e : forall fuel i s,
  match exhausted m c e fuel i s with
  | Some sf => fst (loop m c e fuel i s) = fst (fallthrough m c e sf)
  | None => exists r fn l, iters m c e fuel i s = l ++ [r] /\ ir_res r = inr fn /\
                           fst (loop m c e fuel i s) = (deliver m c (ir_post r) fn, ir_post r)
  end.
Proof.
  induction fuel as [|f IH]; intros i s; simpl.
  - destruct (fallthrough m c e s) as [[d sf] tr]. reflexivity.
  - destruct (iter m c e i s) as [[[s1|fn] s'] tr] eqn:E.
    + specialize (IH (S i) s1). destruct (exhausted m c e f (S i) s1) as [sf|].
      * destruct (loop m c e f (S i) s1) as [[d sf'] tr']. simpl in *. exact IH.
      * destruct IH as (r & fn & l & Hr & R & L). exists r, fn, (({| ir_i := i; ir_pre := s; ir_res := inl s1; ir_post := s'; ir_tr := tr |}) :: l).
        split; [rewrite Hr; reflexivity|]. split; [exact R|].
        destruct (loop m c e f (S i) s1) as [[d sf'] tr']. simpl in *. exact L.
    + eexists _, fn, []. split; [reflexivity|]. split; reflexivity.
Qed.

Definition final_pass m c e start b (r : irec) (fn : fin) : Prop :=
  (exists l, run_iters m c e start b = l ++ [r]) /\ ir_res r = inr fn /\
  run_delivery m c e start b = deliver m c (ir_post r) fn /\ run_final m c e start b = ir_post r.

Lemma run_has_final_pass m c e start b :
  1 <= max_attempts c -> exists r fn, final_pass m c e start b r fn.
Proof.
  intros MA. unfold final_pass, run_delivery, run_final, run, run_iters.
  pose proof (loop_result m c e (Z.to_nat (max_attempts c)) 0 (init_rst start b)) as L.
  destruct (exhausted m c e (Z.to_nat (max_attempts c)) 0 (init_rst start b)) as [sf|] eqn:EX.
  - exfalso. apply (exhausted_only_nonpositive m c e start b sf) in EX as [X _]. lia.
  - destruct L as (r & fn & l & Hr & R & L). exists r, fn. rewrite L. repeat split; eauto.
Qed.

Lemma final_pass_in m c e start b r fn : final_pass m c e start b r fn -> In r (run_iters m c e start b).
Proof. intros ((l & H) & _). rewrite H. apply in_or_app. right. left. reflexivity. Qed.

(** the final pass is the last attempt: every invocation of the run has an attempt number not
    beyond it *)
Lemma final_pass_is_last m c e start b r fn a t :
  final_pass m c e start b r fn -> In (EInvoke a t) (run_trace m c e start b) -> a <= Z.of_nat (ir_i r) + 1.
Proof.
  intros F Hin. pose proof (final_pass_in _ _ _ _ _ _ _ F) as Hr. destruct F as (_ & R & _).
  unfold run_iters in Hr. unfold run_trace, run in Hin.
  eapply last_iteration; eauto. unfold continued. rewrite R. reflexivity.
Qed.

(** what the final pass looks like, by the way the run ended *)
Lemma final_pass_facts m c e start b r fn :
  final_pass m c e start b r fn ->
  let i := ir_i r in let s := ir_pre r in let s2 := ir_post r in
  last_stop s = None /\
  match fn with
  | FSuccess a => a = Z.of_nat i + 1 /\ fail_of c (fst (op e i)) = None /\ (exists rc, fst (op e i) = OValue rc) /\
                  iter_verdict c e i s = ISuccess
  | FStop a cs nx =>
      a = Z.of_nat i + 1 /\
      exists cl r0, fail_of c (fst (op e i)) = Some (cl, cs) /\ last_fail s2 = Some (cl, cs, a) /\ last_stop s2 = Some r0 /\
                    (forall d, nx = Some d <-> exists bvd, iter_verdict c e i s = IBackoff cl cs d bvd /\ bvd = BDefer) /\
                    (nx <> None -> r0 = S_SCHED) /\ (nx = None -> r0 <> S_SCHED /\ r0 <> S_ABORT)
  | FAbort a => last_stop s2 = Some S_ABORT /\ (a = Z.of_nat i + 1 \/ a = Z.of_nat i) /\
                (a = Z.of_nat i <-> iter_verdict c e i s = IAbortTop)
  | FCancel k a => a = Z.of_nat i + 1 /\ fst (op e i) = OCancel k
  | FCancelSleep k a => a = Z.of_nat i + 1
  | FNested a => a = Z.of_nat i + 1 /\ fst (op e i) = ONested
  end.
Proof.
  intros F i s s2. pose proof (final_pass_in _ _ _ _ _ _ _ F) as Hr. destruct F as (_ & R & _).
  pose proof (run_top _ _ _ _ _ _ Hr) as T. destruct T as [_ LS _ _ _ _].
  fold s in LS. split; [exact LS|].
  unfold run_iters in Hr. apply iters_In in Hr as [_ Hi]. fold i s s2 in Hi. rewrite R in Hi.
  pose proof (iter_res_by_verdict _ _ _ _ _ _ _ _ Hi) as RV.
  pose proof (iter_stop_by_verdict _ _ _ _ _ _ _ _ Hi LS) as ST.
  pose proof (iter_last_fail_by_verdict _ _ _ _ _ _ _ _ Hi) as LF.
  pose proof (verdict_fail_inv c e i s) as FI.
  pose proof (no_wasted_backoff c e i s) as NW.
  destruct (iter_verdict c e i s) as [|k| | | |cl cs|cl cs r0|cl cs d|cl cs d bv] eqn:V; cbn [verdict_fin] in RV;
    try (inversion RV; subst; clear RV).
  - (* IAbortTop *) split; [exact ST|]. split; [right; lia|]. split; [reflexivity|intros _; lia].
  - (* ICancel *) split; [reflexivity|].
    unfold iter_verdict in V. destruct (pa c e s 0); [discriminate|].
    destruct (fst (op e i)) as [rc|cl0| |k0|]; try discriminate; try (inversion V; reflexivity).
    + destruct (fail_of c (OValue rc)) as [[cl0 cs0]|]; [|discriminate]. destruct (pa c e s 1); [discriminate|].
      destruct (hf_verdict _ _ _ _ _ _); [discriminate|]. destruct (pa c e s 2); discriminate.
    + cbn [fail_of] in V. destruct (pa c e s 1); [discriminate|].
      destruct (hf_verdict _ _ _ _ _ _); [discriminate|]. destruct (pa c e s 2); discriminate.
  - (* INested *) split; [reflexivity|].
    unfold iter_verdict in V. destruct (pa c e s 0); [discriminate|].
    destruct (fst (op e i)) as [rc|cl0| |k0|]; try discriminate; try reflexivity.
    + destruct (fail_of c (OValue rc)) as [[cl0 cs0]|]; [|discriminate]. destruct (pa c e s 1); [discriminate|].
      destruct (hf_verdict _ _ _ _ _ _); [discriminate|]. destruct (pa c e s 2); discriminate.
    + cbn [fail_of] in V. destruct (pa c e s 1); [discriminate|].
      destruct (hf_verdict _ _ _ _ _ _); [discriminate|]. destruct (pa c e s 2); discriminate.
  - (* IAbortOp *) split; [exact ST|]. split; [left; reflexivity|]. split; [lia|discriminate].
  - (* ISuccess *) destruct FI as [F O]. repeat split; auto.
  - (* IAbortAfterFail *) split; [exact ST|]. split; [left; reflexivity|]. split; [lia|discriminate].
  - (* IStop *) split; [reflexivity|]. exists cl, r0. split; [exact FI|]. split; [exact LF|]. split; [exact ST|].
    split; [intros d; split; [discriminate|intros (bvd & X & _); discriminate]|].
    split; [congruence|]. intros _.
    assert (HV: hf_verdict c e i (Z.of_nat i + 1) (cl_k cl) (at_fail e i s) = inl r0).
    { unfold iter_verdict in V. destruct (pa c e s 0); [discriminate|].
      destruct (fst (op e i)) as [rc|cl0| |k0|]; try discriminate.
      - destruct (fail_of c (OValue rc)) as [[cl0 cs0]|]; [|discriminate]. destruct (pa c e s 1); [discriminate|].
        destruct (hf_verdict c e i (Z.of_nat i + 1) (cl_k cl0) (at_fail e i s)) eqn:HV; [inversion V; subst; exact HV|].
        destruct (pa c e s 2); discriminate.
      - cbn [fail_of] in V. destruct (pa c e s 1); [discriminate|].
        destruct (hf_verdict c e i (Z.of_nat i + 1) (cl_k cl0) (at_fail e i s)) eqn:HV; [inversion V; subst; exact HV|].
        destruct (pa c e s 2); discriminate. }
    apply stop_reason_sound in HV. destruct r0; simpl in HV; try (split; discriminate); destruct HV.
  - (* IAbortAfterGrant *) split; [exact ST|]. split; [left; reflexivity|]. split; [lia|discriminate].
  - (* IBackoff *)
    destruct bv as [| |kk|rr|]; cbn [verdict_fin] in RV; inversion RV; subst; clear RV.
    + split; [reflexivity|]. exists cl, S_SCHED. split; [exact FI|]. split; [exact LF|]. split; [exact ST|].
      split; [intros d0; split; [intros X; inversion X; subst; eauto|intros (bvd & X & _); inversion X; reflexivity]|].
      split; [reflexivity|]. intros X; discriminate.
    + split; [exact ST|]. split; [left; reflexivity|]. split; [lia|discriminate].
    + reflexivity.
    + split; [reflexivity|]. exists cl, rr. split; [exact FI|]. split; [exact LF|]. split; [exact ST|].
      split; [intros d0; split; [discriminate|intros (bvd & X & Y); inversion X; subst; discriminate]|].
      split; [congruence|]. intros _. destruct (NW _ _ _ _ eq_refl) as [-> _]. split; discriminate.
Qed.

(** ---------------- call(): C04 ---------------- *)
Lemma deliver_call_stop c s a cs nx cl r :
  last_fail s = Some (cl, cs, a) -> last_stop s = Some r ->
  deliver MCall c s (FStop a cs nx) =
  match cs, nx with
  | CExc, None => DRaiseOp a
  | CExc, Some d => DExhausted r a (Some (cl_k cl)) (Some a) None (Some d)
  | CRes, _ => DExhausted r a (Some (cl_k cl)) None (Some a) nx
  end.
Proof.
  intros LF LS. unfold deliver, last_class, last_exc, last_res. rewrite LF, LS. destruct cs; [destruct nx|]; reflexivity.
Qed.

(** ---------------- execute(): C11 ---------------- *)
Lemma deliver_exec_success c s a :
  deliver MExec c s (FSuccess a) =
  DOutcome {| o_ok := true; o_value := Some a; o_stop := None; o_attempts := a; o_class := None; o_exc := None;
              o_res := None; o_cause := None; o_elapsed := elapsed s; o_next := None;
              o_tl := if capture_tl c then Some (tl s) else None |}.
Proof. reflexivity. Qed.

Lemma deliver_exec_stop c s a cs nx cl r :
  last_fail s = Some (cl, cs, a) -> last_stop s = Some r ->
  deliver MExec c s (FStop a cs nx) =
  DOutcome {| o_ok := false; o_value := None; o_stop := Some r; o_attempts := a; o_class := Some (cl_k cl);
              o_exc := (match cs with CExc => Some a | CRes => None end);
              o_res := (match cs with CRes => Some a | CExc => None end);
              o_cause := Some cs; o_elapsed := elapsed s; o_next := nx;
              o_tl := if capture_tl c then Some (tl s) else None |}.
Proof.
  intros LF LS. unfold deliver, build_outcome, last_class, last_exc, last_res, last_cause. rewrite LF, LS.
  destruct cs; reflexivity.
Qed.

(** an aborted execute(): the outcome describes the failure recorded last (none if there was none) *)
Lemma deliver_exec_abort c s n :
  last_stop s = Some S_ABORT ->
  deliver MExec c s (FAbort n) =
  DOutcome {| o_ok := false; o_value := None; o_stop := Some S_ABORT; o_attempts := n; o_class := last_class s;
              o_exc := last_exc s; o_res := last_res s; o_cause := last_cause s; o_elapsed := elapsed s; o_next := None;
              o_tl := if capture_tl c then Some (tl s) else None |}.
Proof. intros LS. unfold deliver, build_outcome. rewrite LS. reflexivity. Qed.

(** execute() returns an outcome unless the run ended with a cancellation-type exception or a
    nested RetryExhaustedError *)
Lemma execute_propagates_only c s fn :
  match deliver MExec c s fn with
  | DOutcome _ => match fn with FCancel _ _ | FCancelSleep _ _ | FNested _ => False | _ => True end
  | DCancel _ _ => exists k a, fn = FCancel k a
  | DCancelSleep _ _ => exists k a, fn = FCancelSleep k a
  | DNested _ => exists a, fn = FNested a
  | _ => False
  end.
Proof. destruct fn; simpl; eauto. Qed.

(** attempts = number of invocations: the attempt number of the last invocation *)
Lemma invocations_upto m c e start b r :
  In r (run_iters m c e start b) -> pa c e (ir_pre r) 0 = false ->
  In (EInvoke (Z.of_nat (ir_i r) + 1) (now (ir_pre r))) (run_trace m c e start b).
Proof.
  intros Hr P0. rewrite run_trace_full. apply in_or_app. left. apply in_flat_map. exists r. split; [exact Hr|].
  unfold rec_events, full_events. rewrite P0. apply in_or_app. right. left. reflexivity.
Qed.

Lemma count_invocations m c e : forall fuel i s,
  Z.of_nat (length (filter is_invoke (chunks (iters m c e fuel i s)))) =
  match rev (iters m c e fuel i s) with
  | [] => 0
  | r :: _ => Z.of_nat (ir_i r) - Z.of_nat i + (if pa c e (ir_pre r) 0 then 0 else 1)
  end.
Proof.
  induction fuel as [|f IH]; intros i s; simpl; [reflexivity|].
  destruct (iter m c e i s) as [[[s1|fn] s'] tr] eqn:E; unfold chunks in *; simpl.
  - rewrite filter_app, app_length, (iter_invokes _ _ _ _ _ _ _ _ E).
    pose proof (continue_facts _ _ _ _ _ _ _ _ E) as (cl & cs & d & V & _).
    apply verdict_backoff_inv in V as (P0 & _). rewrite P0.
    specialize (IH (S i) s1).
    set (L := length (filter is_invoke (flat_map ir_tr (iters m c e f (S i) s1)))) in *.
    change (length [EInvoke (Z.of_nat i + 1) (now s)]) with 1%nat.
    destruct (rev (iters m c e f (S i) s1)) as [|r l] eqn:RV.
    + simpl. rewrite P0. lia.
    + simpl.
      assert (Hr: In r (iters m c e f (S i) s1)) by (apply in_rev; rewrite RV; left; reflexivity).
      apply iters_In in Hr as [Hi _]. lia.
  - rewrite app_nil_r, (iter_invokes _ _ _ _ _ _ _ _ E). simpl. destruct (pa c e s 0); simpl; lia.
Qed.

Lemma abort_top_iff c e i s : iter_verdict c e i s = IAbortTop <-> pa c e s 0 = true.
Proof.
  unfold iter_verdict. destruct (pa c e s 0); [split; reflexivity|].
  split; [|discriminate].
  destruct (fst (op e i)) as [rc|cl0| |k0|]; try discriminate.
  - destruct (fail_of c (OValue rc)) as [[cl0 cs0]|]; [|discriminate]. destruct (pa c e s 1); [discriminate|].
    destruct (hf_verdict _ _ _ _ _ _); [discriminate|]. destruct (pa c e s 2); discriminate.
  - cbn [fail_of]. destruct (pa c e s 1); [discriminate|].
    destruct (hf_verdict _ _ _ _ _ _); [discriminate|]. destruct (pa c e s 2); discriminate.
Qed.

Definition fin_attempts (fn : fin) : option Z :=
  match fn with FSuccess a | FStop a _ _ | FAbort a => Some a | _ => None end.

(** the attempts figure that is reported equals the number of times the operation was invoked *)
Lemma attempts_count m c e start b r fn a :
  1 <= max_attempts c -> final_pass m c e start b r fn -> fin_attempts fn = Some a ->
  Z.of_nat (length (filter is_invoke (run_trace m c e start b))) = a.
Proof.
  intros MA F FA. pose proof (final_pass_facts _ _ _ _ _ _ _ F) as FF. cbn zeta in FF. destruct FF as (_ & FF).
  destruct F as ((l & IT) & R & _).
  unfold run_trace, run. rewrite loop_trace, filter_app, app_length.
  pose proof (count_invocations m c e (Z.to_nat (max_attempts c)) 0 (init_rst start b)) as CI.
  unfold run_iters in IT. rewrite IT, rev_app_distr in CI. simpl in CI.
  assert (EX: exhausted m c e (Z.to_nat (max_attempts c)) 0 (init_rst start b) = None).
  { destruct (exhausted m c e (Z.to_nat (max_attempts c)) 0 (init_rst start b)) eqn:EX; [|reflexivity].
    apply (exhausted_only_nonpositive m c e start b) in EX as [X _]. lia. }
  rewrite EX. simpl length. rewrite Nat.add_0_r, IT, CI.
  pose proof (abort_top_iff c e (ir_i r) (ir_pre r)) as AT.
  destruct fn; simpl in FA; inversion FA; subst; clear FA.
  - destruct FF as (-> & _ & _ & V). destruct (pa c e (ir_pre r) 0); [|lia].
    destruct AT as [_ AT]. rewrite AT in V by reflexivity. discriminate.
  - destruct FF as (_ & [->| ->] & IFF).
    + destruct (pa c e (ir_pre r) 0); [|lia]. destruct AT as [_ AT]. specialize (AT eq_refl).
      apply IFF in AT. lia.
    + destruct (pa c e (ir_pre r) 0); [lia|]. destruct IFF as [IFF _]. specialize (IFF eq_refl).
      apply AT in IFF. discriminate.
  - destruct FF as (-> & cl & r0 & _ & _ & _ & DF & _).
    destruct (pa c e (ir_pre r) 0) eqn:P0; [|lia].
    exfalso. destruct AT as [_ AT]. specialize (AT eq_refl).
    pose proof (final_pass_in m c e start b r (FStop (Z.of_nat (ir_i r) + 1) cs next)) as X.
    assert (Hin: In r (iters m c e (Z.to_nat (max_attempts c)) 0 (init_rst start b))) by (rewrite IT; apply in_or_app; right; left; reflexivity).
    apply iters_In in Hin as [_ Hi]. rewrite R in Hi.
    pose proof (iter_res_by_verdict _ _ _ _ _ _ _ _ Hi) as RV. rewrite AT in RV. simpl in RV. inversion RV.
Qed.
