(** RunnerFull.v — the complete trace of one loop iteration (observability events included) as a
    flat function of the iteration's verdict.  RunnerSpec.v characterises the state and the stripped
    trace; here every event is accounted for, in order, so that the per-property lemmas are case
    analyses of [iter_verdict]. *)
From Redress Require Import Base Window Budget Runner RunnerProofs RunnerSpec.

(** a guarded hook call continues identically whether or not the hook raised *)
Lemma guarded_id {A} (b : bool) (k : A) : guarded b k = k.
Proof. destruct b; reflexivity. Qed.

(** what [emit] sends to the metric hook and the log hook *)
Definition mk_tags (c : cfg) (k : option klass) (err : bool) (r : option stop) (cs : option cause) : tags :=
  {| t_class := k; t_err := err; t_stop := r; t_cause := cs; t_op := has_opname c |}.

Definition emit_evs (c : cfg) (n : evname) (att sl : Z) (k : option klass) (err : bool) (r : option stop)
    (cs : option cause) (ra : option hint) : list ev :=
  (if has_metric c then [EMetric n att sl (mk_tags c k err r cs)] else []) ++
  (if has_log c then [ELog n att sl (mk_tags c k err r cs) (match n with N_RETRY => ra | _ => None end)] else []).

Lemma emit_trace m c e s n att sl k err r cs ra :
  snd (emit m c e s n att sl k err r cs ra) = emit_evs c n att sl k err r cs ra.
Proof.
  unfold emit, emit_evs, mk_tags. rewrite !guarded_id.
  destruct (match m with MExec => capture_tl c | MCall => false end);
  destruct (has_metric c); destruct (has_log c); rewrite ?guarded_id; reflexivity.
Qed.

Lemma emit_trace' m c e s n att sl k err r cs ra s' tr :
  emit m c e s n att sl k err r cs ra = (s', tr) -> tr = emit_evs c n att sl k err r cs ra.
Proof. intros H. rewrite <- (emit_trace m c e s). rewrite H. reflexivity. Qed.

(** the timeline captured by execute(capture_timeline=True): one entry per emitted event *)
Definition tl_entry (s : rst) (n : evname) (att sl : Z) (k : option klass) (r : option stop) (cs : option cause) : tlev :=
  {| tl_att := att; tl_name := n; tl_elapsed := elapsed s; tl_sleep := sl; tl_class := k; tl_stop := r; tl_cause := cs |}.

Lemma emit_tl m c e s n att sl k err r cs ra :
  tl (fst (emit m c e s n att sl k err r cs ra)) =
  if (match m with MExec => capture_tl c | MCall => false end) then tl s ++ [tl_entry s n att sl k r cs] else tl s.
Proof.
  unfold emit, tl_entry.
  destruct (match m with MExec => capture_tl c | MCall => false end);
  destruct (has_metric c); destruct (has_log c); rewrite ?guarded_id; reflexivity.
Qed.

Definition aborted_evs (c : cfg) (att : Z) : list ev :=
  emit_evs c N_ABORTED att 0 None false (Some S_ABORT) None None.
Definition aborted_once_evs (c : cfg) (s : rst) (att : Z) : list ev :=
  match last_stop s with Some S_ABORT => [] | _ => aborted_evs c att end.
Definition stop_evs (c : cfg) (r : stop) (att : Z) (k : klass) (cs : cause) : list ev :=
  emit_evs c (name_of_stop r) att 0 (Some k) (cause_eqb cs CExc) (Some r) (Some cs) None.
Definition retry_evs (c : cfg) (att d : Z) (cl : classif) (cs : cause) : list ev :=
  emit_evs c N_RETRY att d (Some (cl_k cl)) (cause_eqb cs CExc) None (Some cs) (cl_ra cl).
Definition sched_evs (c : cfg) (att d : Z) (k : klass) (cs : cause) : list ev :=
  emit_evs c N_SCHEDULED att d (Some k) (cause_eqb cs CExc) (Some S_SCHED) (Some cs) None.
Definition success_evs (c : cfg) (att : Z) : list ev :=
  emit_evs c N_SUCCESS att 0 None false None None None.

(** ---------------- check_abort ---------------- *)
Lemma check_abort_trace m c e s att a s' tr :
  check_abort m c e s att = (a, s', tr) ->
  tr = poll_event c a ++ (if a then aborted_evs c att else []).
Proof.
  unfold check_abort, poll_event, aborted_evs. destruct (has_abort c).
  - destruct (abort e (npoll s)).
    + destruct (emit m c e _ N_ABORTED att 0 None false (Some S_ABORT) None None) as [s3 tr3] eqn:E.
      apply emit_trace' in E. intros H; inversion H; subst. reflexivity.
    + intros H; inversion H; subst. reflexivity.
  - intros H; inversion H; subst. reflexivity.
Qed.

Lemma emit_aborted_once_trace m c e s att s' tr :
  emit_aborted_once m c e s att = (s', tr) -> tr = aborted_once_evs c s att.
Proof.
  unfold emit_aborted_once, aborted_once_evs, aborted_evs.
  destruct (last_stop s) as [[]|];
    try (intros H; apply emit_trace' in H; exact H).
  intros H; inversion H; reflexivity.
Qed.

(** ---------------- _handle_failure ---------------- *)
Lemma stop_with_trace m c e s r att k cs dec s' tr :
  stop_with m c e s r att k cs = (dec, s', tr) -> tr = stop_evs c r att k cs.
Proof.
  unfold stop_with, stop_evs.
  destruct (emit m c e _ (name_of_stop r) att 0 (Some k) (cause_eqb cs CExc) (Some r) (Some cs) None) as [s1 tr1] eqn:E.
  apply emit_trace' in E. intros H; inversion H; subst. reflexivity.
Qed.

Lemma handle_failure_trace m c e i att cl cs s dec s' tr :
  handle_failure m c e i att cl cs s = (dec, s', tr) ->
  tr = (if hf_consulted c att (cl_k cl) s then strat_event c att cl cs s ++ budget_event c s else []) ++
       match hf_verdict c e i att (cl_k cl) s with
       | inl r => stop_evs c r att (cl_k cl) cs
       | inr d => retry_evs c att d cl cs
       end.
Proof.
  unfold handle_failure, hf_verdict, hf_consulted, strat_event, budget_event, unk_after, retry_evs. norm.
  set (k := cl_k cl). rewrite bump_same.
  destruct (over_limit c k (cnt s k + 1)) eqn:OL; cbn [negb andb].
  { intros H. apply stop_with_trace in H. exact H. }
  destruct (nonretryable k) eqn:NR; cbn [negb andb].
  { intros H. apply stop_with_trace in H. exact H. }
  destruct (klass_eqb k UNKNOWN && over_unknown c (if klass_eqb k UNKNOWN then unk s + 1 else unk s)) eqn:OU; cbn [negb andb].
  { intros H. apply stop_with_trace in H. exact H. }
  destruct (deadline c <? now s - t0 s) eqn:DL; cbn [negb andb].
  { intros H. apply stop_with_trace in H. exact H. }
  destruct (select_strategy c k) as [[sd legacy]|] eqn:SS; cbn [negb andb].
  2:{ intros H. apply stop_with_trace in H. exact H. }
  destruct (deadline c - (now s - t0 s) <=? 0) eqn:RM; cbn [negb andb].
  { intros H. apply stop_with_trace in H. exact H. }
  destruct (max_attempts c <=? att) eqn:MA; cbn [negb andb].
  { intros H. apply stop_with_trace in H. exact H. }
  destruct (budget c) as [b|] eqn:B.
  - destruct (consume b (now s) 1 (bev s)) as [rr bev'] eqn:CO; cbn [fst snd].
    destruct rr.
    + match goal with |- context [emit ?m ?c ?e ?s0 ?n ?a ?sl ?kk ?er ?r ?cs0 ?ra] =>
        destruct (emit m c e s0 n a sl kk er r cs0 ra) as [s1 tr1] eqn:E end.
      apply emit_trace' in E. intros H; inversion H; subst.
      destruct legacy; reflexivity.
    + destruct (stop_with m c e _ S_BUDGET att k cs) as [[dec1 s1] tr1] eqn:SW.
      apply stop_with_trace in SW. intros H; inversion H; subst. destruct legacy; reflexivity.
    + destruct (stop_with m c e _ S_BUDGET att k cs) as [[dec1 s1] tr1] eqn:SW.
      apply stop_with_trace in SW. intros H; inversion H; subst. destruct legacy; reflexivity.
    + destruct (stop_with m c e _ S_BUDGET att k cs) as [[dec1 s1] tr1] eqn:SW.
      apply stop_with_trace in SW. intros H; inversion H; subst. destruct legacy; reflexivity.
  - match goal with |- context [emit ?m ?c ?e ?s0 ?n ?a ?sl ?kk ?er ?r ?cs0 ?ra] =>
      destruct (emit m c e s0 n a sl kk er r cs0 ra) as [s1 tr1] eqn:E end.
    apply emit_trace' in E. intros H; inversion H; subst.
    destruct legacy; rewrite ?app_nil_r; reflexivity.
Qed.

(** ---------------- backoff ---------------- *)
Definition sleep_event (c : cfg) (d : Z) (s : rst) : list ev := [ESleep (sleeper_who c) d (now s)].

Definition backoff_full (c : cfg) (e : env) (i : nat) (att : Z) (k : klass) (cs : cause) (d : Z) (s : rst) : list ev :=
  handler_event c e i att k d ++
  match backoff_verdict c e i att d s with
  | BDefer => emit_evs c N_SCHEDULED att d (last_class s) (match last_exc s with Some _ => true | None => false end)
                (Some S_SCHED) (last_cause s) None
  | BHAbort => aborted_once_evs c s att
  | BCancel _ => bs_event c att d ++ match bs_cancelled c e i with Some _ => [] | None => sleep_event c d s end
  | BStop r => bs_event c att d ++ sleep_event c d s ++
               emit_evs c (name_of_stop r) att 0 (last_class s) (cause_eqb cs CExc) (Some r) (Some cs) None
  | BContinue => bs_event c att d ++ sleep_event c d s
  end.

Lemma backoff_trace m c e i att d k cs s ae s' tr :
  backoff m c e i att d k cs s = (ae, s', tr) -> tr = backoff_full c e i att k cs d s.
Proof.
  unfold backoff, backoff_full, backoff_verdict, handler_dec, handler_event, bs_cancelled, bs_event, before_sleep_ev,
    sleep_event.
  destruct (resolve (handler_p c) (handler_c c)) as [hw|] eqn:HW;
  [destruct (handler e i) eqn:HD|].
  2:{ (* DEFER *)
      match goal with |- context [emit ?m ?c ?e ?s0 ?n ?a ?sl ?kk ?er ?r ?cs0 ?ra] =>
        destruct (emit m c e s0 n a sl kk er r cs0 ra) as [s1 tr1] eqn:E end.
      apply emit_trace' in E. intros H; inversion H; subst. reflexivity. }
  2:{ (* ABORT *)
      destruct (emit_aborted_once m c e s att) as [s1 tr1] eqn:EA. apply emit_aborted_once_trace in EA.
      intros H; inversion H; subst. reflexivity. }
  all: destruct (resolve (bs_p c) (bs_c c)) as [bw|] eqn:BW;
       [destruct (bs_cancel e i) as [kk|] eqn:BC; [intros H; inversion H; subst; simpl; rewrite ?app_nil_r; reflexivity|]|];
       rewrite ?guarded_id; norm;
       (destruct (sleep_cancel e i) as [kk|] eqn:SC; [intros H; inversion H; subst; reflexivity|]);
       (destruct (deadline c <? now s + d + over e i - t0 s) eqn:DL;
        [match goal with |- context [emit ?m ?c ?e ?s0 ?n ?a ?sl ?kk ?er ?r ?cs0 ?ra] =>
           destruct (emit m c e s0 n a sl kk er r cs0 ra) as [s1 tr1] eqn:E end;
         apply emit_trace' in E; intros H; inversion H; subst; simpl; reflexivity|]);
       (destruct (att =? max_attempts c) eqn:MA;
        [match goal with |- context [emit ?m ?c ?e ?s0 ?n ?a ?sl ?kk ?er ?r ?cs0 ?ra] =>
           destruct (emit m c e s0 n a sl kk er r cs0 ra) as [s1 tr1] eqn:E end;
         apply emit_trace' in E; intros H; inversion H; subst; simpl; reflexivity|]);
       intros H; inversion H; subst; simpl; rewrite ?app_nil_r; reflexivity.
Qed.

(** ---------------- the failure path and the whole iteration ---------------- *)
Definition cls_event (cs : cause) (att : Z) : list ev := match cs with CExc => [EClassify att] | CRes => [] end.

(** what follows the abort poll after a grant, given the verdict [bv] of the backoff; [sf] is the state
    when the failure is handled, [s] the loop-top state (whose last_stop_reason is still current) *)
Definition backoff_tail (c : cfg) (e : env) (i : nat) (att : Z) (cl : classif) (cs : cause) (d : Z)
    (bv : bverdict) (sf s : rst) : list ev :=
  handler_event c e i att (cl_k cl) d ++
  match bv with
  | BDefer => sched_evs c att d (cl_k cl) cs
  | BHAbort => aborted_once_evs c s att
  | BCancel _ => bs_event c att d ++ match bs_cancelled c e i with Some _ => [] | None => sleep_event c d sf end
  | BStop r => bs_event c att d ++ sleep_event c d sf ++ stop_evs c r att (cl_k cl) cs
  | BContinue => bs_event c att d ++ sleep_event c d sf
  end.

Definition fail_full (c : cfg) (e : env) (i : nat) (s : rst) (cl : classif) (cs : cause) : list ev :=
  let att := Z.of_nat i + 1 in
  let sf := at_fail e i s in
  poll_event c (pa c e s 1) ++
  if pa c e s 1 then aborted_evs c att else
  cls_event cs att ++
  (if hf_consulted c att (cl_k cl) sf then strat_event c att cl cs sf ++ budget_event c sf else []) ++
  match hf_verdict c e i att (cl_k cl) sf with
  | inl r => stop_evs c r att (cl_k cl) cs
  | inr d => retry_evs c att d cl cs ++ poll_event c (pa c e s 2) ++
             if pa c e s 2 then aborted_evs c att
             else backoff_tail c e i att cl cs d (backoff_verdict c e i att d sf) sf s
  end.

Definition full_events (c : cfg) (e : env) (i : nat) (s : rst) : list ev :=
  let att := Z.of_nat i + 1 in
  poll_event c (pa c e s 0) ++
  if pa c e s 0 then aborted_evs c (att - 1) else
  [EInvoke att (now s)] ++
  match fst (op e i) with
  | OCancel _ | ONested => []
  | OAbort => aborted_once_evs c s att
  | ORaise cl => fail_full c e i s cl CExc
  | OValue rc =>
      (if has_rc c then [ERClassify att] else []) ++
      match fail_of c (OValue rc) with Some (cl, cs) => fail_full c e i s cl cs | None => success_evs c att end
  end.

Lemma hf_retry_consulted c e i att k s d : hf_verdict c e i att k s = inr d -> hf_consulted c att k s = true.
Proof.
  unfold hf_verdict, hf_consulted.
  destruct (over_limit c k (cnt s k + 1)); [discriminate|].
  destruct (nonretryable k); [discriminate|].
  destruct (klass_eqb k UNKNOWN && over_unknown c (unk_after k (unk s))); [discriminate|].
  destruct (deadline c <? elapsed s); [discriminate|].
  destruct (select_strategy c k); [|discriminate].
  destruct (deadline c - elapsed s <=? 0); [discriminate|].
  destruct (max_attempts c <=? att); [discriminate|]. reflexivity.
Qed.

Lemma failure_path_full m c e i cl cs s pre res s2 tr :
  let att := Z.of_nat i + 1 in
  failure_path m c e i att cl cs s pre = (res, s2, tr) ->
  forall s0, now s = now s0 + snd (op e i) -> t0 s = t0 s0 -> cnt s = cnt s0 -> unk s = unk s0 ->
             bev s = bev s0 -> prev s = prev s0 -> npoll s = (npoll s0 + poll_n c)%nat ->
             last_stop s = last_stop s0 ->
  tr = pre ++ fail_full c e i s0 cl cs.
Proof.
  intros att H s0 Hnow Ht0 Hcnt Hunk Hbev Hprev Hnp Hls.
  set (sf := at_fail e i s0).
  unfold failure_path in H.
  destruct (check_abort m c e s att) as [[a1 s1] tr1] eqn:CA1.
  pose proof (check_abort_trace _ _ _ _ _ _ _ _ CA1) as TR1.
  apply check_abort_spec in CA1. destruct CA1 as (A1 & N1 & T1 & P1 & U1 & C1 & F1 & B1 & NP1 & L1 & S1).
  unfold poll_ans in A1.
  assert (EA1: a1 = pa c e s0 1). { rewrite A1. apply pa_shift. lia. }
  unfold fail_full. fold att. fold sf. rewrite <- EA1.
  destruct a1.
  { inversion H; subst. reflexivity. }
  destruct (handle_failure m c e i att cl cs s1) as [[dec s3] tr3] eqn:HF.
  pose proof (handle_failure_trace _ _ _ _ _ _ _ _ _ _ _ HF) as TR3.
  apply handle_failure_spec in HF. cbn zeta in HF.
  destruct HF as (N3 & T3 & NP3 & F3 & V3 & B3 & S3).
  assert (EV: hf_verdict c e i att (cl_k cl) s1 = hf_verdict c e i att (cl_k cl) sf).
  { apply hf_verdict_ext; unfold sf, at_fail; norm; congruence. }
  assert (EC: hf_consulted c att (cl_k cl) s1 = hf_consulted c att (cl_k cl) sf).
  { apply hf_consulted_ext; unfold sf, at_fail; norm; congruence. }
  assert (ESE: strat_event c att cl cs s1 = strat_event c att cl cs sf).
  { unfold strat_event, elapsed, sf, at_fail; norm. rewrite P1, N1, T1, Hprev, Hnow, Ht0. reflexivity. }
  assert (EBE: budget_event c s1 = budget_event c sf).
  { unfold budget_event, sf, at_fail; norm. rewrite N1, B1, Hnow, Hbev. reflexivity. }
  rewrite EV in V3. rewrite EV, EC, ESE, EBE in TR3.
  destruct (hf_verdict c e i att (cl_k cl) sf) as [r|d] eqn:VD.
  { destruct V3 as [-> LS3]. inversion H; subst.
    unfold cls_event. rewrite <- !app_assoc. reflexivity. }
  destruct V3 as (-> & LS3 & PR3 & CN3 & UN3).
  destruct (check_abort m c e s3 att) as [[a2 s4] tr4] eqn:CA2.
  pose proof (check_abort_trace _ _ _ _ _ _ _ _ CA2) as TR4.
  apply check_abort_spec in CA2. destruct CA2 as (A2 & N4 & T4 & P4 & U4 & C4 & F4 & B4 & NP4 & L4 & S4).
  unfold poll_ans in A2.
  assert (EA2: a2 = pa c e s0 2). { rewrite A2. apply pa_shift. rewrite NP3, NP1, Hnp. lia. }
  rewrite <- EA2.
  destruct a2.
  { inversion H; subst. unfold cls_event. rewrite <- !app_assoc. reflexivity. }
  destruct (backoff m c e i att d (cl_k cl) cs s4) as [[ae s5] tr5] eqn:BO.
  pose proof (backoff_trace _ _ _ _ _ _ _ _ _ _ _ _ BO) as TR5.
  assert (EBV: backoff_verdict c e i att d s4 = backoff_verdict c e i att d sf).
  { apply backoff_verdict_ext; unfold sf, at_fail; norm; congruence. }
  assert (ETAIL: backoff_full c e i att (cl_k cl) cs d s4 =
                 backoff_tail c e i att cl cs d (backoff_verdict c e i att d sf) sf s0).
  { unfold backoff_full, backoff_tail, sched_evs, stop_evs, aborted_once_evs, sleep_event. rewrite EBV.
    assert (LF: last_fail s4 = Some (cl, cs, att)) by congruence.
    assert (LC: last_class s4 = Some (cl_k cl)) by (unfold last_class; rewrite LF; reflexivity).
    assert (LCS: last_cause s4 = Some cs) by (unfold last_cause; rewrite LF; reflexivity).
    assert (LE: (match last_exc s4 with Some _ => true | None => false end) = cause_eqb cs CExc)
      by (unfold last_exc; rewrite LF; destruct cs; reflexivity).
    assert (LS: last_stop s4 = last_stop s0) by congruence.
    assert (NW: now s4 = now sf) by (unfold sf, at_fail; norm; congruence).
    rewrite LC, LCS, LE, LS, NW. reflexivity. }
  rewrite ETAIL in TR5.
  assert (TR: pre ++ tr1 ++ (match cs with CExc => [EClassify att] | CRes => [] end) ++ tr3 ++ tr4 ++ tr5 =
              pre ++ poll_event c false ++ cls_event cs att ++
              (if hf_consulted c att (cl_k cl) sf then strat_event c att cl cs sf ++ budget_event c sf else []) ++
              retry_evs c att d cl cs ++ poll_event c false ++
              backoff_tail c e i att cl cs d (backoff_verdict c e i att d sf) sf s0).
  { subst tr1 tr3 tr4 tr5. unfold cls_event. simpl. rewrite <- ?app_assoc. simpl. rewrite ?app_nil_r. reflexivity. }
  destruct ae; inversion H; subst; exact TR.
Qed.

Lemma iter_full m c e i s res s2 tr :
  iter m c e i s = (res, s2, tr) -> tr = full_events c e i s.
Proof.
  intros H. unfold iter in H. set (att := Z.of_nat i + 1) in *.
  destruct (check_abort m c e s (att - 1)) as [[a0 s0] tr0] eqn:CA0.
  pose proof (check_abort_trace _ _ _ _ _ _ _ _ CA0) as TR0.
  apply check_abort_spec in CA0. destruct CA0 as (A0 & N0 & T0 & P0 & U0 & C0 & F0 & B0 & NP0 & L0 & S0).
  unfold poll_ans in A0.
  assert (EA0: a0 = pa c e s 0). { rewrite A0. apply pa_shift. lia. }
  unfold full_events. fold att. rewrite <- EA0.
  destruct a0.
  { inversion H; subst. reflexivity. }
  destruct (op e i) as [o du] eqn:OP. cbn [fst snd] in *.
  rewrite app_nil_r in TR0.
  assert (FP: forall cl cs pre res s2 tr,
             failure_path m c e i att cl cs (set_now s0 (now s0 + du)) pre = (res, s2, tr) ->
             tr = pre ++ fail_full c e i s cl cs).
  { intros cl cs pre res' s2' tr' HFP. subst att.
    eapply (failure_path_full m c e i cl cs _ pre res' s2' tr' HFP s); norm; rewrite ?OP; cbn [snd]; try congruence; lia. }
  destruct o as [rc|cl| |k|]; cbn [fail_of] in *.
  - destruct (has_rc c) eqn:RC.
    + destruct rc as [cl|].
      * apply FP in H. subst tr tr0. rewrite N0, <- !app_assoc. reflexivity.
      * destruct (emit m c e _ N_SUCCESS att 0 None false None None None) as [s3 tr3] eqn:E.
        apply emit_trace' in E. inversion H; subst. unfold success_evs. rewrite N0, <- !app_assoc. reflexivity.
    + destruct (emit m c e _ N_SUCCESS att 0 None false None None None) as [s3 tr3] eqn:E.
      apply emit_trace' in E. inversion H; subst. unfold success_evs. rewrite N0, <- !app_assoc. reflexivity.
  - apply FP in H. subst tr tr0. rewrite N0, <- !app_assoc. reflexivity.
  - destruct (emit_aborted_once m c e _ att) as [s3 tr3] eqn:EA. apply emit_aborted_once_trace in EA.
    inversion H; subst. unfold aborted_once_evs in *. norm. rewrite L0, N0, <- !app_assoc. reflexivity.
  - inversion H; subst. rewrite N0, app_nil_r. reflexivity.
  - inversion H; subst. rewrite N0, app_nil_r. reflexivity.
Qed.
