(** RunnerLoop.v — loop-level tools: invariants over the executed iterations, the run's trace as the
    concatenation of the iterations' full event lists. *)
From Redress Require Import Base Window Budget Runner RunnerProofs RunnerSpec RunnerC01 RunnerFull.

(** generic loop invariant: what holds at the first loop top and is preserved by a continuing
    iteration holds at the loop top of every executed iteration *)
Lemma iters_inv (P : nat -> rst -> Prop) m c e :
  (forall i s s1 s2 tr, P i s -> iter m c e i s = (inl s1, s2, tr) -> P (S i) s1) ->
  forall fuel i s, P i s -> forall r, In r (iters m c e fuel i s) -> P (ir_i r) (ir_pre r).
Proof.
  intros Hstep. induction fuel as [|f IH]; intros i s HP r Hr; simpl in Hr; [destruct Hr|].
  destruct (iter m c e i s) as [[[s1|fn] s'] tr] eqn:E.
  - destruct Hr as [<-|Hr]; [exact HP|]. eapply IH; [|exact Hr]. eapply Hstep; eauto.
  - destruct Hr as [<-|[]]. exact HP.
Qed.

(** same, for the state in which the loop falls through (all iterations continued) *)
Lemma exhausted_inv (P : nat -> rst -> Prop) m c e :
  (forall i s s1 s2 tr, P i s -> iter m c e i s = (inl s1, s2, tr) -> P (S i) s1) ->
  forall fuel i s sf, P i s -> exhausted m c e fuel i s = Some sf -> P (i + fuel)%nat sf.
Proof.
  intros Hstep. induction fuel as [|f IH]; intros i s sf HP H; simpl in H.
  - inversion H; subst. replace (i + 0)%nat with i by lia. exact HP.
  - destruct (iter m c e i s) as [[[s1|fn] s'] tr] eqn:E; [|discriminate].
    replace (i + S f)%nat with (S i + f)%nat by lia. eapply IH; [|exact H]. eapply Hstep; eauto.
Qed.

(** facts about a continuing iteration, from its verdict *)
Lemma continue_facts m c e i s s1 s2 tr :
  iter m c e i s = (inl s1, s2, tr) ->
  exists cl cs d,
    iter_verdict c e i s = IBackoff cl cs d BContinue /\ s1 = s2 /\
    t0 s1 = t0 s /\ last_stop s1 = last_stop s /\ prev s1 = Some d /\
    last_fail s1 = Some (cl, cs, Z.of_nat i + 1) /\
    now s1 = now s + snd (op e i) + d + over e i /\
    now s1 - t0 s1 <= deadline c /\
    d = sanitize (strat e i) (deadline c - elapsed (at_fail e i s)) /\
    elapsed (at_fail e i s) < deadline c /\
    Z.of_nat i + 1 < max_attempts c.
Proof.
  intros H. pose proof (continued_verdict _ _ _ _ _ _ _ _ H) as (cl & cs & d & V & ->).
  pose proof (iter_spec _ _ _ _ _ _ _ _ H) as SP. cbn zeta in SP. destruct SP as (T0 & _ & SV).
  rewrite V in SV. destruct SV as (LF & PR & _ & _ & _ & _ & _ & LS & N).
  exists cl, cs, d. split; [exact V|]. split; [reflexivity|].
  apply verdict_backoff_inv in V as (_ & _ & _ & HV & _ & BV).
  apply hf_retry_inv in HV as (_ & _ & _ & EL & _ & MA & D & _).
  unfold backoff_verdict in BV.
  destruct (handler_dec c e i); try discriminate. destruct (bs_cancelled c e i); [discriminate|].
  destruct (sleep_cancel e i); [discriminate|].
  destruct (deadline c <? now (at_fail e i s) + d + over e i - t0 (at_fail e i s)) eqn:DL; [discriminate|].
  unfold at_fail, elapsed in *; norm. repeat split; auto; try lia.
Qed.

(** the standard loop-top invariant of a run that started at [start] *)
Record top (c : cfg) (start : Z) (i : nat) (s : rst) : Prop := {
  top_t0 : t0 s = start;
  top_stop : last_stop s = None;
  top_deadline : (0 < i)%nat -> now s - start <= deadline c;
  top_first : i = 0%nat -> now s = start /\ prev s = None /\ last_fail s = None;
  top_prev : (0 < i)%nat -> exists d, prev s = Some d /\ 0 <= d;
  top_fail : (0 < i)%nat -> exists cl cs, last_fail s = Some (cl, cs, Z.of_nat i)
}.

Lemma sanitize_nonneg v rem : 0 < rem -> 0 <= sanitize v rem <= rem.
Proof. unfold sanitize. intros H. destruct v; lia. Qed.

Lemma top_init c start b : top c start 0 (init_rst start b).
Proof. constructor; simpl; auto; try lia. Qed.

Lemma top_step m c e start i s s1 s2 tr :
  top c start i s -> iter m c e i s = (inl s1, s2, tr) -> top c start (S i) s1.
Proof.
  intros [T0 LS DL FI PR LF] H.
  apply continue_facts in H as (cl & cs & d & _ & _ & T1 & LS1 & PR1 & LF1 & N1 & DL1 & D & EL & _).
  constructor.
  - congruence.
  - congruence.
  - intros _. rewrite T1, T0 in DL1. exact DL1.
  - intros X; lia.
  - intros _. exists d. split; [exact PR1|]. subst d. apply sanitize_nonneg. lia.
  - intros _. exists cl, cs. rewrite LF1. repeat f_equal. lia.
Qed.

Lemma run_top m c e start b r :
  In r (run_iters m c e start b) -> top c start (ir_i r) (ir_pre r).
Proof.
  unfold run_iters. apply (iters_inv (top c start) m c e).
  - intros. eapply top_step; eauto.
  - apply top_init.
Qed.

(** ---------------- the trace of a run ---------------- *)
Definition rec_events (c : cfg) (e : env) (r : irec) : list ev := full_events c e (ir_i r) (ir_pre r).

Lemma chunks_full m c e : forall fuel i s,
  chunks (iters m c e fuel i s) = flat_map (rec_events c e) (iters m c e fuel i s).
Proof.
  induction fuel as [|f IH]; intros i s; simpl; [reflexivity|].
  destruct (iter m c e i s) as [[[s1|fn] s'] tr] eqn:E; unfold chunks in *; simpl.
  - rewrite IH. unfold rec_events at 1; simpl. rewrite (iter_full _ _ _ _ _ _ _ _ E). reflexivity.
  - unfold rec_events; simpl. rewrite (iter_full _ _ _ _ _ _ _ _ E). reflexivity.
Qed.

Definition fallthrough_evs (c : cfg) (s : rst) : list ev :=
  emit_evs c N_MAX_ATTEMPTS_EXCEEDED (max_attempts c) 0 (last_class s)
    (match last_exc s with Some _ => true | None => false end) (Some S_GLOBAL) (last_cause s) None.

Lemma fallthrough_trace m c e s : snd (fallthrough m c e s) = fallthrough_evs c s.
Proof.
  unfold fallthrough, fallthrough_evs.
  match goal with |- context [emit ?m ?c ?e ?s0 ?n ?a ?sl ?kk ?er ?r ?cs0 ?ra] =>
    destruct (emit m c e s0 n a sl kk er r cs0 ra) as [s1 tr1] eqn:E end.
  apply emit_trace' in E. subst tr1.
  destruct m; [|reflexivity]. simpl.
  destruct (last_fail s1) as [[[cl cs] a]|]; [destruct cs|]; reflexivity.
Qed.

Definition run_exhausted m c e start b : option rst :=
  exhausted m c e (Z.to_nat (max_attempts c)) 0 (init_rst start b).

Theorem run_trace_full m c e start b :
  run_trace m c e start b =
  flat_map (rec_events c e) (run_iters m c e start b) ++
  match run_exhausted m c e start b with Some sf => fallthrough_evs c sf | None => [] end.
Proof.
  unfold run_trace, run, run_iters, run_exhausted. rewrite loop_trace, chunks_full.
  destruct (exhausted m c e (Z.to_nat (max_attempts c)) 0 (init_rst start b)); [rewrite fallthrough_trace|]; reflexivity.
Qed.

Lemma emit_evs_obs c n att sl k err r cs ra : forallb is_obs (emit_evs c n att sl k err r cs ra) = true.
Proof. unfold emit_evs. destruct (has_metric c); destruct (has_log c); reflexivity. Qed.

(** every non-observability event of a run belongs to an executed iteration *)
Lemma in_run_trace m c e start b x :
  In x (run_trace m c e start b) -> is_obs x = false ->
  exists r, In r (run_iters m c e start b) /\ In x (rec_events c e r).
Proof.
  rewrite run_trace_full. intros H NO. apply in_app_or in H as [H|H].
  - apply in_flat_map in H. exact H.
  - exfalso. destruct (run_exhausted m c e start b); [|destruct H].
    pose proof (emit_evs_obs c N_MAX_ATTEMPTS_EXCEEDED (max_attempts c) 0 (last_class r)
                  (match last_exc r with Some _ => true | None => false end) (Some S_GLOBAL) (last_cause r) None) as O.
    rewrite forallb_forall in O. specialize (O x H). congruence.
Qed.

(** the loop falls through only when max_attempts <= 0 *)
Lemma exhausted_only_nonpositive m c e start b sf :
  run_exhausted m c e start b = Some sf -> max_attempts c <= 0 /\ sf = init_rst start b.
Proof.
  unfold run_exhausted. intros H.
  destruct (Z.to_nat (max_attempts c)) as [|f] eqn:F.
  - simpl in H. inversion H. split; [lia|reflexivity].
  - exfalso.
    pose proof (exhausted_all_continued _ _ _ _ _ _ _ H) as [L A].
    (* the last executed iteration has attempt number max_attempts, which never continues *)
    assert (exists r, nth_error (iters m c e (S f) 0 (init_rst start b)) f = Some r) as [r Hr].
    { destruct (nth_error (iters m c e (S f) 0 (init_rst start b)) f) eqn:N; [eauto|].
      apply nth_error_None in N. lia. }
    pose proof (iters_nth _ _ _ _ _ _ _ _ Hr) as (I & IT & _).
    assert (C: continued r = true) by (apply A; eapply nth_error_In; eauto).
    unfold continued in C. destruct (ir_res r) as [s1|] eqn:R; [|discriminate].
    apply continue_facts in IT as (_ & _ & _ & _ & _ & _ & _ & _ & _ & _ & _ & _ & _ & MA).
    rewrite I in MA. lia.
Qed.
