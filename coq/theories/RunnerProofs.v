(** RunnerProofs.v — infrastructure for reasoning about the retry loop:
    what [emit] / [check_abort] preserve, the list of executed iterations [iters], and the
    decomposition of a run's trace into the chunks of its iterations. *)
From Redress Require Import Base Window Budget Runner.

(** ---------------- fields that hooks and event emission never touch ---------------- *)
Definition core_eq (s s' : rst) : Prop :=
  now s' = now s /\ t0 s' = t0 s /\ npoll s' = npoll s /\ prev s' = prev s /\ unk s' = unk s /\
  cnt s' = cnt s /\ last_fail s' = last_fail s /\ last_stop s' = last_stop s /\ bev s' = bev s.

Lemma core_eq_refl s : core_eq s s.
Proof. unfold core_eq; repeat split; reflexivity. Qed.
Lemma core_eq_trans a b c : core_eq a b -> core_eq b c -> core_eq a c.
Proof. unfold core_eq. intros H1 H2. decompose [and] H1. decompose [and] H2. repeat split; congruence. Qed.

Lemma emit_core m c e s n att sl k err r cs ra s' tr :
  emit m c e s n att sl k err r cs ra = (s', tr) -> core_eq s s'.
Proof.
  unfold emit, guarded. intros H.
  destruct (match m with MExec => capture_tl c | MCall => false end);
  destruct (has_metric c); destruct (has_log c);
  repeat match goal with H : context [if ?b then _ else _] |- _ => destruct b end;
  inversion H; subst; unfold core_eq; simpl; repeat split; reflexivity.
Qed.

(** events produced by emit are only EMetric / ELog *)
Definition is_obs (x : ev) : bool := match x with EMetric _ _ _ _ | ELog _ _ _ _ _ => true | _ => false end.
Lemma emit_only_obs m c e s n att sl k err r cs ra s' tr :
  emit m c e s n att sl k err r cs ra = (s', tr) -> forallb is_obs tr = true.
Proof.
  unfold emit, guarded. intros H.
  destruct (match m with MExec => capture_tl c | MCall => false end);
  destruct (has_metric c); destruct (has_log c);
  repeat match goal with H : context [if ?b then _ else _] |- _ => destruct b end;
  inversion H; subst; reflexivity.
Qed.

Definition is_invoke (x : ev) : bool := match x with EInvoke _ _ => true | _ => false end.
Definition is_sleep (x : ev) : bool := match x with ESleep _ _ _ => true | _ => false end.
Definition is_budget (x : ev) : bool := match x with EBudget _ => true | _ => false end.
Definition is_poll (x : ev) : bool := match x with EPoll _ => true | _ => false end.

Lemma filter_obs_free (f : ev -> bool) tr :
  (forall x, is_obs x = true -> f x = false) -> forallb is_obs tr = true -> filter f tr = [].
Proof.
  intros Hf. induction tr as [|x r IH]; simpl; [reflexivity|].
  intros H. apply andb_true_iff in H as [Hx Hr]. rewrite (Hf x Hx). apply IH. exact Hr.
Qed.

Lemma emit_no_invoke m c e s n att sl k err r cs ra s' tr :
  emit m c e s n att sl k err r cs ra = (s', tr) -> filter is_invoke tr = [].
Proof. intros H. eapply filter_obs_free; [|eapply emit_only_obs; eauto]. intros [] Hx; simpl in *; congruence. Qed.
Lemma emit_no_sleep m c e s n att sl k err r cs ra s' tr :
  emit m c e s n att sl k err r cs ra = (s', tr) -> filter is_sleep tr = [].
Proof. intros H. eapply filter_obs_free; [|eapply emit_only_obs; eauto]. intros [] Hx; simpl in *; congruence. Qed.
Lemma emit_no_budget m c e s n att sl k err r cs ra s' tr :
  emit m c e s n att sl k err r cs ra = (s', tr) -> filter is_budget tr = [].
Proof. intros H. eapply filter_obs_free; [|eapply emit_only_obs; eauto]. intros [] Hx; simpl in *; congruence. Qed.

(** ---------------- the executed iterations of a run ---------------- *)
Record irec := { ir_i : nat; ir_pre : rst; ir_res : rst + fin; ir_post : rst; ir_tr : list ev }.

Fixpoint iters (m : mode) (c : cfg) (e : env) (fuel i : nat) (s : rst) : list irec :=
  match fuel with
  | O => []
  | S f =>
      match iter m c e i s with
      | (inr fn, s', tr) => [{| ir_i := i; ir_pre := s; ir_res := inr fn; ir_post := s'; ir_tr := tr |}]
      | (inl s1, s', tr) =>
          {| ir_i := i; ir_pre := s; ir_res := inl s1; ir_post := s'; ir_tr := tr |} :: iters m c e f (S i) s1
      end
  end.

Definition continued (r : irec) : bool := match ir_res r with inl _ => true | inr _ => false end.

(** did the loop run out of iterations (only then the fall-through code runs) *)
Fixpoint exhausted (m : mode) (c : cfg) (e : env) (fuel i : nat) (s : rst) : option rst :=
  match fuel with
  | O => Some s
  | S f => match iter m c e i s with
           | (inr _, _, _) => None
           | (inl s1, _, _) => exhausted m c e f (S i) s1
           end
  end.

Definition chunks (l : list irec) : list ev := flat_map ir_tr l.

Lemma loop_trace m c e : forall fuel i s,
  snd (loop m c e fuel i s) =
  chunks (iters m c e fuel i s) ++
  match exhausted m c e fuel i s with Some sf => snd (fallthrough m c e sf) | None => [] end.
Proof.
  induction fuel as [|f IH]; intros i s; simpl.
  - reflexivity.
  - destruct (iter m c e i s) as [[[s1|fn] s'] tr] eqn:E; simpl.
    + specialize (IH (S i) s1). destruct (loop m c e f (S i) s1) as [[d sf] tr'] eqn:L. simpl in *.
      rewrite IH. unfold chunks. simpl. rewrite app_assoc. reflexivity.
    + unfold chunks; simpl. rewrite !app_nil_r. reflexivity.
Qed.

Lemma iters_length m c e : forall fuel i s, (length (iters m c e fuel i s) <= fuel)%nat.
Proof.
  induction fuel as [|f IH]; intros i s; simpl; [lia|].
  destruct (iter m c e i s) as [[[s1|fn] s'] tr]; simpl; [specialize (IH (S i) s1)|]; lia.
Qed.

(** the records are the consecutive iterations i, i+1, ...; each but the last continued, and the
    next one starts from the state the previous one continued with *)
Lemma iters_nth m c e : forall fuel i s n r,
  nth_error (iters m c e fuel i s) n = Some r ->
  ir_i r = (i + n)%nat /\ iter m c e (ir_i r) (ir_pre r) = (ir_res r, ir_post r, ir_tr r) /\
  (forall r', nth_error (iters m c e fuel i s) (S n) = Some r' -> ir_res r = inl (ir_pre r')) /\
  (continued r = false -> nth_error (iters m c e fuel i s) (S n) = None).
Proof.
  induction fuel as [|f IH]; intros i s n r H; simpl in *.
  - destruct n; discriminate.
  - destruct (iter m c e i s) as [[[s1|fn] s'] tr] eqn:E; simpl in *.
    + destruct n as [|n]; simpl in *.
      * inversion H; subst r; simpl. replace (i + 0)%nat with i by lia. repeat split; auto.
        -- intros r' Hr'. destruct f; simpl in Hr'; [discriminate|].
           destruct (iter m c e (S i) s1) as [[[s2|fn2] s2'] tr2]; simpl in Hr'; inversion Hr'; reflexivity.
        -- unfold continued; simpl. discriminate.
      * destruct (IH (S i) s1 n r H) as (A & B & C & D).
        split; [lia|]. split; [exact B|]. split; [exact C|exact D].
    + destruct n as [|n]; simpl in *; [|destruct n; discriminate].
      inversion H; subst r; simpl. replace (i + 0)%nat with i by lia. repeat split; auto.
      intros r' Hr'. discriminate.
Qed.

Lemma iters_In m c e fuel i s r :
  In r (iters m c e fuel i s) ->
  (i <= ir_i r < i + fuel)%nat /\ iter m c e (ir_i r) (ir_pre r) = (ir_res r, ir_post r, ir_tr r).
Proof.
  intros H. apply In_nth_error in H as [n Hn].
  pose proof (iters_nth m c e fuel i s n r Hn) as (A & B & _).
  split; [|exact B]. pose proof (iters_length m c e fuel i s) as L.
  assert (n < length (iters m c e fuel i s))%nat by (apply nth_error_Some; congruence). lia.
Qed.

(** all iterations but the last one continued *)
Lemma iters_continued m c e : forall fuel i s n r,
  nth_error (iters m c e fuel i s) n = Some r -> (S n < length (iters m c e fuel i s))%nat -> continued r = true.
Proof.
  intros fuel i s n r H L. destruct (continued r) eqn:C; [reflexivity|].
  pose proof (iters_nth m c e fuel i s n r H) as (_ & _ & _ & D). specialize (D C).
  apply nth_error_None in D. lia.
Qed.

Lemma exhausted_all_continued m c e : forall fuel i s sf,
  exhausted m c e fuel i s = Some sf -> length (iters m c e fuel i s) = fuel /\
  forall r, In r (iters m c e fuel i s) -> continued r = true.
Proof.
  induction fuel as [|f IH]; intros i s sf H; simpl in *.
  - split; [reflexivity|intros r []].
  - destruct (iter m c e i s) as [[[s1|fn] s'] tr] eqn:E; [|discriminate].
    destruct (IH (S i) s1 sf H) as [L A]. simpl. split; [lia|].
    intros r [<-|Hr]; [reflexivity|apply A; exact Hr].
Qed.

(** membership in the trace of a run *)
Lemma in_chunks x l : In x (chunks l) <-> exists r, In r l /\ In x (ir_tr r).
Proof. unfold chunks. rewrite in_flat_map. reflexivity. Qed.

(** counting lemma: a per-iteration bound lifts to the whole loop *)
Lemma chunks_filter_length (f : ev -> bool) l k :
  (forall r, In r l -> (length (filter f (ir_tr r)) <= k)%nat) ->
  (length (filter f (chunks l)) <= k * length l)%nat.
Proof.
  induction l as [|r l IH]; simpl; intros H; [lia|].
  unfold chunks in *. simpl. rewrite filter_app, app_length.
  specialize (IH (fun r' Hr' => H r' (or_intror Hr'))). specialize (H r (or_introl eq_refl)). lia.
Qed.
