(** RunnerSpec.v — characterising lemmas for the pieces of one loop iteration.
    Each function of Runner.v that threads state and trace is related to a pure, trace-free
    "verdict" function; later proofs depend only on these interfaces. *)
From Redress Require Import Base Window Budget Runner RunnerProofs.

(** the non-observability part of a trace (everything except on_metric / on_log calls) *)
Definition strip (tr : list ev) : list ev := filter (fun x => negb (is_obs x)) tr.
Lemma strip_app a b : strip (a ++ b) = strip a ++ strip b.
Proof. apply filter_app. Qed.
Lemma strip_obs tr : forallb is_obs tr = true -> strip tr = [].
Proof.
  induction tr as [|x r IH]; simpl; [reflexivity|]. intros H. apply andb_true_iff in H as [Hx Hr].
  unfold strip in *. simpl. rewrite Hx. simpl. apply IH. exact Hr.
Qed.
Lemma strip_emit m c e s n att sl k err r cs ra s' tr :
  emit m c e s n att sl k err r cs ra = (s', tr) -> strip tr = [].
Proof. intros H. apply strip_obs. eapply emit_only_obs; eauto. Qed.

(** ---------------- check_abort ---------------- *)
Definition poll_ans (c : cfg) (e : env) (s : rst) : bool := has_abort c && abort e (npoll s).
Definition poll_n (c : cfg) : nat := if has_abort c then 1%nat else 0%nat.

Lemma check_abort_spec m c e s att a s' tr :
  check_abort m c e s att = (a, s', tr) ->
  a = poll_ans c e s /\
  now s' = now s /\ t0 s' = t0 s /\ prev s' = prev s /\ unk s' = unk s /\ cnt s' = cnt s /\
  last_fail s' = last_fail s /\ bev s' = bev s /\
  npoll s' = (npoll s + poll_n c)%nat /\
  last_stop s' = (if a then Some S_ABORT else last_stop s) /\
  strip tr = (if has_abort c then [EPoll a] else []).
Proof.
  unfold check_abort, poll_ans, poll_n. destruct (has_abort c) eqn:HA; simpl.
  - destruct (abort e (npoll s)) eqn:A.
    + destruct (emit m c e _ N_ABORTED att 0 None false (Some S_ABORT) None None) as [s3 tr3] eqn:E.
      intros H; inversion H; subst. apply emit_core in E as HC. apply strip_emit in E.
      unfold core_eq in HC; simpl in HC. decompose [and] HC.
      repeat split; try congruence; try (simpl; lia).
      unfold strip in *. simpl. rewrite E. reflexivity.
    + intros H; inversion H; subst; simpl. repeat split; try reflexivity; lia.
  - intros H; inversion H; subst; simpl. repeat split; try reflexivity; lia.
Qed.

(** ---------------- _handle_failure ---------------- *)
Definition unk_after (k : klass) (u : Z) : Z := if klass_eqb k UNKNOWN then u + 1 else u.

(** the decision of _handle_failure as a pure function of the configuration, the failure and the
    state: [inl r] = stop with reason r, [inr d] = retry granted with delay d *)
Definition hf_verdict (c : cfg) (e : env) (i : nat) (att : Z) (k : klass) (s : rst) : stop + Z :=
  if over_limit c k (cnt s k + 1) then inl S_PERCLASS else
  if nonretryable k then inl S_NONRETRY else
  if klass_eqb k UNKNOWN && over_unknown c (unk_after k (unk s)) then inl S_UNKNOWN else
  if deadline c <? elapsed s then inl S_DEADLINE else
  match select_strategy c k with
  | None => inl S_NOSTRAT
  | Some _ =>
      if deadline c - elapsed s <=? 0 then inl S_DEADLINE else
      if max_attempts c <=? att then inl S_GLOBAL else
      match budget c with
      | Some b => match fst (consume b (now s) 1 (bev s)) with
                  | RGrant => inr (sanitize (strat e i) (deadline c - elapsed s))
                  | _ => inl S_BUDGET
                  end
      | None => inr (sanitize (strat e i) (deadline c - elapsed s))
      end
  end.

(** was the strategy consulted (and hence the budget asked) *)
Definition hf_consulted (c : cfg) (att : Z) (k : klass) (s : rst) : bool :=
  negb (over_limit c k (cnt s k + 1)) && negb (nonretryable k)
  && negb (klass_eqb k UNKNOWN && over_unknown c (unk_after k (unk s)))
  && negb (deadline c <? elapsed s)
  && match select_strategy c k with Some _ => true | None => false end
  && negb (deadline c - elapsed s <=? 0) && negb (max_attempts c <=? att).

Definition strat_event (c : cfg) (att : Z) (cl : classif) (cs : cause) (s : rst) : list ev :=
  match select_strategy c (cl_k cl) with
  | Some (sd, true) => [EStrat sd true att (cl_k cl) None (prev s) None None]
  | Some (sd, false) => [EStrat sd false att (cl_k cl) (cl_ra cl) (prev s) (Some (deadline c - elapsed s)) (Some cs)]
  | None => []
  end.

Definition budget_event (c : cfg) (s : rst) : list ev :=
  match budget c with
  | Some b => [EBudget (match fst (consume b (now s) 1 (bev s)) with RGrant => true | _ => false end)]
  | None => []
  end.

Lemma bump_same f k : bump f k k = f k + 1.
Proof. unfold bump. rewrite klass_eqb_refl. reflexivity. Qed.
Lemma bump_other f k k' : klass_eqb k k' = false -> bump f k k' = f k'.
Proof. unfold bump. intros ->. reflexivity. Qed.

Ltac norm :=
  unfold elapsed in *;
  cbn [now t0 npoll prev unk cnt last_fail last_stop bev tl nmet nlog nbs set_now set_npoll set_nmet set_nlog
       set_nbs set_prev set_counts set_last_fail set_last_stop set_bev set_tl] in *.

Ltac emit_step E HC HS :=
  match goal with
  | |- context [emit ?m ?c ?e ?s ?n ?a ?sl ?k ?er ?r ?cs ?ra] =>
      let s' := fresh "se" in let tr := fresh "tre" in
      destruct (emit m c e s n a sl k er r cs ra) as [s' tr] eqn:E;
      pose proof (emit_core _ _ _ _ _ _ _ _ _ _ _ _ _ _ E) as HC;
      pose proof (strip_emit _ _ _ _ _ _ _ _ _ _ _ _ _ _ E) as HS;
      unfold core_eq in HC; simpl in HC
  end.

Lemma stop_with_spec m c e s r att k cs dec s' tr :
  stop_with m c e s r att k cs = (dec, s', tr) ->
  dec = DecRaise /\ now s' = now s /\ t0 s' = t0 s /\ npoll s' = npoll s /\ last_fail s' = last_fail s /\
  last_stop s' = Some r /\ bev s' = bev s /\ prev s' = prev s /\ cnt s' = cnt s /\ unk s' = unk s /\ strip tr = [].
Proof.
  unfold stop_with. emit_step E HC HS. intros H; inversion H; subst.
  decompose [and] HC. repeat split; congruence.
Qed.

Lemma handle_failure_spec m c e i att cl cs s dec s' tr :
  handle_failure m c e i att cl cs s = (dec, s', tr) ->
  let k := cl_k cl in
  now s' = now s /\ t0 s' = t0 s /\ npoll s' = npoll s /\ last_fail s' = Some (cl, cs, att) /\
  match hf_verdict c e i att k s with
  | inl r => dec = DecRaise /\ last_stop s' = Some r
  | inr d => dec = DecRetry d /\ last_stop s' = last_stop s /\ prev s' = Some d /\
             cnt s' = bump (cnt s) k /\ unk s' = unk_after k (unk s)
  end /\
  bev s' = (if hf_consulted c att k s
            then match budget c with Some b => snd (consume b (now s) 1 (bev s)) | None => bev s end
            else bev s) /\
  strip tr = (if hf_consulted c att k s then strat_event c att cl cs s ++ budget_event c s else []).
Proof.
  unfold handle_failure, hf_verdict, hf_consulted, strat_event, budget_event, unk_after. norm.
  set (k := cl_k cl). rewrite bump_same.
  destruct (over_limit c k (cnt s k + 1)) eqn:OL; cbn [negb andb].
  { intros H. apply stop_with_spec in H. norm. decompose [and] H. repeat split; auto. }
  destruct (nonretryable k) eqn:NR; cbn [negb andb].
  { intros H. apply stop_with_spec in H. norm. decompose [and] H. repeat split; auto. }
  destruct (klass_eqb k UNKNOWN && over_unknown c (if klass_eqb k UNKNOWN then unk s + 1 else unk s)) eqn:OU; cbn [negb andb].
  { intros H. apply stop_with_spec in H. norm. decompose [and] H. repeat split; auto. }
  destruct (deadline c <? now s - t0 s) eqn:DL; cbn [negb andb].
  { intros H. apply stop_with_spec in H. norm. decompose [and] H. repeat split; auto. }
  destruct (select_strategy c k) as [[sd legacy]|] eqn:SS; cbn [negb andb].
  2:{ intros H. apply stop_with_spec in H. norm. decompose [and] H. repeat split; auto. }
  destruct (deadline c - (now s - t0 s) <=? 0) eqn:RM; cbn [negb andb].
  { intros H. apply stop_with_spec in H. norm. decompose [and] H. repeat split; auto. }
  destruct (max_attempts c <=? att) eqn:MA; cbn [negb andb].
  { intros H. apply stop_with_spec in H. norm. decompose [and] H. repeat split; auto. }
  destruct (budget c) as [b|] eqn:B.
  - destruct (consume b (now s) 1 (bev s)) as [rr bev'] eqn:CO; cbn [fst snd].
    destruct rr.
    + emit_step E HC HS. intros H; inversion H; subst. norm. decompose [and] HC.
      repeat split; try congruence.
      unfold strip in *. destruct legacy; simpl; rewrite HS; reflexivity.
    + destruct (stop_with m c e _ S_BUDGET att k cs) as [[dec1 s1] tr1] eqn:SW.
      intros H; inversion H; subst. apply stop_with_spec in SW. norm. decompose [and] SW.
      repeat split; auto. unfold strip in *. destruct legacy; simpl; rewrite H11; reflexivity.
    + destruct (stop_with m c e _ S_BUDGET att k cs) as [[dec1 s1] tr1] eqn:SW.
      intros H; inversion H; subst. apply stop_with_spec in SW. norm. decompose [and] SW.
      repeat split; auto. unfold strip in *. destruct legacy; simpl; rewrite H11; reflexivity.
    + destruct (stop_with m c e _ S_BUDGET att k cs) as [[dec1 s1] tr1] eqn:SW.
      intros H; inversion H; subst. apply stop_with_spec in SW. norm. decompose [and] SW.
      repeat split; auto. unfold strip in *. destruct legacy; simpl; rewrite H11; reflexivity.
  - emit_step E HC HS. intros H; inversion H; subst. norm. decompose [and] HC.
    repeat split; try congruence.
    unfold strip in *. destruct legacy; simpl; rewrite HS; reflexivity.
Qed.

(** ---------------- backoff: sleep handler, before_sleep, sleeper, _finalize_attempt ---------------- *)
Inductive bverdict := BDefer | BHAbort | BCancel (kk : cancel_kind) | BStop (r : stop) | BContinue.

Definition handler_dec (c : cfg) (e : env) (i : nat) : hdec :=
  match resolve (handler_p c) (handler_c c) with Some _ => handler e i | None => HSleep end.
Definition bs_cancelled (c : cfg) (e : env) (i : nat) : option cancel_kind :=
  match resolve (bs_p c) (bs_c c) with Some _ => bs_cancel e i | None => None end.

Definition backoff_verdict (c : cfg) (e : env) (i : nat) (att d : Z) (s : rst) : bverdict :=
  match handler_dec c e i with
  | HDefer => BDefer
  | HAbort => BHAbort
  | HSleep =>
      match bs_cancelled c e i with
      | Some kk => BCancel kk
      | None =>
          match sleep_cancel e i with
          | Some kk => BCancel kk
          | None =>
              if deadline c <? now s + d + over e i - t0 s then BStop S_DEADLINE
              else if att =? max_attempts c then BStop S_GLOBAL else BContinue
          end
      end
  end.

Definition handler_event (c : cfg) (e : env) (i : nat) (att : Z) (k : klass) (d : Z) : list ev :=
  match resolve (handler_p c) (handler_c c) with
  | Some w => [EHandler w att k d (handler e i)]
  | None => []
  end.
Definition bs_event (c : cfg) (att d : Z) : list ev :=
  match resolve (bs_p c) (bs_c c) with Some w => [EBeforeSleep w att d] | None => [] end.

Definition backoff_events (c : cfg) (e : env) (i : nat) (att : Z) (k : klass) (d : Z) (s : rst) : list ev :=
  handler_event c e i att k d ++
  match handler_dec c e i with
  | HSleep => bs_event c att d ++
              match bs_cancelled c e i with Some _ => [] | None => [ESleep (sleeper_who c) d (now s)] end
  | _ => []
  end.

Lemma emit_aborted_once_spec m c e s att s' tr :
  emit_aborted_once m c e s att = (s', tr) ->
  now s' = now s /\ t0 s' = t0 s /\ npoll s' = npoll s /\ prev s' = prev s /\ unk s' = unk s /\
  cnt s' = cnt s /\ last_fail s' = last_fail s /\ bev s' = bev s /\ last_stop s' = Some S_ABORT /\ strip tr = [].
Proof.
  unfold emit_aborted_once. destruct (last_stop s) as [[]|] eqn:LS;
  try (emit_step E HC HS; intros H; inversion H; subst; norm; decompose [and] HC; repeat split; congruence).
  intros H; inversion H; subst. repeat split; auto.
Qed.

Lemma backoff_spec m c e i att d k cs s ae s' tr :
  backoff m c e i att d k cs s = (ae, s', tr) ->
  t0 s' = t0 s /\ npoll s' = npoll s /\ prev s' = prev s /\ unk s' = unk s /\ cnt s' = cnt s /\
  last_fail s' = last_fail s /\ bev s' = bev s /\
  match backoff_verdict c e i att d s with
  | BDefer => ae = AScheduled d /\ last_stop s' = Some S_SCHED /\ now s' = now s
  | BHAbort => ae = AAborted /\ last_stop s' = Some S_ABORT /\ now s' = now s
  | BCancel kk => ae = ASleepCancel kk /\ last_stop s' = last_stop s /\ now s' = now s
  | BStop r => ae = ARaise r /\ last_stop s' = Some r /\ now s' = now s + d + over e i
  | BContinue => ae = AContinue /\ last_stop s' = last_stop s /\ now s' = now s + d + over e i
  end /\
  strip tr = backoff_events c e i att k d s.
Proof.
  unfold backoff, backoff_verdict, backoff_events, handler_dec, handler_event, bs_cancelled, bs_event, before_sleep_ev, guarded.
  destruct (resolve (handler_p c) (handler_c c)) as [hw|] eqn:HW.
  - destruct (handler e i) eqn:HD.
    + (* SLEEP *)
      destruct (resolve (bs_p c) (bs_c c)) as [bw|] eqn:BW.
      * destruct (bs_cancel e i) as [kk|] eqn:BC.
        -- intros H; inversion H; subst; norm. repeat split; auto.
        -- destruct (bs_raises e (nbs s)); norm;
           (destruct (sleep_cancel e i) as [kk|] eqn:SC;
            [intros H; inversion H; subst; norm; repeat split; auto|]);
           (destruct (deadline c <? now s + d + over e i - t0 s) eqn:DL;
            [emit_step E HC HS; intros H; inversion H; subst; norm; decompose [and] HC;
             repeat split; try congruence; unfold strip in *; simpl; rewrite HS; reflexivity|]);
           (destruct (att =? max_attempts c) eqn:MA;
            [emit_step E HC HS; intros H; inversion H; subst; norm; decompose [and] HC;
             repeat split; try congruence; unfold strip in *; simpl; rewrite HS; reflexivity|]);
           intros H; inversion H; subst; norm; repeat split; auto.
      * norm.
        (destruct (sleep_cancel e i) as [kk|] eqn:SC;
         [intros H; inversion H; subst; norm; repeat split; auto|]);
        (destruct (deadline c <? now s + d + over e i - t0 s) eqn:DL;
         [emit_step E HC HS; intros H; inversion H; subst; norm; decompose [and] HC;
          repeat split; try congruence; unfold strip in *; simpl; rewrite HS; reflexivity|]);
        (destruct (att =? max_attempts c) eqn:MA;
         [emit_step E HC HS; intros H; inversion H; subst; norm; decompose [and] HC;
          repeat split; try congruence; unfold strip in *; simpl; rewrite HS; reflexivity|]);
        intros H; inversion H; subst; norm; repeat split; auto.
    + (* DEFER *)
      emit_step E HC HS. intros H; inversion H; subst; norm. decompose [and] HC.
      repeat split; try congruence. unfold strip in *; simpl; rewrite HS; reflexivity.
    + (* ABORT *)
      destruct (emit_aborted_once m c e s att) as [s1 tr1] eqn:EA. apply emit_aborted_once_spec in EA.
      intros H; inversion H; subst; norm. decompose [and] EA.
      repeat split; try congruence. unfold strip in *; simpl; rewrite H10; reflexivity.
  - (* no handler *)
    destruct (resolve (bs_p c) (bs_c c)) as [bw|] eqn:BW.
    + destruct (bs_cancel e i) as [kk|] eqn:BC.
      * intros H; inversion H; subst; norm. repeat split; auto.
      * destruct (bs_raises e (nbs s)); norm;
        (destruct (sleep_cancel e i) as [kk|] eqn:SC;
         [intros H; inversion H; subst; norm; repeat split; auto|]);
        (destruct (deadline c <? now s + d + over e i - t0 s) eqn:DL;
         [emit_step E HC HS; intros H; inversion H; subst; norm; decompose [and] HC;
          repeat split; try congruence; unfold strip in *; simpl; rewrite HS; reflexivity|]);
        (destruct (att =? max_attempts c) eqn:MA;
         [emit_step E HC HS; intros H; inversion H; subst; norm; decompose [and] HC;
          repeat split; try congruence; unfold strip in *; simpl; rewrite HS; reflexivity|]);
        intros H; inversion H; subst; norm; repeat split; auto.
    + norm.
      (destruct (sleep_cancel e i) as [kk|] eqn:SC;
       [intros H; inversion H; subst; norm; repeat split; auto|]);
      (destruct (deadline c <? now s + d + over e i - t0 s) eqn:DL;
       [emit_step E HC HS; intros H; inversion H; subst; norm; decompose [and] HC;
        repeat split; try congruence; unfold strip in *; simpl; rewrite HS; reflexivity|]);
      (destruct (att =? max_attempts c) eqn:MA;
       [emit_step E HC HS; intros H; inversion H; subst; norm; decompose [and] HC;
        repeat split; try congruence; unfold strip in *; simpl; rewrite HS; reflexivity|]);
      intros H; inversion H; subst; norm; repeat split; auto.
Qed.

(** ---------------- one iteration ---------------- *)
Definition fail_of (c : cfg) (o : outcome) : option (classif * cause) :=
  match o with
  | ORaise cl => Some (cl, CExc)
  | OValue rc => if has_rc c then match rc with Some cl => Some (cl, CRes) | None => None end else None
  | _ => None
  end.

(** answer of the j-th abort poll of this iteration (0 = loop top, 1 = after the failure, 2 = after the grant) *)
Definition pa (c : cfg) (e : env) (s : rst) (j : nat) : bool := has_abort c && abort e (npoll s + j).

Inductive iverdict :=
| IAbortTop
| ICancel (k : cancel_kind) | INested | IAbortOp | ISuccess
| IAbortAfterFail (cl : classif) (cs : cause)
| IStop (cl : classif) (cs : cause) (r : stop)
| IAbortAfterGrant (cl : classif) (cs : cause) (d : Z)
| IBackoff (cl : classif) (cs : cause) (d : Z) (b : bverdict).

(** state in which the failure of this iteration is handled: the clock advanced by the attempt *)
Definition at_fail (e : env) (i : nat) (s : rst) : rst := set_now s (now s + snd (op e i)).

Definition iter_verdict (c : cfg) (e : env) (i : nat) (s : rst) : iverdict :=
  let att := Z.of_nat i + 1 in
  if pa c e s 0 then IAbortTop else
  match fst (op e i) with
  | OCancel k => ICancel k
  | ONested => INested
  | OAbort => IAbortOp
  | o =>
      match fail_of c o with
      | None => ISuccess
      | Some (cl, cs) =>
          if pa c e s 1 then IAbortAfterFail cl cs else
          match hf_verdict c e i att (cl_k cl) (at_fail e i s) with
          | inl r => IStop cl cs r
          | inr d =>
              if pa c e s 2 then IAbortAfterGrant cl cs d
              else IBackoff cl cs d (backoff_verdict c e i att d (at_fail e i s))
          end
      end
  end.

Lemma hf_verdict_ext c e i att k s1 s2 :
  now s1 = now s2 -> t0 s1 = t0 s2 -> cnt s1 = cnt s2 -> unk s1 = unk s2 -> bev s1 = bev s2 ->
  hf_verdict c e i att k s1 = hf_verdict c e i att k s2.
Proof. intros A B C D E. unfold hf_verdict, elapsed. rewrite A, B, C, D, E. reflexivity. Qed.
Lemma hf_consulted_ext c att k s1 s2 :
  now s1 = now s2 -> t0 s1 = t0 s2 -> cnt s1 = cnt s2 -> unk s1 = unk s2 ->
  hf_consulted c att k s1 = hf_consulted c att k s2.
Proof. intros A B C D. unfold hf_consulted, elapsed. rewrite A, B, C, D. reflexivity. Qed.
Lemma backoff_verdict_ext c e i att d s1 s2 :
  now s1 = now s2 -> t0 s1 = t0 s2 -> backoff_verdict c e i att d s1 = backoff_verdict c e i att d s2.
Proof. intros A B. unfold backoff_verdict. rewrite A, B. reflexivity. Qed.

(** trace of the failure path without observability events *)
Definition poll_event (c : cfg) (a : bool) : list ev := if has_abort c then [EPoll a] else [].

Definition fail_events (c : cfg) (e : env) (i : nat) (s : rst) (cl : classif) (cs : cause) : list ev :=
  let att := Z.of_nat i + 1 in
  let sf := at_fail e i s in
  poll_event c (pa c e s 1) ++
  if pa c e s 1 then [] else
  (match cs with CExc => [EClassify att] | CRes => [] end) ++
  (if hf_consulted c att (cl_k cl) sf then strat_event c att cl cs sf ++ budget_event c sf else []) ++
  match hf_verdict c e i att (cl_k cl) sf with
  | inl _ => []
  | inr d =>
      poll_event c (pa c e s 2) ++
      if pa c e s 2 then [] else backoff_events c e i att (cl_k cl) d sf
  end.

Definition iter_events (c : cfg) (e : env) (i : nat) (s : rst) : list ev :=
  let att := Z.of_nat i + 1 in
  poll_event c (pa c e s 0) ++
  if pa c e s 0 then [] else
  [EInvoke att (now s)] ++
  match fst (op e i) with
  | OCancel _ | ONested | OAbort => []
  | ORaise cl => fail_events c e i s cl CExc
  | OValue rc =>
      (if has_rc c then [ERClassify att] else []) ++
      match fail_of c (OValue rc) with Some (cl, cs) => fail_events c e i s cl cs | None => [] end
  end.

(** what the failure path does, in terms of the pure verdicts *)
Lemma failure_path_spec m c e i cl cs s pre res s2 tr :
  let att := Z.of_nat i + 1 in
  failure_path m c e i att cl cs s pre = (res, s2, tr) ->
  forall s0, now s = now s0 + snd (op e i) -> t0 s = t0 s0 -> cnt s = cnt s0 -> unk s = unk s0 ->
             bev s = bev s0 -> prev s = prev s0 -> npoll s = (npoll s0 + poll_n c)%nat ->
  let sf := at_fail e i s0 in
  let p1 := has_abort c && abort e (npoll s) in
  let p2 := has_abort c && abort e (npoll s + poll_n c) in
  t0 s2 = t0 s0 /\
  strip tr = strip pre ++
    (poll_event c p1 ++
     if p1 then [] else
     (match cs with CExc => [EClassify att] | CRes => [] end) ++
     (if hf_consulted c att (cl_k cl) sf then strat_event c att cl cs sf ++ budget_event c sf else []) ++
     match hf_verdict c e i att (cl_k cl) sf with
     | inl _ => []
     | inr d => poll_event c p2 ++ if p2 then [] else backoff_events c e i att (cl_k cl) d sf
     end) /\
  (if p1 then res = inr (FAbort att) /\ last_stop s2 = Some S_ABORT /\ last_fail s2 = last_fail s /\ now s2 = now s
   else
     last_fail s2 = Some (cl, cs, att) /\
     match hf_verdict c e i att (cl_k cl) sf with
     | inl r => res = inr (FStop att cs None) /\ last_stop s2 = Some r /\ now s2 = now s
     | inr d =>
         if p2 then res = inr (FAbort att) /\ last_stop s2 = Some S_ABORT /\ now s2 = now s
         else
           prev s2 = Some d /\ cnt s2 = bump (cnt s0) (cl_k cl) /\ unk s2 = unk_after (cl_k cl) (unk s0) /\
           npoll s2 = (npoll s0 + 3 * poll_n c)%nat /\
           bev s2 = (match budget c with Some b => snd (consume b (now s) 1 (bev s0)) | None => bev s0 end) /\
           match backoff_verdict c e i att d sf with
           | BDefer => res = inr (FStop att cs (Some d)) /\ last_stop s2 = Some S_SCHED /\ now s2 = now s
           | BHAbort => res = inr (FAbort att) /\ last_stop s2 = Some S_ABORT /\ now s2 = now s
           | BCancel kk => res = inr (FCancelSleep kk att) /\ now s2 = now s
           | BStop r => res = inr (FStop att cs None) /\ last_stop s2 = Some r /\ now s2 = now s + d + over e i
           | BContinue => res = inl s2 /\ last_stop s2 = last_stop s /\ now s2 = now s + d + over e i
           end
     end).
Proof.
  intros att H s0 Hnow Ht0 Hcnt Hunk Hbev Hprev Hnp sf p1 p2.
  unfold failure_path in H.
  destruct (check_abort m c e s att) as [[a1 s1] tr1] eqn:CA1.
  apply check_abort_spec in CA1. destruct CA1 as (A1 & N1 & T1 & P1 & U1 & C1 & F1 & B1 & NP1 & L1 & S1).
  unfold poll_ans in A1. fold p1 in A1. subst a1.
  destruct p1 eqn:EP1.
  { inversion H; subst. split; [congruence|]. split.
    - rewrite strip_app, S1. unfold poll_event. destruct (has_abort c); reflexivity.
    - repeat split; congruence. }
  destruct (handle_failure m c e i att cl cs s1) as [[dec s3] tr3] eqn:HF.
  apply handle_failure_spec in HF. cbn zeta in HF.
  destruct HF as (N3 & T3 & NP3 & F3 & V3 & B3 & S3).
  assert (EV: hf_verdict c e i att (cl_k cl) s1 = hf_verdict c e i att (cl_k cl) sf).
  { apply hf_verdict_ext; unfold sf, at_fail; norm; congruence. }
  assert (EC: hf_consulted c att (cl_k cl) s1 = hf_consulted c att (cl_k cl) sf).
  { apply hf_consulted_ext; unfold sf, at_fail; norm; congruence. }
  assert (ESE: strat_event c att cl cs s1 = strat_event c att cl cs sf).
  { unfold strat_event, elapsed, sf, at_fail; norm. rewrite P1, N1, T1, Hprev, Hnow, Ht0. reflexivity. }
  assert (EBE: budget_event c s1 = budget_event c sf).
  { unfold budget_event, sf, at_fail; norm. rewrite N1, B1, Hnow, Hbev. reflexivity. }
  rewrite EV in V3. rewrite EC, ESE, EBE in S3. rewrite EC in B3.
  destruct (hf_verdict c e i att (cl_k cl) sf) as [r|d] eqn:VD.
  { destruct V3 as [-> LS3]. inversion H; subst.
    split; [congruence|]. split.
    - rewrite !strip_app, S1, S3. unfold poll_event.
      destruct cs; destruct (has_abort c); simpl; rewrite ?app_nil_r; reflexivity.
    - repeat split; try congruence. }
  destruct V3 as (-> & LS3 & PR3 & CN3 & UN3).
  destruct (check_abort m c e s3 att) as [[a2 s4] tr4] eqn:CA2.
  apply check_abort_spec in CA2. destruct CA2 as (A2 & N4 & T4 & P4 & U4 & C4 & F4 & B4 & NP4 & L4 & S4).
  unfold poll_ans in A2.
  assert (EP2: a2 = p2). { unfold p2. rewrite A2, NP3, NP1. reflexivity. }
  subst a2. rewrite EP2 in *.
  destruct p2 eqn:EP2'.
  { inversion H; subst. split; [congruence|]. split.
    - rewrite !strip_app, S1, S3, S4. unfold poll_event.
      destruct cs; destruct (has_abort c); simpl; rewrite ?app_nil_r; reflexivity.
    - repeat split; try congruence. }
  destruct (backoff m c e i att d (cl_k cl) cs s4) as [[ae s5] tr5] eqn:BO.
  apply backoff_spec in BO. destruct BO as (T5 & NP5 & P5 & U5 & C5 & F5 & B5 & V5 & S5).
  assert (EBV: backoff_verdict c e i att d s4 = backoff_verdict c e i att d sf).
  { apply backoff_verdict_ext; unfold sf, at_fail; norm; congruence. }
  assert (EBEV: backoff_events c e i att (cl_k cl) d s4 = backoff_events c e i att (cl_k cl) d sf).
  { unfold backoff_events, sf, at_fail; norm. rewrite N4, N3, N1, Hnow. reflexivity. }
  rewrite EBV in V5. rewrite EBEV in S5.
  assert (TR: strip (pre ++ tr1 ++ (match cs with CExc => [EClassify att] | CRes => [] end) ++ tr3 ++ tr4 ++ tr5) =
              strip pre ++ poll_event c false ++
              (match cs with CExc => [EClassify att] | CRes => [] end) ++
              (if hf_consulted c att (cl_k cl) sf then strat_event c att cl cs sf ++ budget_event c sf else []) ++
              poll_event c false ++ backoff_events c e i att (cl_k cl) d sf).
  { rewrite !strip_app, S1, S3, S4, S5. unfold poll_event.
    destruct cs; destruct (has_abort c); simpl; rewrite ?app_nil_r; reflexivity. }
  assert (CORE: prev s5 = Some d /\ cnt s5 = bump (cnt s0) (cl_k cl) /\ unk s5 = unk_after (cl_k cl) (unk s0) /\
                npoll s5 = (npoll s0 + 3 * poll_n c)%nat /\
                bev s5 = (match budget c with Some b => snd (consume b (now s) 1 (bev s0)) | None => bev s0 end)).
  { repeat split; try congruence.
    - rewrite NP5, NP4, NP3, NP1, Hnp. lia.
    - rewrite B5, B4, B3.
      assert (hf_consulted c att (cl_k cl) sf = true) as ->.
      { unfold hf_verdict, hf_consulted in *.
        destruct (over_limit c (cl_k cl) (cnt sf (cl_k cl) + 1)); [discriminate|].
        destruct (nonretryable (cl_k cl)); [discriminate|].
        destruct (klass_eqb (cl_k cl) UNKNOWN && over_unknown c (unk_after (cl_k cl) (unk sf))); [discriminate|].
        destruct (deadline c <? elapsed sf); [discriminate|].
        destruct (select_strategy c (cl_k cl)); [|discriminate].
        destruct (deadline c - elapsed sf <=? 0); [discriminate|].
        destruct (max_attempts c <=? att); [discriminate|]. reflexivity. }
      rewrite N1, B1, Hbev. reflexivity. }
  destruct (backoff_verdict c e i att d sf) eqn:BV.
  - destruct V5 as (-> & LS5 & N5). inversion H; subst. destruct CORE as (K1 & K2 & K3 & K4 & K5).
    split; [congruence|]. split; [exact TR|]. repeat split; try assumption; try congruence.
  - destruct V5 as (-> & LS5 & N5). inversion H; subst. destruct CORE as (K1 & K2 & K3 & K4 & K5).
    split; [congruence|]. split; [exact TR|]. repeat split; try assumption; try congruence.
  - destruct V5 as (-> & LS5 & N5). inversion H; subst. destruct CORE as (K1 & K2 & K3 & K4 & K5).
    split; [congruence|]. split; [exact TR|]. repeat split; try assumption; try congruence.
  - destruct V5 as (-> & LS5 & N5). inversion H; subst. destruct CORE as (K1 & K2 & K3 & K4 & K5).
    split; [congruence|]. split; [exact TR|]. repeat split; try assumption; try congruence.
  - destruct V5 as (-> & LS5 & N5). inversion H; subst. destruct CORE as (K1 & K2 & K3 & K4 & K5).
    split; [congruence|]. split; [exact TR|]. repeat split; try assumption; try congruence.
Qed.

Lemma pa_shift c e s n k : n = (npoll s + k * poll_n c)%nat -> has_abort c && abort e n = pa c e s k.
Proof.
  intros ->. unfold pa, poll_n. destruct (has_abort c); simpl; [|reflexivity].
  f_equal. lia.
Qed.

Lemma iter_spec m c e i s res s2 tr :
  iter m c e i s = (res, s2, tr) ->
  let att := Z.of_nat i + 1 in
  let dur := snd (op e i) in
  t0 s2 = t0 s /\
  strip tr = iter_events c e i s /\
  match iter_verdict c e i s with
  | IAbortTop => res = inr (FAbort (att - 1)) /\ last_stop s2 = Some S_ABORT /\ last_fail s2 = last_fail s /\ now s2 = now s
  | ICancel k => res = inr (FCancel k att) /\ last_fail s2 = last_fail s /\ last_stop s2 = last_stop s /\ now s2 = now s + dur
  | INested => res = inr (FNested att) /\ last_fail s2 = last_fail s /\ last_stop s2 = last_stop s /\ now s2 = now s + dur
  | IAbortOp => res = inr (FAbort att) /\ last_stop s2 = Some S_ABORT /\ last_fail s2 = last_fail s /\ now s2 = now s + dur
  | ISuccess => res = inr (FSuccess att) /\ last_fail s2 = last_fail s /\ last_stop s2 = last_stop s /\ now s2 = now s + dur
  | IAbortAfterFail cl cs =>
      res = inr (FAbort att) /\ last_stop s2 = Some S_ABORT /\ last_fail s2 = last_fail s /\ now s2 = now s + dur
  | IStop cl cs r =>
      res = inr (FStop att cs None) /\ last_stop s2 = Some r /\ last_fail s2 = Some (cl, cs, att) /\ now s2 = now s + dur
  | IAbortAfterGrant cl cs d =>
      res = inr (FAbort att) /\ last_stop s2 = Some S_ABORT /\ last_fail s2 = Some (cl, cs, att) /\ now s2 = now s + dur
  | IBackoff cl cs d b =>
      last_fail s2 = Some (cl, cs, att) /\ prev s2 = Some d /\
      cnt s2 = bump (cnt s) (cl_k cl) /\ unk s2 = unk_after (cl_k cl) (unk s) /\
      npoll s2 = (npoll s + 3 * poll_n c)%nat /\
      bev s2 = (match budget c with Some b => snd (consume b (now s + dur) 1 (bev s)) | None => bev s end) /\
      match b with
      | BDefer => res = inr (FStop att cs (Some d)) /\ last_stop s2 = Some S_SCHED /\ now s2 = now s + dur
      | BHAbort => res = inr (FAbort att) /\ last_stop s2 = Some S_ABORT /\ now s2 = now s + dur
      | BCancel kk => res = inr (FCancelSleep kk att) /\ now s2 = now s + dur
      | BStop r => res = inr (FStop att cs None) /\ last_stop s2 = Some r /\ now s2 = now s + dur + d + over e i
      | BContinue => res = inl s2 /\ last_stop s2 = last_stop s /\ now s2 = now s + dur + d + over e i
      end
  end.
Proof.
  intros H att dur. unfold iter in H. fold att in H.
  destruct (check_abort m c e s (att - 1)) as [[a0 s0] tr0] eqn:CA0.
  apply check_abort_spec in CA0. destruct CA0 as (A0 & N0 & T0 & P0 & U0 & C0 & F0 & B0 & NP0 & L0 & S0).
  unfold poll_ans in A0.
  assert (EA0: a0 = pa c e s 0). { rewrite A0. apply pa_shift. lia. }
  unfold iter_verdict, iter_events. fold att. rewrite <- EA0.
  destruct a0.
  { inversion H; subst. split; [congruence|]. split.
    - rewrite S0. unfold poll_event. destruct (has_abort c); reflexivity.
    - repeat split; congruence. }
  destruct (op e i) as [o du] eqn:OP. cbn [fst snd] in *. subst dur. cbn [snd].
  assert (PRE: strip (tr0 ++ [EInvoke att (now s0)]) = poll_event c false ++ [EInvoke att (now s)]).
  { rewrite strip_app, S0, N0. unfold poll_event. destruct (has_abort c); reflexivity. }
  assert (FP: forall cl cs pre res s2 tr,
             failure_path m c e i att cl cs (set_now s0 (now s0 + du)) pre = (res, s2, tr) ->
             fail_of c o = Some (cl, cs) ->
             t0 s2 = t0 s /\ strip tr = strip pre ++ fail_events c e i s cl cs /\
             match (if pa c e s 1 then IAbortAfterFail cl cs else
                    match hf_verdict c e i att (cl_k cl) (at_fail e i s) with
                    | inl r => IStop cl cs r
                    | inr d => if pa c e s 2 then IAbortAfterGrant cl cs d
                               else IBackoff cl cs d (backoff_verdict c e i att d (at_fail e i s))
                    end) with
             | IAbortAfterFail cl cs =>
                 res = inr (FAbort att) /\ last_stop s2 = Some S_ABORT /\ last_fail s2 = last_fail s /\ now s2 = now s + du
             | IStop cl cs r =>
                 res = inr (FStop att cs None) /\ last_stop s2 = Some r /\ last_fail s2 = Some (cl, cs, att) /\ now s2 = now s + du
             | IAbortAfterGrant cl cs d =>
                 res = inr (FAbort att) /\ last_stop s2 = Some S_ABORT /\ last_fail s2 = Some (cl, cs, att) /\ now s2 = now s + du
             | IBackoff cl cs d b =>
                 last_fail s2 = Some (cl, cs, att) /\ prev s2 = Some d /\
                 cnt s2 = bump (cnt s) (cl_k cl) /\ unk s2 = unk_after (cl_k cl) (unk s) /\
                 npoll s2 = (npoll s + 3 * poll_n c)%nat /\
                 bev s2 = (match budget c with Some b => snd (consume b (now s + du) 1 (bev s)) | None => bev s end) /\
                 match b with
                 | BDefer => res = inr (FStop att cs (Some d)) /\ last_stop s2 = Some S_SCHED /\ now s2 = now s + du
                 | BHAbort => res = inr (FAbort att) /\ last_stop s2 = Some S_ABORT /\ now s2 = now s + du
                 | BCancel kk => res = inr (FCancelSleep kk att) /\ now s2 = now s + du
                 | BStop r => res = inr (FStop att cs None) /\ last_stop s2 = Some r /\ now s2 = now s + du + d + over e i
                 | BContinue => res = inl s2 /\ last_stop s2 = last_stop s /\ now s2 = now s + du + d + over e i
                 end
             | _ => True
             end).
  { intros cl cs pre res' s2' tr' HFP HFO. subst att.
    pose proof (failure_path_spec m c e i cl cs _ pre res' s2' tr' HFP s) as SP.
    cbn zeta in SP. norm. rewrite OP in SP. cbn [snd] in SP.
    specialize (SP ltac:(lia) T0 C0 U0 B0 P0 NP0).
    rewrite (pa_shift c e s (npoll s0) 1) in SP by lia.
    rewrite (pa_shift c e s (npoll s0 + poll_n c) 2) in SP by lia.
    destruct SP as (ST0 & STR & SV).
    split; [exact ST0|]. split.
    - rewrite STR. unfold fail_events. reflexivity.
    - unfold at_fail in *. rewrite OP in *. cbn [snd] in *.
      destruct (pa c e s 1).
      + destruct SV as (? & ? & ? & ?). norm. repeat split; try congruence; try lia.
      + destruct SV as (LF & SV).
        destruct (hf_verdict c e i (Z.of_nat i + 1) (cl_k cl) (set_now s (now s + du))) as [r|d].
        * destruct SV as (? & ? & ?). norm. repeat split; try congruence; try lia.
        * destruct (pa c e s 2).
          -- destruct SV as (? & ? & ?). norm. repeat split; try congruence; try lia.
          -- destruct SV as (K1 & K2 & K3 & K4 & K5 & SV). norm.
             replace (now s0 + du) with (now s + du) in * by lia.
             split; [exact LF|]. split; [exact K1|]. split; [exact K2|]. split; [exact K3|].
             split; [exact K4|]. split; [exact K5|].
             destruct (backoff_verdict c e i (Z.of_nat i + 1) d (set_now s (now s + du))); try exact SV.
             destruct SV as (? & ? & ?). repeat split; congruence. }
  destruct o as [rc|cl| |k|]; cbn [fail_of] in *.
  - (* OValue *)
    destruct (has_rc c) eqn:RC.
    + destruct rc as [cl|].
      * destruct (FP cl CRes _ _ _ _ H eq_refl) as (FT & FS & FV).
        split; [exact FT|]. split.
        -- rewrite FS, strip_app, PRE. simpl. rewrite <- !app_assoc. reflexivity.
        -- destruct (pa c e s 1); [exact FV|].
           destruct (hf_verdict c e i att (cl_k cl) (at_fail e i s)); [exact FV|].
           destruct (pa c e s 2); exact FV.
      * destruct (emit m c e _ N_SUCCESS att 0 None false None None None) as [s3 tr3] eqn:E.
        apply emit_core in E as HC. apply strip_emit in E. unfold core_eq in HC; norm.
        inversion H; subst. decompose [and] HC.
        split; [congruence|]. split.
        -- rewrite strip_app, PRE. change (ERClassify att :: tr3) with ([ERClassify att] ++ tr3).
           rewrite strip_app, E. rewrite <- !app_assoc. reflexivity.
        -- repeat split; try congruence; try lia.
    + destruct (emit m c e _ N_SUCCESS att 0 None false None None None) as [s3 tr3] eqn:E.
      apply emit_core in E as HC. apply strip_emit in E. unfold core_eq in HC; norm.
      inversion H; subst. decompose [and] HC.
      split; [congruence|]. split.
      -- rewrite strip_app, PRE, E. rewrite <- !app_assoc. reflexivity.
      -- repeat split; try congruence; try lia.
  - (* ORaise *)
    destruct (FP cl CExc _ _ _ _ H eq_refl) as (FT & FS & FV).
    split; [exact FT|]. split.
    + rewrite FS, PRE. rewrite <- !app_assoc. reflexivity.
    + destruct (pa c e s 1); [exact FV|].
      destruct (hf_verdict c e i att (cl_k cl) (at_fail e i s)); [exact FV|].
      destruct (pa c e s 2); exact FV.
  - (* OAbort *)
    destruct (emit_aborted_once m c e _ att) as [s3 tr3] eqn:EA. apply emit_aborted_once_spec in EA. norm.
    inversion H; subst. decompose [and] EA.
    split; [congruence|]. split.
    + rewrite strip_app, PRE, H10. rewrite app_nil_r. reflexivity.
    + repeat split; try congruence; try lia.
  - (* OCancel *)
    inversion H; subst; norm. split; [congruence|]. split.
    + rewrite PRE. reflexivity.
    + repeat split; try congruence; try lia.
  - (* ONested *)
    inversion H; subst; norm. split; [congruence|]. split.
    + rewrite PRE. reflexivity.
    + repeat split; try congruence; try lia.
Qed.
