(** RunnerTimeline.v — the captured timeline (execute(capture_timeline=...)) holds exactly the run's
    report sequence (C14): every function that threads the state grows [tl] by the reports it emits. *)
From Redress Require Import Base Window Budget Runner Corr RunnerProofs RunnerSpec RunnerC01 RunnerC03 RunnerFull RunnerLoop
  RunnerVerdict RunnerC02 RunnerC13 RunnerC14.

Definition cap (m : mode) (c : cfg) : bool := match m with MExec => capture_tl c | MCall => false end.
(** a timeline entry without its elapsed_s stamp *)
Definition tlc (x : tlev) := (tl_att x, tl_name x, tl_sleep x, tl_class x, tl_stop x, tl_cause x).
Definition rep_tlc (r : report) := (r_att r, r_name r, r_sleep r, r_class r, r_stop r, r_cause r).

Definition grow (m : mode) (c : cfg) (s s' : rst) (reps : list report) : Prop :=
  map tlc (tl s') = map tlc (tl s) ++ (if cap m c then map rep_tlc reps else []).

Lemma grow_refl m c s : grow m c s s [].
Proof. unfold grow. destruct (cap m c); simpl; rewrite app_nil_r; reflexivity. Qed.
Lemma grow_trans m c s s1 s2 r1 r2 : grow m c s s1 r1 -> grow m c s1 s2 r2 -> grow m c s s2 (r1 ++ r2).
Proof.
  unfold grow. intros A B. rewrite B, A. destruct (cap m c); rewrite <- ?app_assoc, ?map_app; simpl; rewrite ?app_nil_r; reflexivity.
Qed.
Lemma grow_same_tl m c s s' : tl s' = tl s -> grow m c s s' [].
Proof. intros E. unfold grow. rewrite E. destruct (cap m c); simpl; rewrite app_nil_r; reflexivity. Qed.

Definition mk_rep (n : evname) (att sl : Z) (k : option klass) (err : bool) (r : option stop) (cs : option cause) (ra : option hint) : report :=
  {| r_name := n; r_att := att; r_sleep := sl; r_class := k; r_err := err; r_stop := r; r_cause := cs; r_ra := ra |}.

Lemma emit_grow m c e s n att sl k err r cs ra s' tr :
  emit m c e s n att sl k err r cs ra = (s', tr) -> grow m c s s' [mk_rep n att sl k err r cs ra].
Proof.
  intros H. unfold grow. pose proof (emit_tl m c e s n att sl k err r cs ra) as T. rewrite H in T. cbn [fst] in T.
  fold (cap m c) in T. rewrite T. destruct (cap m c); [rewrite map_app; reflexivity|rewrite app_nil_r; reflexivity].
Qed.

Lemma check_abort_grow m c e s att a s' tr :
  check_abort m c e s att = (a, s', tr) -> grow m c s s' (if a then [rep_aborted att] else []).
Proof.
  unfold check_abort. destruct (has_abort c).
  - destruct (abort e (npoll s)).
    + destruct (emit m c e _ N_ABORTED att 0 None false (Some S_ABORT) None None) as [s3 tr3] eqn:E.
      apply emit_grow in E. intros H; inversion H; subst. exact E.
    + intros H; inversion H; subst. apply grow_same_tl. reflexivity.
  - intros H; inversion H; subst. apply grow_refl.
Qed.

Lemma emit_aborted_once_grow m c e s att s' tr :
  emit_aborted_once m c e s att = (s', tr) -> grow m c s s' (aborted_once_reps s att).
Proof.
  unfold emit_aborted_once, aborted_once_reps.
  destruct (last_stop s) as [[]|]; try (intros H; apply emit_grow in H; exact H).
  intros H; inversion H; subst. apply grow_refl.
Qed.

Lemma stop_with_grow m c e s r att k cs dec s' tr :
  stop_with m c e s r att k cs = (dec, s', tr) -> grow m c s s' [rep_stop r att k cs].
Proof.
  unfold stop_with.
  destruct (emit m c e _ (name_of_stop r) att 0 (Some k) (cause_eqb cs CExc) (Some r) (Some cs) None) as [s1 tr1] eqn:E.
  apply emit_grow in E. intros H; inversion H; subst. exact E.
Qed.

Lemma handle_failure_grow m c e i att cl cs s dec s' tr :
  handle_failure m c e i att cl cs s = (dec, s', tr) ->
  grow m c s s' [match hf_verdict c e i att (cl_k cl) s with
                 | inl r => rep_stop r att (cl_k cl) cs
                 | inr d => rep_retry att d cl cs
                 end].
Proof.
  unfold handle_failure, hf_verdict, unk_after. norm.
  set (k := cl_k cl). rewrite bump_same.
  destruct (over_limit c k (cnt s k + 1)) eqn:OL.
  { intros H. apply stop_with_grow in H. exact H. }
  destruct (nonretryable k) eqn:NR.
  { intros H. apply stop_with_grow in H. exact H. }
  destruct (klass_eqb k UNKNOWN && over_unknown c (if klass_eqb k UNKNOWN then unk s + 1 else unk s)) eqn:OU.
  { intros H. apply stop_with_grow in H. exact H. }
  destruct (deadline c <? now s - t0 s) eqn:DL.
  { intros H. apply stop_with_grow in H. exact H. }
  destruct (select_strategy c k) as [[sd legacy]|] eqn:SS.
  2:{ intros H. apply stop_with_grow in H. exact H. }
  destruct (deadline c - (now s - t0 s) <=? 0) eqn:RM.
  { intros H. apply stop_with_grow in H. exact H. }
  destruct (max_attempts c <=? att) eqn:MA.
  { intros H. apply stop_with_grow in H. exact H. }
  destruct (budget c) as [b|] eqn:B.
  - destruct (consume b (now s) 1 (bev s)) as [rr bev'] eqn:CO; cbn [fst snd].
    destruct rr.
    + match goal with |- context [emit ?m ?c ?e ?s0 ?n ?a ?sl ?kk ?er ?r ?cs0 ?ra] =>
        destruct (emit m c e s0 n a sl kk er r cs0 ra) as [s1 tr1] eqn:E end.
      apply emit_grow in E. intros H; inversion H; subst. exact E.
    + destruct (stop_with m c e _ S_BUDGET att k cs) as [[dec1 s1] tr1] eqn:SW.
      apply stop_with_grow in SW. intros H; inversion H; subst. exact SW.
    + destruct (stop_with m c e _ S_BUDGET att k cs) as [[dec1 s1] tr1] eqn:SW.
      apply stop_with_grow in SW. intros H; inversion H; subst. exact SW.
    + destruct (stop_with m c e _ S_BUDGET att k cs) as [[dec1 s1] tr1] eqn:SW.
      apply stop_with_grow in SW. intros H; inversion H; subst. exact SW.
  - match goal with |- context [emit ?m ?c ?e ?s0 ?n ?a ?sl ?kk ?er ?r ?cs0 ?ra] =>
      destruct (emit m c e s0 n a sl kk er r cs0 ra) as [s1 tr1] eqn:E end.
    apply emit_grow in E. intros H; inversion H; subst. exact E.
Qed.

(** the reports of the backoff phase, given its verdict ([s] = state at the start of the backoff) *)
Definition backoff_reps (c : cfg) (att : Z) (cs : cause) (d : Z) (bv : bverdict) (s : rst) : list report :=
  match bv with
  | BDefer => [mk_rep N_SCHEDULED att d (last_class s) (match last_exc s with Some _ => true | None => false end)
                 (Some S_SCHED) (last_cause s) None]
  | BHAbort => aborted_once_reps s att
  | BCancel _ | BContinue => []
  | BStop r => [mk_rep (name_of_stop r) att 0 (last_class s) (cause_eqb cs CExc) (Some r) (Some cs) None]
  end.

Lemma before_sleep_tl c e i s att d : tl (snd (fst (before_sleep_ev c e i s att d))) = tl s.
Proof.
  unfold before_sleep_ev. destruct (resolve (bs_p c) (bs_c c)); [|reflexivity].
  destruct (bs_cancel e i); rewrite ?guarded_id; reflexivity.
Qed.

Lemma backoff_grow m c e i att d k cs s ae s' tr :
  backoff m c e i att d k cs s = (ae, s', tr) ->
  grow m c s s' (backoff_reps c att cs d (backoff_verdict c e i att d s) s).
Proof.
  unfold backoff, backoff_reps, backoff_verdict, handler_dec, bs_cancelled.
  destruct (resolve (handler_p c) (handler_c c)) as [hw|] eqn:HW; [destruct (handler e i) eqn:HD|].
  2:{ match goal with |- context [emit ?m ?c ?e ?s0 ?n ?a ?sl ?kk ?er ?r ?cs0 ?ra] =>
        destruct (emit m c e s0 n a sl kk er r cs0 ra) as [s1 tr1] eqn:E end.
      apply emit_grow in E. intros H; inversion H; subst. exact E. }
  2:{ destruct (emit_aborted_once m c e s att) as [s1 tr1] eqn:EA. apply emit_aborted_once_grow in EA.
      intros H; inversion H; subst. exact EA. }
  all: pose proof (before_sleep_tl c e i s att d) as BT;
       destruct (before_sleep_ev c e i s att d) as [[bc s1] btr] eqn:BS; cbn [fst snd] in BT;
       assert (BCQ: bc = match resolve (bs_p c) (bs_c c) with Some _ => bs_cancel e i | None => None end)
         by (unfold before_sleep_ev in BS; destruct (resolve (bs_p c) (bs_c c));
             [destruct (bs_cancel e i); rewrite ?guarded_id in BS; inversion BS; reflexivity|inversion BS; reflexivity]);
       assert (NW: now s1 = now s /\ t0 s1 = t0 s /\ last_fail s1 = last_fail s)
         by (unfold before_sleep_ev in BS; destruct (resolve (bs_p c) (bs_c c));
             [destruct (bs_cancel e i); rewrite ?guarded_id in BS; inversion BS; subst; repeat split; reflexivity
             |inversion BS; subst; repeat split; reflexivity]);
       destruct NW as (N1 & T1 & F1);
       rewrite <- BCQ;
       (destruct bc as [kk|]; [intros H; inversion H; subst; apply grow_same_tl; exact BT|]);
       (destruct (sleep_cancel e i) as [kk|]; [intros H; inversion H; subst; apply grow_same_tl; exact BT|]);
       norm; rewrite N1, T1;
       (destruct (deadline c <? now s + d + over e i - t0 s) eqn:DL;
        [match goal with |- context [emit ?m ?c ?e ?s0 ?n ?a ?sl ?kk ?er ?r ?cs0 ?ra] =>
           destruct (emit m c e s0 n a sl kk er r cs0 ra) as [s2 tr2] eqn:E end;
         apply emit_grow in E; intros H; inversion H; subst;
         unfold grow in *; cbn [tl set_now set_last_stop] in E; rewrite BT in E;
         unfold last_class in *; cbn [last_fail set_now set_last_stop] in E; rewrite F1 in E; exact E|]);
       (destruct (att =? max_attempts c) eqn:MA;
        [match goal with |- context [emit ?m ?c ?e ?s0 ?n ?a ?sl ?kk ?er ?r ?cs0 ?ra] =>
           destruct (emit m c e s0 n a sl kk er r cs0 ra) as [s2 tr2] eqn:E end;
         apply emit_grow in E; intros H; inversion H; subst;
         unfold grow in *; cbn [tl set_now set_last_stop] in E; rewrite BT in E;
         unfold last_class in *; cbn [last_fail set_now set_last_stop] in E; rewrite F1 in E; exact E|]);
       intros H; inversion H; subst; apply grow_same_tl; exact BT.
Qed.

(** the reports of the failure path, in terms of the loop-top state [s] *)
Definition tail_reps (s : rst) (att : Z) (cl : classif) (cs : cause) (d : Z) (bv : bverdict) : list report :=
  match bv with
  | BDefer => [rep_sched att d (cl_k cl) cs]
  | BHAbort => aborted_once_reps s att
  | BCancel _ | BContinue => []
  | BStop r => [rep_stop r att (cl_k cl) cs]
  end.

Definition fail_reports (c : cfg) (e : env) (i : nat) (s : rst) (cl : classif) (cs : cause) : list report :=
  let att := Z.of_nat i + 1 in
  let sf := at_fail e i s in
  if pa c e s 1 then [rep_aborted att] else
  match hf_verdict c e i att (cl_k cl) sf with
  | inl r => [rep_stop r att (cl_k cl) cs]
  | inr d => rep_retry att d cl cs ::
             (if pa c e s 2 then [rep_aborted att] else tail_reps s att cl cs d (backoff_verdict c e i att d sf))
  end.

Lemma failure_path_grow m c e i cl cs s pre res s2 tr :
  let att := Z.of_nat i + 1 in
  failure_path m c e i att cl cs s pre = (res, s2, tr) ->
  forall s0, now s = now s0 + snd (op e i) -> t0 s = t0 s0 -> cnt s = cnt s0 -> unk s = unk s0 ->
             bev s = bev s0 -> prev s = prev s0 -> npoll s = (npoll s0 + poll_n c)%nat ->
             last_stop s = last_stop s0 ->
  grow m c s s2 (fail_reports c e i s0 cl cs).
Proof.
  intros att H s0 Hnow Ht0 Hcnt Hunk Hbev Hprev Hnp Hls.
  set (sf := at_fail e i s0).
  unfold failure_path in H.
  destruct (check_abort m c e s att) as [[a1 s1] tr1] eqn:CA1.
  pose proof (check_abort_grow _ _ _ _ _ _ _ _ CA1) as G1.
  apply check_abort_spec in CA1. destruct CA1 as (A1 & N1 & T1 & P1 & U1 & C1 & F1 & B1 & NP1 & L1 & S1).
  unfold poll_ans in A1.
  assert (EA1: a1 = pa c e s0 1). { rewrite A1. apply pa_shift. lia. }
  unfold fail_reports. fold att. fold sf. rewrite <- EA1.
  destruct a1.
  { inversion H; subst. exact G1. }
  destruct (handle_failure m c e i att cl cs s1) as [[dec s3] tr3] eqn:HF.
  pose proof (handle_failure_grow _ _ _ _ _ _ _ _ _ _ _ HF) as G3.
  apply handle_failure_spec in HF. cbn zeta in HF.
  destruct HF as (N3 & T3 & NP3 & F3 & V3 & B3 & S3).
  assert (EV: hf_verdict c e i att (cl_k cl) s1 = hf_verdict c e i att (cl_k cl) sf).
  { apply hf_verdict_ext; unfold sf, at_fail; norm; congruence. }
  rewrite EV in V3, G3.
  destruct (hf_verdict c e i att (cl_k cl) sf) as [r|d] eqn:VD.
  { destruct V3 as [-> LS3]. inversion H; subst. apply (grow_trans _ _ _ _ _ [] _ G1 G3). }
  destruct V3 as (-> & LS3 & PR3 & CN3 & UN3).
  destruct (check_abort m c e s3 att) as [[a2 s4] tr4] eqn:CA2.
  pose proof (check_abort_grow _ _ _ _ _ _ _ _ CA2) as G4.
  apply check_abort_spec in CA2. destruct CA2 as (A2 & N4 & T4 & P4 & U4 & C4 & F4 & B4 & NP4 & L4 & S4).
  unfold poll_ans in A2.
  assert (EA2: a2 = pa c e s0 2). { rewrite A2. apply pa_shift. rewrite NP3, NP1, Hnp. lia. }
  rewrite <- EA2.
  destruct a2.
  { inversion H; subst. apply (grow_trans _ _ _ _ _ [] _ G1). apply (grow_trans _ _ _ _ _ [_] _ G3 G4). }
  destruct (backoff m c e i att d (cl_k cl) cs s4) as [[ae s5] tr5] eqn:BO.
  pose proof (backoff_grow _ _ _ _ _ _ _ _ _ _ _ _ BO) as G5.
  assert (EBV: backoff_verdict c e i att d s4 = backoff_verdict c e i att d sf).
  { apply backoff_verdict_ext; unfold sf, at_fail; norm; congruence. }
  assert (ETAIL: backoff_reps c att cs d (backoff_verdict c e i att d s4) s4 =
                 tail_reps s0 att cl cs d (backoff_verdict c e i att d sf)).
  { rewrite EBV. unfold backoff_reps, tail_reps, aborted_once_reps, rep_sched, rep_stop, mk_rep.
    assert (LF: last_fail s4 = Some (cl, cs, att)) by congruence.
    assert (LC: last_class s4 = Some (cl_k cl)) by (unfold last_class; rewrite LF; reflexivity).
    assert (LCS: last_cause s4 = Some cs) by (unfold last_cause; rewrite LF; reflexivity).
    assert (LE: (match last_exc s4 with Some _ => true | None => false end) = cause_eqb cs CExc)
      by (unfold last_exc; rewrite LF; destruct cs; reflexivity).
    assert (LS: last_stop s4 = last_stop s0) by congruence.
    rewrite LC, LCS, LE, LS. destruct (backoff_verdict c e i att d sf); reflexivity. }
  rewrite ETAIL in G5.
  assert (G: grow m c s s5 ([] ++ [rep_retry att d cl cs] ++ [] ++ tail_reps s0 att cl cs d (backoff_verdict c e i att d sf))).
  { apply (grow_trans _ _ _ _ _ _ _ G1). apply (grow_trans _ _ _ _ _ _ _ G3). apply (grow_trans _ _ _ _ _ _ _ G4 G5). }
  simpl in G. destruct ae; inversion H; subst; exact G.
Qed.

Lemma iter_reports_unfold c e i s :
  iter_reports c e i s =
  if pa c e s 0 then [rep_aborted (Z.of_nat i + 1 - 1)] else
  match fst (op e i) with
  | OCancel _ | ONested => []
  | OAbort => aborted_once_reps s (Z.of_nat i + 1)
  | o => match fail_of c o with
         | None => [rep_success (Z.of_nat i + 1)]
         | Some (cl, cs) => fail_reports c e i s cl cs
         end
  end.
Proof.
  unfold iter_reports, iter_verdict, fail_reports. destruct (pa c e s 0); [reflexivity|].
  destruct (fst (op e i)) as [rc|cl| |k|]; try reflexivity.
  - destruct (fail_of c (OValue rc)) as [[cl cs]|]; [|reflexivity].
    destruct (pa c e s 1); [reflexivity|].
    destruct (hf_verdict c e i (Z.of_nat i + 1) (cl_k cl) (at_fail e i s)); [reflexivity|].
    destruct (pa c e s 2); [reflexivity|]. destruct (backoff_verdict _ _ _ _ _ _); reflexivity.
  - cbn [fail_of]. destruct (pa c e s 1); [reflexivity|].
    destruct (hf_verdict c e i (Z.of_nat i + 1) (cl_k cl) (at_fail e i s)); [reflexivity|].
    destruct (pa c e s 2); [reflexivity|]. destruct (backoff_verdict _ _ _ _ _ _); reflexivity.
Qed.

(** one pass of the loop grows the timeline by exactly its reports *)
Lemma iter_grow m c e i s res s2 tr :
  iter m c e i s = (res, s2, tr) -> grow m c s s2 (iter_reports c e i s).
Proof.
  intros H. rewrite iter_reports_unfold. unfold iter in H. set (att := Z.of_nat i + 1) in *.
  destruct (check_abort m c e s (att - 1)) as [[a0 s0] tr0] eqn:CA0.
  pose proof (check_abort_grow _ _ _ _ _ _ _ _ CA0) as G0.
  apply check_abort_spec in CA0. destruct CA0 as (A0 & N0 & T0 & P0 & U0 & C0 & F0 & B0 & NP0 & L0 & S0).
  unfold poll_ans in A0.
  assert (EA0: a0 = pa c e s 0). { rewrite A0. apply pa_shift. lia. }
  rewrite <- EA0.
  destruct a0.
  { inversion H; subst. exact G0. }
  destruct (op e i) as [o du] eqn:OP. cbn [fst snd] in *.
  assert (FP: forall cl cs pre res s2 tr,
             failure_path m c e i att cl cs (set_now s0 (now s0 + du)) pre = (res, s2, tr) ->
             grow m c s s2 (fail_reports c e i s cl cs)).
  { intros cl cs pre res' s2' tr' HFP. subst att.
    pose proof (failure_path_grow m c e i cl cs _ pre res' s2' tr' HFP s) as G. cbn zeta in G. norm. rewrite OP in G. cbn [snd] in G.
    specialize (G ltac:(lia) T0 C0 U0 B0 P0 NP0 L0).
    apply (grow_trans _ _ _ _ _ [] _ G0). unfold grow in *. cbn [tl set_now] in G. exact G. }
  destruct o as [rc|cl| |k|]; cbn [fail_of] in *.
  - destruct (has_rc c) eqn:RC.
    + destruct rc as [cl|].
      * apply FP in H. exact H.
      * destruct (emit m c e _ N_SUCCESS att 0 None false None None None) as [s3 tr3] eqn:E.
        apply emit_grow in E. inversion H; subst. apply (grow_trans _ _ _ _ _ [] _ G0).
        unfold grow in *. cbn [tl set_now] in E. exact E.
    + destruct (emit m c e _ N_SUCCESS att 0 None false None None None) as [s3 tr3] eqn:E.
      apply emit_grow in E. inversion H; subst. apply (grow_trans _ _ _ _ _ [] _ G0).
      unfold grow in *. cbn [tl set_now] in E. exact E.
  - apply FP in H. exact H.
  - destruct (emit_aborted_once m c e _ att) as [s3 tr3] eqn:EA. apply emit_aborted_once_grow in EA.
    inversion H; subst. apply (grow_trans _ _ _ _ _ [] _ G0).
    unfold grow, aborted_once_reps in *. cbn [tl set_now last_stop] in EA. rewrite L0 in EA. exact EA.
  - inversion H; subst. apply (grow_trans _ _ _ _ _ [] [] G0). apply grow_same_tl. reflexivity.
  - inversion H; subst. apply (grow_trans _ _ _ _ _ [] [] G0). apply grow_same_tl. reflexivity.
Qed.

(** the whole loop *)
Lemma loop_grow m c e : forall fuel i s,
  grow m c s (snd (fst (loop m c e fuel i s)))
    (flat_map (fun r => iter_reports c e (ir_i r) (ir_pre r)) (iters m c e fuel i s) ++
     match exhausted m c e fuel i s with Some sf => [fallthrough_rep c sf] | None => [] end).
Proof.
  induction fuel as [|f IH]; intros i s; simpl.
  - unfold fallthrough, fallthrough_rep.
    match goal with |- context [emit ?m ?c ?e ?s0 ?n ?a ?sl ?kk ?er ?r ?cs0 ?ra] =>
      destruct (emit m c e s0 n a sl kk er r cs0 ra) as [s1 tr1] eqn:E end.
    apply emit_grow in E.
    assert (G: grow m c s (set_last_stop s1 (Some S_GLOBAL)) [mk_rep N_MAX_ATTEMPTS_EXCEEDED (max_attempts c) 0 (last_class s)
                 (match last_exc s with Some _ => true | None => false end) (Some S_GLOBAL) (last_cause s) None])
      by (unfold grow in *; cbn [tl set_last_stop]; exact E).
    destruct m; [|exact G]. simpl. destruct (last_fail s1) as [[[cl cs] a]|]; [destruct cs|]; exact G.
  - destruct (iter m c e i s) as [[[s1|fn] s'] tr] eqn:E.
    + pose proof (iter_grow _ _ _ _ _ _ _ _ E) as G1.
      pose proof (continued_verdict _ _ _ _ _ _ _ _ E) as (_ & _ & _ & _ & <-).
      specialize (IH (S i) s1). destruct (loop m c e f (S i) s1) as [[d sf] tr'] eqn:L. cbn [fst snd] in *.
      simpl. rewrite <- app_assoc. apply (grow_trans _ _ _ _ _ _ _ G1 IH).
    + pose proof (iter_grow _ _ _ _ _ _ _ _ E) as G1. simpl. rewrite !app_nil_r. exact G1.
Qed.

(** execute(capture_timeline=...): the captured timeline (without the elapsed_s stamps) is exactly the
    run's report sequence — the one the metric hook and the log hook receive (C14_metric_sink / C14_log_sink) *)
Theorem timeline_is_reports c e start b :
  capture_tl c = true ->
  map tlc (tl (run_final MExec c e start b)) = map rep_tlc (run_reports MExec c e start b).
Proof.
  intros CT. pose proof (loop_grow MExec c e (Z.to_nat (max_attempts c)) 0 (init_rst start b)) as G.
  unfold grow in G. simpl in G. rewrite CT in G. exact G.
Qed.

(** and it is what the outcome carries *)
Lemma outcome_timeline c s fn o :
  deliver MExec c s fn = DOutcome o -> o_tl o = if capture_tl c then Some (tl s) else None.
Proof. destruct fn; simpl; intros H; inversion H; reflexivity. Qed.
