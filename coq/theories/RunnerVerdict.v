(** RunnerVerdict.v — the full event list of an iteration as a flat case analysis of its verdict. *)
From Redress Require Import Base Window Budget Runner RunnerProofs RunnerSpec RunnerC01 RunnerFull RunnerLoop.

Definition rc_event (c : cfg) (e : env) (i : nat) : list ev :=
  match fst (op e i) with
  | OValue _ => if has_rc c then [ERClassify (Z.of_nat i + 1)] else []
  | _ => []
  end.

Definition pre_events (c : cfg) (e : env) (i : nat) (s : rst) : list ev :=
  poll_event c false ++ [EInvoke (Z.of_nat i + 1) (now s)] ++ rc_event c e i.

(** from the failure to the granted retry: abort poll, classification, strategy, budget, `retry` *)
Definition grant_events (c : cfg) (e : env) (i : nat) (s : rst) (cl : classif) (cs : cause) (d : Z) : list ev :=
  poll_event c false ++ cls_event cs (Z.of_nat i + 1) ++
  strat_event c (Z.of_nat i + 1) cl cs (at_fail e i s) ++ budget_event c (at_fail e i s) ++
  retry_evs c (Z.of_nat i + 1) d cl cs.

Definition verdict_events (c : cfg) (e : env) (i : nat) (s : rst) (v : iverdict) : list ev :=
  let att := Z.of_nat i + 1 in
  let sf := at_fail e i s in
  match v with
  | IAbortTop => poll_event c true ++ aborted_evs c (att - 1)
  | ICancel _ | INested => pre_events c e i s
  | IAbortOp => pre_events c e i s ++ aborted_once_evs c s att
  | ISuccess => pre_events c e i s ++ success_evs c att
  | IAbortAfterFail cl cs => pre_events c e i s ++ poll_event c true ++ aborted_evs c att
  | IStop cl cs r =>
      pre_events c e i s ++ poll_event c false ++ cls_event cs att ++
      (if hf_consulted c att (cl_k cl) sf then strat_event c att cl cs sf ++ budget_event c sf else []) ++
      stop_evs c r att (cl_k cl) cs
  | IAbortAfterGrant cl cs d =>
      pre_events c e i s ++ grant_events c e i s cl cs d ++ poll_event c true ++ aborted_evs c att
  | IBackoff cl cs d bv =>
      pre_events c e i s ++ grant_events c e i s cl cs d ++ poll_event c false ++
      backoff_tail c e i att cl cs d bv sf s
  end.

Lemma fail_full_by_verdict c e i s cl cs :
  fail_full c e i s cl cs =
  match (if pa c e s 1 then IAbortAfterFail cl cs else
         match hf_verdict c e i (Z.of_nat i + 1) (cl_k cl) (at_fail e i s) with
         | inl r => IStop cl cs r
         | inr d => if pa c e s 2 then IAbortAfterGrant cl cs d
                    else IBackoff cl cs d (backoff_verdict c e i (Z.of_nat i + 1) d (at_fail e i s))
         end) with
  | IAbortAfterFail _ _ => poll_event c true ++ aborted_evs c (Z.of_nat i + 1)
  | IStop _ _ r =>
      poll_event c false ++ cls_event cs (Z.of_nat i + 1) ++
      (if hf_consulted c (Z.of_nat i + 1) (cl_k cl) (at_fail e i s)
       then strat_event c (Z.of_nat i + 1) cl cs (at_fail e i s) ++ budget_event c (at_fail e i s) else []) ++
      stop_evs c r (Z.of_nat i + 1) (cl_k cl) cs
  | IAbortAfterGrant _ _ d => grant_events c e i s cl cs d ++ poll_event c true ++ aborted_evs c (Z.of_nat i + 1)
  | IBackoff _ _ d bv =>
      grant_events c e i s cl cs d ++ poll_event c false ++
      backoff_tail c e i (Z.of_nat i + 1) cl cs d bv (at_fail e i s) s
  | _ => []
  end.
Proof.
  unfold fail_full, grant_events. destruct (pa c e s 1); [reflexivity|].
  destruct (hf_verdict c e i (Z.of_nat i + 1) (cl_k cl) (at_fail e i s)) as [r|d] eqn:HV; [reflexivity|].
  rewrite (hf_retry_consulted _ _ _ _ _ _ _ HV).
  destruct (pa c e s 2); rewrite <- ?app_assoc; reflexivity.
Qed.

Theorem full_events_by_verdict c e i s :
  full_events c e i s = verdict_events c e i s (iter_verdict c e i s).
Proof.
  unfold full_events, iter_verdict, verdict_events, pre_events, rc_event.
  destruct (pa c e s 0); [reflexivity|].
  destruct (fst (op e i)) as [rc|cl| |k|] eqn:O; cbn [fail_of].
  - destruct (has_rc c); [destruct rc as [cl|]|].
    + rewrite fail_full_by_verdict.
      destruct (pa c e s 1); [rewrite <- ?app_assoc; reflexivity|].
      destruct (hf_verdict c e i (Z.of_nat i + 1) (cl_k cl) (at_fail e i s)); [rewrite <- ?app_assoc; reflexivity|].
      destruct (pa c e s 2); rewrite <- ?app_assoc; reflexivity.
    + rewrite <- ?app_assoc. reflexivity.
    + rewrite <- ?app_assoc. reflexivity.
  - rewrite fail_full_by_verdict.
    destruct (pa c e s 1); [rewrite <- ?app_assoc; reflexivity|].
    destruct (hf_verdict c e i (Z.of_nat i + 1) (cl_k cl) (at_fail e i s)); [rewrite <- ?app_assoc; reflexivity|].
    destruct (pa c e s 2); rewrite <- ?app_assoc; reflexivity.
  - rewrite <- ?app_assoc, ?app_nil_r. reflexivity.
  - rewrite <- ?app_assoc, ?app_nil_r. reflexivity.
  - rewrite <- ?app_assoc, ?app_nil_r. reflexivity.
Qed.

(** the whole iteration in one statement: trace, result and final state facts by verdict *)
Lemma iter_by_verdict m c e i s res s2 tr :
  iter m c e i s = (res, s2, tr) -> tr = verdict_events c e i s (iter_verdict c e i s).
Proof. intros H. rewrite (iter_full _ _ _ _ _ _ _ _ H). apply full_events_by_verdict. Qed.

(** which verdicts end the run and how *)
Definition verdict_fin (i : nat) (v : iverdict) : option fin :=
  let att := Z.of_nat i + 1 in
  match v with
  | IAbortTop => Some (FAbort (att - 1))
  | ICancel k => Some (FCancel k att)
  | INested => Some (FNested att)
  | IAbortOp | IAbortAfterFail _ _ | IAbortAfterGrant _ _ _ => Some (FAbort att)
  | ISuccess => Some (FSuccess att)
  | IStop _ cs _ => Some (FStop att cs None)
  | IBackoff _ cs d BDefer => Some (FStop att cs (Some d))
  | IBackoff _ _ _ BHAbort => Some (FAbort att)
  | IBackoff _ _ _ (BCancel kk) => Some (FCancelSleep kk att)
  | IBackoff _ cs _ (BStop _) => Some (FStop att cs None)
  | IBackoff _ _ _ BContinue => None
  end.

Lemma iter_res_by_verdict m c e i s res s2 tr :
  iter m c e i s = (res, s2, tr) ->
  match verdict_fin i (iter_verdict c e i s) with
  | Some fn => res = inr fn
  | None => res = inl s2
  end.
Proof.
  intros H. pose proof (iter_spec _ _ _ _ _ _ _ _ H) as SP. cbn zeta in SP. destruct SP as (_ & _ & SV).
  destruct (iter_verdict c e i s) as [| | | | | | | |cl cs d bv]; simpl; try (destruct SV as (-> & _); reflexivity).
  destruct SV as (_ & _ & _ & _ & _ & _ & SV). destruct bv; destruct SV as (-> & _); reflexivity.
Qed.

(** the stop reason left in the state by a finished iteration *)
Definition verdict_stop (v : iverdict) : option stop :=
  match v with
  | IAbortTop | IAbortOp | IAbortAfterFail _ _ | IAbortAfterGrant _ _ _ | IBackoff _ _ _ BHAbort => Some S_ABORT
  | IStop _ _ r | IBackoff _ _ _ (BStop r) => Some r
  | IBackoff _ _ _ BDefer => Some S_SCHED
  | _ => None
  end.

Lemma iter_stop_by_verdict m c e i s res s2 tr :
  iter m c e i s = (res, s2, tr) -> last_stop s = None ->
  match iter_verdict c e i s with
  | IBackoff _ _ _ (BCancel _) => True
  | v => last_stop s2 = verdict_stop v
  end.
Proof.
  intros H LS. pose proof (iter_spec _ _ _ _ _ _ _ _ H) as SP. cbn zeta in SP. destruct SP as (_ & _ & SV).
  destruct (iter_verdict c e i s) as [| | | | | | | |cl cs d bv]; simpl;
    try (destruct SV as (_ & L & _); exact L);
    try (destruct SV as (_ & _ & L & _); congruence).
  destruct SV as (_ & _ & _ & _ & _ & _ & SV). destruct bv; try exact I; destruct SV as (_ & L & _); congruence.
Qed.

(** the failure recorded in the state by a finished iteration *)
Lemma iter_last_fail_by_verdict m c e i s res s2 tr :
  iter m c e i s = (res, s2, tr) ->
  last_fail s2 =
  match iter_verdict c e i s with
  | IStop cl cs _ | IAbortAfterGrant cl cs _ | IBackoff cl cs _ _ => Some (cl, cs, Z.of_nat i + 1)
  | _ => last_fail s
  end.
Proof.
  intros H. pose proof (iter_spec _ _ _ _ _ _ _ _ H) as SP. cbn zeta in SP. destruct SP as (_ & _ & SV).
  destruct (iter_verdict c e i s) as [| | | | | | | |cl cs d bv];
    try (destruct SV as (_ & _ & L & _); exact L);
    try (destruct SV as (_ & L & _); exact L).
  destruct SV as (L & _). exact L.
Qed.
