(** Strategies.v — model of the built-in backoff strategies of redress/strategies.py over exact
    rationals.  The random draw is an input: [random.uniform a b = a + (b - a) * r] with r in [0, 1).
    IEEE rounding is not modelled (DESIGN.md §6 C18); the only place where float arithmetic RAISES
    instead of rounding — [g ** attempt] beyond the float range — is modelled explicitly in the
    [_pinned] variants, which describe the code before the fix: commit. *)
From Coq Require Export QArith Qminmax.
From Coq Require Import ZArith List Bool.
Import ListNotations.
Open Scope Q_scope.

Definition uniform (a b r : Q) : Q := a + (b - a) * r.

(** a float product whose exact value is at or above this rounds to +inf (2^1024 - 2^970: halfway between the largest
    float and 2^1024, ties to even) *)
Definition float_top : Q := inject_Z (2 ^ 1024 - 2 ^ 970).

(** decorrelated_jitter: prev_sleep or base_s (None and 0.0 are falsy).  When prev * 3.0 overflows to +inf,
    random.uniform(base_s, inf) is +inf, or NaN for the draw 0.0 (inf * 0.0); min(max_s, x) answers max_s for both
    (min keeps its first argument unless a later one compares smaller). *)
Definition decorrelated (base max : Q) (prev : option Q) (r : Q) : Q :=
  let p := match prev with Some p => if Qeq_bool p 0 then base else p | None => base end in
  if Qle_bool float_top (p * 3) then max else Qmin max (uniform base (p * 3) r).

(** cap = min(max_s, base_s * g ** attempt): the repaired code computes the product without raising
    (exact product, or +inf when it exceeds the float range, which min() then replaces by max_s) *)
Definition cap_of (base max g : Q) (attempt : Z) : Q := Qmin max (base * g ^ attempt).

Definition equal_jitter (base max : Q) (attempt : Z) (r : Q) : Q :=
  let cap := cap_of base max 2 attempt in cap / 2 + uniform 0 (cap / 2) r.

Definition token_backoff (base max : Q) (attempt : Z) (r : Q) : Q :=
  let cap := cap_of base max (3 # 2) attempt in uniform (cap / 2) cap r.

(** the code before the fix: [g ** attempt] raises OverflowError when the power leaves the float range *)
Definition float_limit : Q := 2 ^ 1024.
Definition fpow (g : Q) (n : Z) : option Q := if Qle_bool float_limit (g ^ n) then None else Some (g ^ n).
Definition equal_jitter_pinned (base max : Q) (attempt : Z) (r : Q) : option Q :=
  match fpow 2 attempt with
  | None => None
  | Some p => let cap := Qmin max (base * p) in Some (cap / 2 + uniform 0 (cap / 2) r)
  end.
Definition token_backoff_pinned (base max : Q) (attempt : Z) (r : Q) : option Q :=
  match fpow (3 # 2) attempt with
  | None => None
  | Some p => let cap := Qmin max (base * p) in Some (uniform (cap / 2) cap r)
  end.

(** AdaptiveStrategy._multiplier on the pruned window: [failures] of [total] observations failed *)
Definition multiplier (minm maxm target_success : Q) (failures total : Z) : Q :=
  if (total =? 0)%Z then minm else
  let fr := inject_Z failures / inject_Z total in
  let tf := 1 - target_success in
  if Qle_bool fr tf then minm else
  if Qle_bool 1 tf then maxm else
  let frac := (fr - tf) / (1 - tf) in
  Qmin maxm (Qmax minm (minm + frac * (maxm - minm))).

(** the sliding window of (time, success) observations: _record appends then prunes, _multiplier
    prunes then counts; _prune drops entries with time <= now - window_s from the left *)
Fixpoint aprune (cutoff : Q) (l : list (Q * bool)) : list (Q * bool) :=
  match l with
  | [] => []
  | x :: r => if Qle_bool (fst x) cutoff then aprune cutoff r else l
  end.
Definition arecord (window now : Q) (success : bool) (l : list (Q * bool)) : list (Q * bool) :=
  aprune (now - window) (l ++ [(now, success)]).
Definition count_failures (l : list (Q * bool)) : Z := Z.of_nat (length (filter (fun x => negb (snd x)) l)).
Definition adaptive_call (minm maxm target_success window now : Q) (fallback : Q) (l : list (Q * bool)) : Q :=
  let l' := aprune (now - window) l in
  fallback * multiplier minm maxm target_success (count_failures l') (Z.of_nat (length l')).

(** retry_after_or: a float that may be NaN or infinite *)
Inductive qval := QFin (q : Q) | QNaN | QPInf | QNInf.
Definition finite_or0 (v : qval) : Q := match v with QFin q => q | _ => 0 end.

Definition retry_after_or (ra : option qval) (jitter_s : Q) (fallback : qval) (remaining : option Q) (r : Q) : Q :=
  let j := Qmax 0 jitter_s in
  let s := match ra with
           | Some (QFin q) => QFin (Qmax 0 q + (if Qeq_bool j 0 then 0 else uniform 0 j r))
           | _ => fallback
           end in
  let s := Qmax 0 (finite_or0 s) in
  match remaining with Some m => Qmin s m | None => s end.

(** ---------------- correspondence cases ---------------- *)
Inductive scase :=
| SDecor (base max : Q) (prev : option Q) (r : Q) (obs : Q)
| SEqual (base max : Q) (attempt : Z) (r : Q) (obs : Q)
| SToken (base max : Q) (attempt : Z) (r : Q) (obs : Q)
| SMult (minm maxm ts : Q) (failures total : Z) (obs : Q)
| SAdaptive (minm maxm ts window : Q) (hist : list (Q * bool)) (now fallback : Q) (obs : Q)
| SRetryAfter (ra : option qval) (jitter : Q) (fallback : qval) (remaining : option Q) (r : Q) (obs : Q)
| SBad.                        (* the implementation raised or returned a non-finite value *)

Definition scase_ok (k : scase) : bool :=
  match k with
  | SDecor b m p r o => Qeq_bool (decorrelated b m p r) o
  | SEqual b m a r o => Qeq_bool (equal_jitter b m a r) o
  | SToken b m a r o => Qeq_bool (token_backoff b m a r) o
  | SMult mi ma ts f t o => Qeq_bool (multiplier mi ma ts f t) o
  | SAdaptive mi ma ts w h now fb o =>
      Qeq_bool (adaptive_call mi ma ts w now fb (fold_left (fun l x => arecord w (fst x) (snd x) l) h [])) o
  | SRetryAfter ra j fb rem r o => Qeq_bool (retry_after_or ra j fb rem r) o
  | SBad => false
  end.
