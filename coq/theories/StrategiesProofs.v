(** StrategiesProofs.v — envelopes of the built-in strategies (C18). *)
From Redress Require Import Strategies.
From Coq Require Import Lqa Lia ZArith List Bool Qpower.
Import ListNotations.
Open Scope Q_scope.

Lemma uniform_between a b r : 0 <= r -> r < 1 -> a <= b -> a <= uniform a b r /\ uniform a b r <= b.
Proof. unfold uniform. intros. split; nra. Qed.
Lemma uniform_between_rev a b r : 0 <= r -> r < 1 -> b <= a -> b <= uniform a b r /\ uniform a b r <= a.
Proof. unfold uniform. intros. split; nra. Qed.

Lemma decorrelated_envelope base max prev r :
  0 <= base -> base <= max -> (forall p, prev = Some p -> 0 <= p) -> 0 <= r -> r < 1 ->
  0 <= decorrelated base max prev r /\ decorrelated base max prev r <= max.
Proof.
  intros B M P R0 R1. unfold decorrelated.
  set (p := match prev with Some p => if Qeq_bool p 0 then base else p | None => base end).
  destruct (Qle_bool float_top (p * 3)); [split; lra|].
  split; [|apply Q.le_min_l].
  apply Q.min_glb; [lra|].
  assert (Pp: 0 <= p).
  { unfold p. destruct prev as [q|]; [|exact B]. destruct (Qeq_bool q 0); [exact B|apply P; reflexivity]. }
  destruct (Qlt_le_dec (p * 3) base) as [L|L].
  - destruct (uniform_between_rev base (p * 3) r R0 R1) as [H _]; lra.
  - destruct (uniform_between base (p * 3) r R0 R1 L) as [H _]; lra.
Qed.

Lemma Qpower_nonneg g n : 0 <= g -> 0 <= g ^ n.
Proof.
  intros G. destruct n as [|p|p]; simpl.
  - lra.
  - apply Qpower_pos_positive. exact G.
  - apply Qinv_le_0_compat. apply Qpower_pos_positive. exact G.
Qed.

Lemma cap_nonneg base max g n : 0 <= base -> 0 <= max -> 0 <= g -> 0 <= cap_of base max g n.
Proof.
  intros B M G. unfold cap_of. apply Q.min_glb; [exact M|].
  pose proof (Qpower_nonneg g n G). nra.
Qed.

Lemma equal_jitter_envelope base max attempt r :
  0 <= base -> base <= max -> 0 <= r -> r < 1 ->
  let cap := cap_of base max 2 attempt in
  cap / 2 <= equal_jitter base max attempt r /\ equal_jitter base max attempt r <= cap /\ cap <= max.
Proof.
  intros B M R0 R1 cap. assert (C: 0 <= cap) by (apply cap_nonneg; lra).
  assert (CM: cap <= max) by apply Q.le_min_l.
  unfold equal_jitter. fold cap. unfold uniform. clearbody cap.
  assert (E: cap / 2 == cap * (1#2)) by (unfold Qdiv; reflexivity). rewrite !E.
  split; [|split; [|exact CM]]; nra.
Qed.

Lemma token_backoff_envelope base max attempt r :
  0 <= base -> base <= max -> 0 <= r -> r < 1 ->
  let cap := cap_of base max (3 # 2) attempt in
  cap / 2 <= token_backoff base max attempt r /\ token_backoff base max attempt r <= cap /\ cap <= max.
Proof.
  intros B M R0 R1 cap. assert (C: 0 <= cap) by (apply cap_nonneg; lra).
  assert (CM: cap <= max) by apply Q.le_min_l.
  unfold token_backoff. fold cap. clearbody cap.
  assert (E: cap / 2 == cap * (1#2)) by (unfold Qdiv; reflexivity).
  destruct (uniform_between (cap / 2) cap r R0 R1) as [L U]; [rewrite E; lra|].
  split; [exact L|]. split; [exact U|exact CM].
Qed.

Lemma multiplier_bounds minm maxm ts f t :
  minm <= maxm -> minm <= multiplier minm maxm ts f t /\ multiplier minm maxm ts f t <= maxm.
Proof.
  intros M. unfold multiplier. destruct (t =? 0)%Z; [lra|].
  destruct (Qle_bool _ _); [lra|]. destruct (Qle_bool _ _); [lra|].
  split.
  - apply Q.min_glb; [exact M|apply Q.le_max_l].
  - apply Q.le_min_l.
Qed.

Lemma adaptive_scaled minm maxm ts window now fallback l :
  1 <= minm -> minm <= maxm -> 0 <= fallback ->
  fallback <= adaptive_call minm maxm ts window now fallback l /\
  adaptive_call minm maxm ts window now fallback l <= fallback * maxm.
Proof.
  intros M1 M F. unfold adaptive_call.
  destruct (multiplier_bounds minm maxm ts (count_failures (aprune (now - window) l))
              (Z.of_nat (length (aprune (now - window) l))) M) as [L U].
  split; nra.
Qed.

Lemma retry_after_or_envelope ra jitter fallback remaining r :
  0 <= r -> r < 1 -> (forall m, remaining = Some m -> 0 <= m) ->
  0 <= retry_after_or ra jitter fallback remaining r /\
  (forall m, remaining = Some m -> retry_after_or ra jitter fallback remaining r <= m).
Proof.
  intros R0 R1 RM. unfold retry_after_or.
  set (s := Qmax 0 (finite_or0 _)). assert (S: 0 <= s) by apply Q.le_max_l.
  destruct remaining as [m|].
  - specialize (RM m eq_refl). split.
    + apply Q.min_glb; lra.
    + intros m0 E. inversion E; subst. apply Q.le_min_r.
  - split; [exact S|]. intros m E. discriminate.
Qed.

(** the hint is honoured: with a finite non-negative hint h the result is at least min(h, remaining)
    and at most h + jitter *)
Lemma retry_after_or_honours h jitter fallback remaining r :
  0 <= r -> r < 1 -> 0 <= h -> 0 <= jitter ->
  let d := retry_after_or (Some (QFin h)) jitter fallback remaining r in
  d <= h + jitter /\
  match remaining with Some m => Qmin h m <= d | None => h <= d end.
Proof.
  intros R0 R1 H J d. subst d. unfold retry_after_or. cbn [finite_or0].
  assert (JM: Qmax 0 jitter == jitter) by (apply Q.max_r; exact J).
  set (x := Qmax 0 h + (if Qeq_bool (Qmax 0 jitter) 0 then 0 else uniform 0 (Qmax 0 jitter) r)).
  assert (HM: Qmax 0 h == h) by (apply Q.max_r; exact H).
  assert (X: h <= x /\ x <= h + jitter).
  { unfold x. destruct (Qeq_bool (Qmax 0 jitter) 0).
    - rewrite HM. lra.
    - unfold uniform. rewrite HM, JM. split; nra. }
  destruct X as [XL XU].
  assert (XM: Qmax 0 x == x) by (apply Q.max_r; lra).
  destruct remaining as [m|].
  - split.
    + apply Q.min_case_strong; intros; lra.
    + apply Q.min_glb; [|apply Q.le_min_r]. rewrite XM.
      apply Q.min_case_strong; intros; lra.
  - rewrite XM. split; lra.
Qed.

