(** Window.v — the rolling-window deque shared by Budget, CircuitBreaker and AdaptiveStrategy:
    [prune] pops from the left while [t <= cutoff]; on a sorted deque this is [filter]. *)
From Redress Require Import Base.
From Coq Require Import Sorting.Sorted.

Fixpoint prune (cut : Z) (l : list Z) : list Z :=
  match l with [] => [] | t :: r => if t <=? cut then prune cut r else l end.
Definition live (cut : Z) (l : list Z) : list Z := filter (fun t => cut <? t) l.
Definition sorted (l : list Z) := StronglySorted Z.le l.
Definition zlen {A} (l : list A) : Z := Z.of_nat (length l).

Lemma filter_all_true {A} (f : A -> bool) l : (forall x, In x l -> f x = true) -> filter f l = l.
Proof. induction l as [|a r IH]; simpl; intros H; [reflexivity|]. rewrite (H a) by auto. f_equal. apply IH. auto. Qed.
Lemma filter_all_false {A} (f : A -> bool) l : (forall x, In x l -> f x = false) -> filter f l = [].
Proof. induction l as [|a r IH]; simpl; intros H; [reflexivity|]. rewrite (H a) by auto. apply IH. auto. Qed.

Lemma prune_is_live cut l : sorted l -> prune cut l = live cut l.
Proof.
  induction 1 as [|t r Hs IH Hall]; simpl; [reflexivity|].
  destruct (t <=? cut) eqn:E.
  - replace (cut <? t) with false by lia. exact IH.
  - replace (cut <? t) with true by lia. f_equal. unfold live. symmetry. apply filter_all_true.
    intros x Hx. rewrite Forall_forall in Hall. specialize (Hall x Hx). lia.
Qed.

Lemma live_live c1 c2 l : c1 <= c2 -> live c2 (live c1 l) = live c2 l.
Proof.
  intros H. unfold live. induction l as [|t r IH]; simpl; [reflexivity|].
  destruct (c1 <? t) eqn:E1; simpl; destruct (c2 <? t) eqn:E2; simpl; try rewrite IH; auto. lia.
Qed.

Lemma live_app c a b : live c (a ++ b) = live c a ++ live c b.
Proof. apply filter_app. Qed.

Lemma sorted_live c l : sorted l -> sorted (live c l).
Proof.
  induction 1 as [|t r Hs IH Hall]; simpl; [constructor|].
  destruct (c <? t); [|exact IH]. constructor; [exact IH|].
  rewrite Forall_forall in *. intros x Hx. apply Hall. unfold live in Hx. apply filter_In in Hx. tauto.
Qed.

Lemma sorted_snoc l t : sorted l -> (forall x, In x l -> x <= t) -> sorted (l ++ [t]).
Proof.
  induction 1 as [|a r Hs IH Hall]; simpl; intros H; [repeat constructor|].
  constructor; [apply IH; auto|]. rewrite Forall_forall in *. intros x Hx. apply in_app_or in Hx as [Hx|[<-|[]]]; auto.
Qed.

Lemma In_repeat_eq {A} (t x : A) n : In x (repeat t n) -> x = t.
Proof. induction n as [|k IH]; simpl; [contradiction|]. intros [H|H]; auto. Qed.

Lemma sorted_app_repeat l n t : sorted l -> (forall x, In x l -> x <= t) -> sorted (l ++ repeat t n).
Proof.
  revert l. induction n as [|k IH]; intros l Hs Hle; simpl; [rewrite app_nil_r; exact Hs|].
  replace (l ++ t :: repeat t k) with ((l ++ [t]) ++ repeat t k) by (rewrite <- app_assoc; reflexivity).
  apply IH; [apply sorted_snoc; auto|].
  intros x Hx. apply in_app_or in Hx as [Hx|[<-|[]]]; auto; lia.
Qed.

Lemma filter_length_le {A} (f : A -> bool) l : (length (filter f l) <= length l)%nat.
Proof. induction l as [|a r IH]; simpl; [lia|]. destruct (f a); simpl; lia. Qed.
Lemma live_length_le c l : (length (live c l) <= length l)%nat.
Proof. apply filter_length_le. Qed.

Lemma live_mono_length c1 c2 l : c1 <= c2 -> (length (live c2 l) <= length (live c1 l))%nat.
Proof. intros H. rewrite <- (live_live c1 c2 l H). apply live_length_le. Qed.
