"""
Reproducer for a C01 violation of the UNCHANGED library.

Property text: "... it is never invoked again after a failure classified
PERMANENT, AUTH or PERMISSION. ... This holds for exception- and
result-classified failures alike, on sync and async policies ..."

In execute() (sync and async twin) the whole result path sits inside the
`try:` whose `except Exception` clause is the handler for failures of the
operation.  When a RESULT is classified PERMANENT the state correctly decides
"raise" (permanent_fail event, stop_reason NON_RETRYABLE_CLASS), then the
on_attempt_end hook is called with decision=RAISE.  If that hook raises an
ordinary exception, the exception is caught by the operation's
`except Exception` clause, classified by the exception classifier
(TRANSIENT here) and a retry is granted: the operation is invoked again after
a failure that was classified PERMANENT.  call() does not do this (the hook's
exception propagates).  Same root cause as the known result-path/callback
issue of execute(), but here it shows as a violation of C01.

Exit status 1 when the bug shows, 0 otherwise.
"""

import asyncio
import sys

from redress import AsyncRetry, ErrorClass, Retry


class HookBoom(Exception):
    pass


def classifier(exc: BaseException) -> ErrorClass:
    return ErrorClass.TRANSIENT


def result_classifier(result):
    return ErrorClass.PERMANENT if result == "bad" else None


def strategy(ctx) -> float:
    return 0.0


def make_hook(events):
    def on_attempt_end(ctx) -> None:
        events.append((ctx.attempt, ctx.decision.name if ctx.decision else None))
        if ctx.cause == "result":
            raise HookBoom("attempt_end hook failed")

    return on_attempt_end


problems: list[str] = []


def check(label: str, calls: int, metric_events: list, outcome) -> None:
    names = [e[0] for e in metric_events]
    print(f"{label}: operation invoked {calls} time(s); events={names}; "
          f"outcome.stop_reason={getattr(outcome, 'stop_reason', None)} "
          f"attempts={getattr(outcome, 'attempts', None)}")
    if "permanent_fail" in names and calls > 1:
        problems.append(
            f"{label}: operation invoked {calls} times although attempt 1 was "
            f"classified PERMANENT (permanent_fail emitted at index {names.index('permanent_fail')})"
        )


def run_sync() -> None:
    calls = 0
    metric_events: list = []
    hook_events: list = []

    def op():
        nonlocal calls
        calls += 1
        return "bad"

    policy = Retry(
        classifier=classifier,
        result_classifier=result_classifier,
        strategy=strategy,
        max_attempts=4,
        sleeper=lambda s: None,
    )
    outcome = None
    try:
        outcome = policy.execute(
            op,
            on_metric=lambda ev, att, sl, tags: metric_events.append((ev, att, dict(tags))),
            on_attempt_end=make_hook(hook_events),
        )
    except HookBoom:
        pass
    check("sync execute", calls, metric_events, outcome)


def run_async() -> None:
    calls = 0
    metric_events: list = []
    hook_events: list = []

    async def op():
        nonlocal calls
        calls += 1
        return "bad"

    async def sleeper(s: float) -> None:
        return None

    policy = AsyncRetry(
        classifier=classifier,
        result_classifier=result_classifier,
        strategy=strategy,
        max_attempts=4,
        sleeper=sleeper,
    )

    async def main():
        try:
            return await policy.execute(
                op,
                on_metric=lambda ev, att, sl, tags: metric_events.append((ev, att, dict(tags))),
                on_attempt_end=make_hook(hook_events),
            )
        except HookBoom:
            return None

    outcome = asyncio.run(main())
    check("async execute", calls, metric_events, outcome)


run_sync()
run_async()

if problems:
    print("BUG (unchanged library): operation re-invoked after a PERMANENT result failure")
    for p in problems:
        print("  -", p)
    sys.exit(1)
print("ok: no re-invocation after PERMANENT")
sys.exit(0)
