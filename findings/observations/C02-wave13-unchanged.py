"""
Unchanged-library finding for C02 (deadline envelope).

_BaseRetryPolicy stores the deadline as datetime.timedelta(seconds=deadline_s), and
_RetryState.elapsed() is a timedelta too.  timedelta rounds (half-even) to whole
microseconds, so a deadline_s that is not a multiple of 1 us is rounded -- possibly UP.
The library then enforces the rounded value, not deadline_s:

 (1) the backoff sleep is clamped to (rounded deadline - elapsed), which can be longer than
     the time really remaining, and the total requested sleep can exceed deadline_s;
 (2) an attempt is started although strictly more than deadline_s has elapsed
     (elapsed in (deadline_s, rounded deadline]).

Run: PYTHONPATH=<tree>/src python unchanged_bug.py   (exit 1 when the bug shows)
"""

import sys
import time

NOW = [1000.0]
time.monotonic = lambda: NOW[0]  # fake monotonic clock, installed before redress is used

from redress import Retry  # noqa: E402
from redress.errors import ErrorClass  # noqa: E402

problems: list[str] = []

# ---- (1) requested sleep exceeds the time remaining and deadline_s -------------------------
DEADLINE_S = 1.5e-6  # timedelta(seconds=1.5e-6) == 2 us  (rounded up by 0.5 us)
NOW[0] = 1000.0
start = NOW[0]
sleeps: list[tuple[float, float]] = []  # (elapsed at request, requested)


def sleeper(s: float) -> None:
    sleeps.append((NOW[0] - start, s))
    NOW[0] += s


def op() -> None:
    raise RuntimeError("boom")  # instantaneous attempt


retry = Retry(
    classifier=lambda exc: ErrorClass.TRANSIENT,
    strategy=lambda ctx: 10.0,
    deadline_s=DEADLINE_S,
    max_attempts=3,
    sleeper=sleeper,
)
try:
    retry.call(op)
except RuntimeError:
    pass

total = sum(s for _, s in sleeps)
for at, s in sleeps:
    if s > DEADLINE_S - at:
        problems.append(
            f"(1) at elapsed={at!r} the library requested a sleep of {s!r}s but only "
            f"{DEADLINE_S - at!r}s remained of deadline_s={DEADLINE_S!r}"
        )
if total > DEADLINE_S:
    problems.append(f"(1) total requested sleep {total!r}s exceeds deadline_s={DEADLINE_S!r}")

# ---- (2) an attempt starts after more than deadline_s has elapsed --------------------------
DEADLINE2_S = 1.0000006  # stored as 1.000001 s
NOW[0] = 2000.0
start2 = NOW[0]
attempt_starts: list[float] = []


def op2() -> None:
    attempt_starts.append(NOW[0] - start2)
    raise RuntimeError("boom")


def sleeper2(s: float) -> None:
    # the sleeper overshoots a little: wakes up 0.8 us after the 1 s mark
    NOW[0] = start2 + 1.0000008


retry2 = Retry(
    classifier=lambda exc: ErrorClass.TRANSIENT,
    strategy=lambda ctx: 0.5,
    deadline_s=DEADLINE2_S,
    max_attempts=2,
    sleeper=sleeper2,
)
try:
    retry2.call(op2)
except RuntimeError:
    pass

for t in attempt_starts[1:]:
    if t > DEADLINE2_S:
        problems.append(
            f"(2) an attempt started at elapsed={t!r}s, which is more than deadline_s={DEADLINE2_S!r}"
        )

# ---- (3) same with a "round" deadline: elapsed() itself is rounded down ----------------------
DEADLINE3_S = 1.0
NOW[0] = 3000.0
start3 = NOW[0]
attempt_starts3: list[float] = []


def op3() -> None:
    attempt_starts3.append(NOW[0] - start3)
    raise RuntimeError("boom")


def sleeper3(s: float) -> None:
    NOW[0] = start3 + 1.0000004  # wakes up 0.4 us past the deadline


retry3 = Retry(
    classifier=lambda exc: ErrorClass.TRANSIENT,
    strategy=lambda ctx: 5.0,
    deadline_s=DEADLINE3_S,
    max_attempts=2,
    sleeper=sleeper3,
)
try:
    retry3.call(op3)
except RuntimeError:
    pass

for t in attempt_starts3[1:]:
    if t > DEADLINE3_S:
        problems.append(
            f"(3) an attempt started at elapsed={t!r}s, which is more than deadline_s={DEADLINE3_S!r} "
            "(elapsed() rounds to whole microseconds before the post-sleep comparison)"
        )

if problems:
    print("C02 violated by the UNCHANGED library (timedelta microsecond rounding of deadline_s):")
    for p in problems:
        print("  -", p)
    sys.exit(1)
print("ok: no violation observed")
sys.exit(0)
