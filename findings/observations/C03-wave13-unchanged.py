"""
Behaviour of the UNCHANGED library that contradicts the text of property C03
("... the library never sleeps, spends a budget token or reports a `retry` after
the last permitted attempt ...").  Exit status 1 when any of it shows.

Run:  PYTHONPATH=<tree>/src /venv/bin/python unchanged_bug.py
No real sleeping; time.monotonic is replaced by a fake clock.
"""

import sys
import time

from redress import Budget, ErrorClass, Retry, SleepDecision


class Clock:
    def __init__(self) -> None:
        self.t = 1000.0

    def __call__(self) -> float:
        return self.t


clock = Clock()
time.monotonic = clock  # Budget, _RetryState and the timeline all read time.monotonic

findings: list[str] = []


def transient(_exc: BaseException) -> ErrorClass:
    return ErrorClass.TRANSIENT


# --------------------------------------------------------------------------
# 1. A backoff that is trimmed to the time left before the deadline is always
#    wasted.  _handle_failure caps sleep_s to remaining_s and grants the retry
#    (token, `retry` event); after the sleep _finalize_attempt finds
#    elapsed > deadline and stops with DEADLINE_EXCEEDED.  A real sleep never
#    returns early, so whenever strategy(ctx) >= remaining the library sleeps
#    out the whole rest of the deadline for an attempt it will never make.
#    (Only a clock that lands EXACTLY on the deadline lets the attempt happen.)
# --------------------------------------------------------------------------
events: list = []
sleeps: list = []
budget = Budget(max_retries=5, window_s=3600.0)
attempts = {"n": 0}


def op1() -> None:
    attempts["n"] += 1
    clock.t += 4.0            # the attempt takes 4 s
    raise ConnectionError("boom")


def sleeper1(s: float) -> None:
    sleeps.append(s)
    clock.t += s + 1e-6       # like time.sleep: never early, overshoots by 1 microsecond


out = Retry(
    classifier=transient, strategy=lambda ctx: 30.0, budget=budget, deadline_s=10.0, max_attempts=5
).execute(
    op1,
    sleeper=sleeper1,
    on_metric=lambda ev, a, s, tags: events.append((ev, a, s, tags.get("stop_reason"))),
)
print("1.", "stop_reason:", out.stop_reason, "attempts:", out.attempts, "sleeps:", sleeps,
      "tokens spent:", 5 - budget.remaining(), "events:", [(e[0], e[2]) for e in events])
if out.attempts == 1 and sleeps:
    findings.append(
        f"1: after the only (and last) attempt the library reported `retry`, spent "
        f"{5 - budget.remaining()} budget token and slept {sleeps[0]} s (the whole rest of the "
        f"deadline), then gave up with {out.stop_reason.value} without another attempt"
    )

# --------------------------------------------------------------------------
# 2. The sleep handler is consulted only AFTER the budget token has been taken
#    and `retry` has been reported; when it aborts (or defers) no further
#    attempt is made, but the token is gone and a `retry` was reported.
# --------------------------------------------------------------------------
for answer in (SleepDecision.ABORT, SleepDecision.DEFER):
    events = []
    budget = Budget(max_retries=5, window_s=3600.0)
    attempts = {"n": 0}

    def op2() -> None:
        attempts["n"] += 1
        raise ConnectionError("boom")

    out = Retry(
        classifier=transient, strategy=lambda ctx: 1.0, budget=budget, deadline_s=100.0, max_attempts=5
    ).execute(
        op2,
        sleep=lambda ctx, s, answer=answer: answer,
        sleeper=lambda s: None,
        on_metric=lambda ev, a, s, tags: events.append(ev),
    )
    print("2.", answer, "stop_reason:", out.stop_reason, "attempts:", out.attempts,
          "tokens spent:", 5 - budget.remaining(), "events:", events)
    if attempts["n"] == 1 and ("retry" in events or budget.remaining() != 5):
        findings.append(
            f"2 ({answer.value}): the sleep handler answered {answer.value} after attempt 1, so no "
            f"further attempt was permitted or made, yet events={events} and "
            f"{5 - budget.remaining()} budget token was spent"
        )

# --------------------------------------------------------------------------
# 3. execute() only (call() lets the error propagate): on the RESULT path the
#    backoff runs inside the attempt's try-block, so an exception raised by the
#    sleeper is taken for a failure of the operation and handled a second time:
#    two `retry` reports and two budget tokens for ONE following attempt.
# --------------------------------------------------------------------------
events = []
budget = Budget(max_retries=5, window_s=3600.0)
state = {"sleeps": 0, "attempts": 0}


def sleeper3(s: float) -> None:
    state["sleeps"] += 1
    if state["sleeps"] == 1:
        raise RuntimeError("sleeper broke")


def op3() -> str:
    state["attempts"] += 1
    return "bad" if state["attempts"] == 1 else "good"


out = Retry(
    classifier=transient,
    result_classifier=lambda v: ErrorClass.TRANSIENT if v == "bad" else None,
    strategy=lambda ctx: 1.0,
    budget=budget,
    deadline_s=100.0,
    max_attempts=4,
).execute(op3, sleeper=sleeper3, on_metric=lambda ev, a, s, tags: events.append((ev, a, tags.get("cause"))))
print("3.", "ok:", out.ok, "attempts:", out.attempts, "tokens spent:", 5 - budget.remaining(), "events:", events)
retries_for_attempt_1 = [e for e in events if e[0] == "retry" and e[1] == 1]
if len(retries_for_attempt_1) > 1 or (5 - budget.remaining()) > out.attempts - 1:
    findings.append(
        f"3: one failed attempt produced {len(retries_for_attempt_1)} `retry` reports "
        f"{retries_for_attempt_1} and {5 - budget.remaining()} spent budget tokens for "
        f"{out.attempts - 1} actual retry (the sleeper's exception was handled as an attempt failure)"
    )

if findings:
    print("\nUNCHANGED LIBRARY vs. C03 text:")
    for f in findings:
        print("  -", f)
    sys.exit(1)
print("\nnothing to report")
