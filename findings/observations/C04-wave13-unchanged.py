"""
Bug of the UNCHANGED library against C04 (not planted).

Retry(attempt_timeout_s=...) only rejects values <= 0, so float("inf") ("no per-attempt limit")
and very large finite values (> threading.TIMEOUT_MAX, about 9.2e9 s) are accepted.  The SYNC
runner passes the value to concurrent.futures.Future.result(timeout=...), and the stdlib raises
OverflowError("timestamp out of range for platform time_t" / "timeout value is too large") from
the wait itself whenever the attempt is still running at that moment.  The runner takes that
OverflowError for the attempt's own exception: it classifies it, retries, and finally raises it
from call() - although every attempt's function returned a perfectly good value.

C04: "call() returns the very object returned by the first attempt that is classified as success
... raises that last attempt's own exception object ..., never ... a substitute."
Here no attempt ever raised; call() raises a substitute produced by the library's plumbing.
The async twin (asyncio.wait_for) accepts the same configuration and returns the value.

Run:  PYTHONPATH=<tree>/src /venv/bin/python unchanged_bug.py     (exit 1 when the bug shows)
"""

import asyncio
import contextlib
import sys
import threading

from redress import AsyncRetry, ErrorClass, Retry, RetryExhaustedError, StopReason

shown = False


def sync_case(timeout_s: float) -> None:
    global shown
    gates: list[threading.Event] = []
    returned: list[object] = []
    seen_by_classifier: list[BaseException] = []

    def classify(exc: BaseException) -> ErrorClass:
        seen_by_classifier.append(exc)
        for gate in gates:
            gate.set()  # let the still-running attempt finish; keeps this reproducer instant
        return ErrorClass.TRANSIENT

    def operation():
        # Still running when the runner starts waiting for it (bounded, so a fixed library
        # costs at most 0.2 s per attempt here).  The operation never raises.
        gate = threading.Event()
        gates.append(gate)
        gate.wait(0.2)
        value = object()
        returned.append(value)
        return value

    policy = Retry(
        classifier=classify,
        strategy=lambda ctx: 0.0,
        max_attempts=3,
        attempt_timeout_s=timeout_s,
    )
    slept: list[float] = []
    label = f"[sync, attempt_timeout_s={timeout_s!r}]"
    try:
        got = policy.call(operation, sleeper=slept.append)
    except BaseException as exc:  # noqa: BLE001
        shown = True
        print(f"{label} call() raised {type(exc).__name__}: {exc}")
        print(f"    attempts started: {len(gates)}; the operation itself never raises")
        print(f"    handed to the classifier: {[type(e).__name__ for e in seen_by_classifier]}")
        print(f"    retries slept: {slept}")
    else:
        ok = len(gates) == 1 and bool(returned) and got is returned[0]
        print(f"{label} returned the first attempt's object after one attempt: {ok}")
        if not ok:
            shown = True
            print(f"    attempts started: {len(gates)}")
    for gate in gates:
        gate.set()


def async_case(timeout_s: float) -> None:
    async def operation():
        await asyncio.sleep(0)
        return "value"

    policy = AsyncRetry(
        classifier=lambda exc: ErrorClass.TRANSIENT,
        strategy=lambda ctx: 0.0,
        max_attempts=3,
        attempt_timeout_s=timeout_s,
    )

    async def sleeper(s: float) -> None:
        pass

    try:
        got = asyncio.run(policy.call(operation, sleeper=sleeper))
        print(f"[async, attempt_timeout_s={timeout_s!r}] returned {got!r} (the twin is fine)")
    except BaseException as exc:  # noqa: BLE001
        print(f"[async, attempt_timeout_s={timeout_s!r}] raised {type(exc).__name__}: {exc}")


for t in (float("inf"), 1e10):
    sync_case(t)
    async_case(t)

# Related observation (not counted in the exit status): RetryExhaustedError is a frozen
# dataclass, so any code that assigns to the exception - contextlib's generator context
# managers do `exc.__traceback__ = tb` on the way out - replaces it by FrozenInstanceError.
@contextlib.contextmanager
def scope():
    yield


try:
    with scope():
        Retry(
            classifier=lambda exc: ErrorClass.TRANSIENT,
            result_classifier=lambda r: ErrorClass.SERVER_ERROR,
            strategy=lambda ctx: 0.0,
            max_attempts=1,
        ).call(lambda: "bad")
except RetryExhaustedError as err:
    print(f"[note] RetryExhaustedError crossed a @contextmanager block intact: {err.stop_reason}")
    assert err.stop_reason is StopReason.MAX_ATTEMPTS_GLOBAL
except BaseException as exc:  # noqa: BLE001
    print(
        "[note] a RetryExhaustedError raised by call() inside a @contextmanager with-block "
        f"reaches the caller as {type(exc).__name__}: {exc}"
    )

if shown:
    print("BUG: sync call() surfaced a stdlib OverflowError instead of the attempt's return value")
    sys.exit(1)
print("no bug shown")
sys.exit(0)
