"""
Reproducers for C05 violations of the UNCHANGED library (nothing planted).

C05: the delay is the strategy's value with non-finite/negative values replaced
by 0 and the result capped at the remaining time, for ALL strategy return values
including values beyond the remaining time; that same delay is what the sleeper
receives.

Bug A - a strategy that returns a (finite) int beyond the float range, e.g. the
        natural integer backoff `2 ** attempt` on a long run, or 10**400:
        state.py sanitises with math.isfinite(sleep_s), which converts to float
        first and raises OverflowError('int too large to convert to float').
        The OverflowError escapes from call()/execute() (replacing the user's
        exception) instead of the delay being capped at the remaining time.
        Same root cause, milder: a finite Decimal('1e400') is turned into +inf by
        that conversion and therefore replaced by 0 instead of being capped.
        (The built-in strategies were already hardened against exactly this for
        large attempt numbers - strategies._scaled - but the engine was not.)

Bug B - retry_helpers does `sleep_impl = sleeper or time.sleep` (and
        `sleeper or asyncio.sleep`): a sleeper object that is FALSY - e.g. a
        recording sleeper written as a list subclass, empty until it records -
        is discarded; the delay goes to the real time.sleep and the configured
        sleeper never receives it.

Exit status 1 when a bug shows, 0 otherwise.  Nothing really sleeps.
"""

import sys
import time
from decimal import Decimal

real_sleeps: list[float] = []
time.sleep = lambda s: real_sleeps.append(s)  # safety net: never a real sleep

from redress import Retry  # noqa: E402
from redress.errors import ErrorClass  # noqa: E402

bugs: list[str] = []


def run(strategy, *, max_attempts=4, fail_times=2, deadline_s=10.0, sleeper=None):
    slept: list[float] = []
    events: list[tuple[str, int, float]] = []
    n = {"i": 0}

    def op():
        n["i"] += 1
        if n["i"] <= fail_times:
            raise ConnectionError("boom")
        return "ok"

    policy = Retry(
        classifier=lambda exc: ErrorClass.TRANSIENT,
        strategy=strategy,
        deadline_s=deadline_s,
        max_attempts=max_attempts,
    )
    try:
        result = policy.call(
            op,
            sleeper=sleeper if sleeper is not None else slept.append,
            on_metric=lambda ev, a, s, t: events.append((ev, a, s)),
        )
    except BaseException as exc:  # noqa: BLE001
        result = exc
    return result, slept, [s for ev, _, s in events if ev == "retry"]


# --- Bug A1: huge int ---------------------------------------------------------
result, slept, retries = run(lambda ctx: 10**400)
if isinstance(result, BaseException) or len(slept) != 2 or not all(0 < s <= 10.0 for s in slept):
    bugs.append(
        "A1: strategy returned the int 10**400 (a value beyond the remaining time); expected two "
        f"retries with the delay capped at the remaining ~10 s, got result={result!r}, "
        f"sleeper calls={slept!r}"
    )

# --- Bug A2: the ordinary integer backoff 2**attempt on a long run --------------
result, slept, retries = run(
    lambda attempt, klass, prev: 2**attempt if attempt >= 1024 else 0,
    max_attempts=1100,
    fail_times=1030,
    deadline_s=3600.0,
)
if isinstance(result, BaseException):
    bugs.append(
        "A2: legacy strategy `2 ** attempt` on a run of >1024 attempts: expected the delay to be "
        f"capped at the remaining time, got {result!r} after {len(slept)} retries"
    )

# --- Bug A3: finite Decimal beyond the float range -----------------------------
result, slept, retries = run(lambda ctx: Decimal("1e400"))
if isinstance(result, BaseException) or slept != retries or any(s == 0 for s in slept):
    bugs.append(
        "A3: strategy returned the finite Decimal('1e400'); expected the delay capped at the "
        f"remaining ~10 s, got result={result!r}, sleeper calls={slept!r} (treated as non-finite)"
    )


# --- Bug B: falsy sleeper ------------------------------------------------------
class RecordingSleeper(list):
    """A sleeper that records the delays it is asked to sleep (empty => falsy)."""

    def __call__(self, seconds: float) -> None:
        self.append(seconds)


rec = RecordingSleeper()
before = len(real_sleeps)
result, _, retries = run(lambda ctx: 0.5, sleeper=rec)
leaked = real_sleeps[before:]
if list(rec) != retries or leaked:
    bugs.append(
        f"B: retry events reported delays {retries!r} but the configured (falsy, empty-list) "
        f"sleeper received {list(rec)!r}; the real time.sleep was called with {leaked!r}"
    )

if bugs:
    print("Unchanged library violates C05:")
    for b in bugs:
        print("  -", b)
    sys.exit(1)
print("no bug shown")
sys.exit(0)
