"""Behaviour of the UNCHANGED redress.circuit.CircuitBreaker that contradicts C06.

Case 1 (race, deterministic here): record_failure() reads the clock BEFORE it
takes the lock (`now = self._clock()` then `with self._lock:`).  Two threads can
therefore append their timestamps out of order (6.0 before 5.0).  _prune() stops
at the first in-window entry from the left, so the older timestamp hidden behind
a newer one is never dropped: a failure older than window_s keeps counting and
the breaker opens although only two failures lie within the window.

Case 2 (float absorption): _prune() computes `cutoff = now - window_s` and drops
`bucket[0] <= cutoff`.  When window_s is smaller than half an ulp of the clock
value (e.g. clock=time.time-like 1.7e9 and window_s=1e-7) the cutoff rounds to
`now` itself, so a failure recorded at the very same clock reading (age 0, which
is inside any window) is dropped and a threshold of 2 can never be reached.

Exit status 1 when either shows.
"""

import sys
import threading

from redress.circuit import CircuitBreaker, CircuitState
from redress.errors import ErrorClass


def case_out_of_order() -> str | None:
    a_read = threading.Event()
    b_done = threading.Event()
    state = {"now": 5.0}

    def clock() -> float:
        if threading.current_thread().name == "A":
            value = state["now"]  # A reads the clock at t=5 ...
            a_read.set()
            b_done.wait(5.0)  # ... and is preempted before it gets the lock
            return value
        return state["now"]

    b = CircuitBreaker(
        failure_threshold=3,
        window_s=10.0,
        recovery_timeout_s=5.0,
        trip_on={ErrorClass.TRANSIENT},
        clock=clock,
    )
    results: list[object] = []
    ta = threading.Thread(
        target=lambda: results.append(b.record_failure(ErrorClass.TRANSIENT)), name="A"
    )
    ta.start()
    assert a_read.wait(5.0)
    state["now"] = 6.0
    assert b.record_failure(ErrorClass.TRANSIENT) is None  # failure stamped 6.0, recorded first
    b_done.set()
    ta.join(5.0)
    assert results == [None]  # failure stamped 5.0, recorded second

    state["now"] = 15.5  # the failure stamped 5.0 is now 10.5s old (> window_s=10)
    event = b.record_failure(ErrorClass.TRANSIENT)
    if event is not None or b.state is not CircuitState.CLOSED:
        return (
            "failures stamped 5.0, 6.0 and 15.5 with window_s=10, failure_threshold=3: "
            "only two are within the last 10s at t=15.5, yet record_failure returned "
            f"{event!r} and state is {b.state} (timestamps were appended out of order "
            "because the clock is read outside the lock, and _prune stops at the first "
            "in-window entry)"
        )
    return None


def case_absorbed_window() -> str | None:
    now = 1.7e9  # e.g. clock=time.time
    b = CircuitBreaker(
        failure_threshold=2,
        window_s=1e-7,
        recovery_timeout_s=5.0,
        trip_on={ErrorClass.TRANSIENT},
        clock=lambda: now,
    )
    events = [b.record_failure(ErrorClass.TRANSIENT) for _ in range(5)]
    if b.state is not CircuitState.OPEN:
        return (
            "five TRANSIENT failures at the SAME clock reading 1.7e9 (age 0 < window_s=1e-7), "
            f"failure_threshold=2: events={events!r}, state={b.state}; now - window_s rounds "
            "to now, so every previous failure is pruned as 'older than the window'"
        )
    return None


def main() -> int:
    found = False
    for name, fn in (("out-of-order timestamps", case_out_of_order),
                     ("window absorbed by float rounding", case_absorbed_window)):
        msg = fn()
        if msg:
            found = True
            print(f"UNCHANGED-LIBRARY C06 deviation [{name}]: {msg}")
        else:
            print(f"ok [{name}]")
    return 1 if found else 0


if __name__ == "__main__":
    sys.exit(main())
