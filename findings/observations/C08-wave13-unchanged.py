"""
Unchanged-library reproducer for C08.

Policy.execute() / AsyncPolicy.execute() WITHOUT a retry component classify a
failed attempt with default_classifier() inside the `except Exception` handler
of _execute_without_retry.  default_classifier does
`getattr(err, "status", None) or getattr(err, "code", None)`; if the exception
object's `status` attribute raises something other than AttributeError (or its
truth value raises), the classifier raises from inside the handler, execute()
raises, and nobody tells the breaker that the admitted call is over.  For a
half-open probe the slot is leaked for good: every later call is rejected no
matter how much time passes.  (call() is protected by its `finally:
settle_if_unsettled`, execute() without retry has no such net.)
"""
import asyncio
import sys

from redress import CircuitBreaker, Policy, AsyncPolicy
from redress.circuit import CircuitState
from redress.errors import ErrorClass

failures = []


class Weird(Exception):
    @property
    def status(self):
        raise RuntimeError("status not available")


def make_open_breaker(now):
    br = CircuitBreaker(failure_threshold=1, window_s=60.0, recovery_timeout_s=10.0,
                        clock=lambda: now[0])
    br.record_failure(ErrorClass.TRANSIENT)
    assert br.state is CircuitState.OPEN
    return br


def check(label, br, now, admitted_again):
    if not admitted_again:
        failures.append(
            f"{label}: probe slot leaked: state={br.state.value}, "
            f"probe_in_flight={br._probe_in_flight}; call made long after "
            f"recovery_timeout_s with nothing outstanding was rejected"
        )


# ---- sync execute(), no retry
now = [0.0]
br = make_open_breaker(now)
now[0] = 11.0


def boom():
    raise Weird("x")


try:
    out = Policy(circuit_breaker=br).execute(boom)
    print("sync execute returned", out.ok, out.last_class)
except BaseException as exc:  # noqa: BLE001
    print("sync execute raised", type(exc).__name__, exc)
now[0] = 1000.0
ran = []
out = Policy(circuit_breaker=br).execute(lambda: ran.append(1) or "ok")
check("sync execute/no retry", br, now, bool(ran))

# ---- async execute(), no retry
now2 = [0.0]
br2 = make_open_breaker(now2)
now2[0] = 11.0


async def aboom():
    raise Weird("x")


async def aok():
    ran2.append(1)
    return "ok"


ran2 = []


async def main():
    try:
        out = await AsyncPolicy(circuit_breaker=br2).execute(aboom)
        print("async execute returned", out.ok, out.last_class)
    except BaseException as exc:  # noqa: BLE001
        print("async execute raised", type(exc).__name__, exc)
    now2[0] = 1000.0
    await AsyncPolicy(circuit_breaker=br2).execute(aok)


asyncio.run(main())
check("async execute/no retry", br2, now2, bool(ran2))

if failures:
    print("C08 VIOLATED on the unchanged library:")
    for f in failures:
        print("  -", f)
    sys.exit(1)
print("ok: no leak")
sys.exit(0)
