"""
Reproducer against the UNCHANGED library (property C09: exactly one breaker record
per admitted policy call).

Finding 1 (strict violation, decides the exit status)
-----------------------------------------------------
Policy.call() / AsyncPolicy.call() keep `record_success(ctx)` INSIDE the try block
whose handlers report a cancellation.  record_success() first tells the breaker
"success" and then emits the `circuit_closed` event through the user's on_metric /
on_log hook.  Hooks swallow only `Exception`; if the hook is interrupted by a
KeyboardInterrupt / SystemExit (sync) or raises asyncio.CancelledError (async), the
`except (KeyboardInterrupt, SystemExit)` / `except asyncio.CancelledError` handler of
the same try block runs and calls record_cancel(ctx): ONE admitted call, TWO reports
(success, then cancel).  execute() does the success bookkeeping outside its try block
and reports once.  Needs: call() (not execute()), a half-open probe that succeeds
(the only time record_success emits an event) and a hook interrupted during that event.

Findings 2-4 are printed as observations only (they do not change the exit status).

Exit status 1 when finding 1 shows, 0 otherwise.
"""

import asyncio
import sys

from redress import AsyncPolicy, AsyncRetry, CircuitBreaker, Policy, Retry, RetryPolicy
from redress.classify import default_classifier
from redress.errors import AbortRetryError, ErrorClass, RetryExhaustedError

now = [100.0]


class SpyBreaker(CircuitBreaker):
    def __init__(self, **kw):
        super().__init__(**kw)
        self.reports: list[tuple] = []

    def allow(self):
        decision = super().allow()
        self.reports.append(("allow", decision.allowed))
        return decision

    def record_success(self):
        self.reports.append(("success",))
        return super().record_success()

    def record_failure(self, klass):
        self.reports.append(("failure", klass.name))
        return super().record_failure(klass)

    def record_cancel(self):
        self.reports.append(("cancel",))
        return super().record_cancel()


def half_open_breaker() -> SpyBreaker:
    b = SpyBreaker(
        failure_threshold=1,
        window_s=60.0,
        recovery_timeout_s=5.0,
        trip_on={ErrorClass.SERVER_ERROR, ErrorClass.TRANSIENT},
        clock=lambda: now[0],
    )
    CircuitBreaker.record_failure(b, ErrorClass.SERVER_ERROR)  # open it
    now[0] += 6.0  # past recovery_timeout_s: next allow() admits a probe
    return b


bug = False

# ---------------------------------------------------------------- finding 1, sync
def interrupted_hook(event, attempt, sleep_s, tags):
    if event == "circuit_closed":
        raise KeyboardInterrupt()  # Ctrl-C arriving while the hook runs


for label, policy_factory in (
    ("Policy(retry=Retry).call", lambda b: Policy(
        retry=Retry(classifier=default_classifier, strategy=lambda ctx: 0.0, sleeper=lambda s: None),
        circuit_breaker=b,
    )),
    ("Policy(no retry).call", lambda b: Policy(circuit_breaker=b)),
):
    b = half_open_breaker()
    p = policy_factory(b)
    try:
        p.call(lambda: "value", on_metric=interrupted_hook)
    except KeyboardInterrupt:
        pass
    reports = [r for r in b.reports if r[0] != "allow"]
    print(f"[1] {label}: reports for ONE admitted call = {reports}")
    if len(reports) != 1:
        bug = True

    b = half_open_breaker()
    p = policy_factory(b)
    try:
        p.execute(lambda: "value", on_metric=interrupted_hook)
    except KeyboardInterrupt:
        pass
    reports = [r for r in b.reports if r[0] != "allow"]
    print(f"[1] {label.replace('.call', '.execute')} (control): reports = {reports}")


# --------------------------------------------------------------- finding 1, async
def cancelling_hook(event, attempt, sleep_s, tags):
    if event == "circuit_closed":
        raise asyncio.CancelledError()


async def async_part() -> None:
    global bug
    b = half_open_breaker()
    p = AsyncPolicy(
        retry=AsyncRetry(classifier=default_classifier, strategy=lambda ctx: 0.0),
        circuit_breaker=b,
    )

    async def ok():
        return "value"

    try:
        await p.call(ok, on_metric=cancelling_hook)
    except asyncio.CancelledError:
        pass
    reports = [r for r in b.reports if r[0] != "allow"]
    print(f"[1] AsyncPolicy(retry).call: reports for ONE admitted call = {reports}")
    if len(reports) != 1:
        bug = True


asyncio.run(async_part())

# ------------------------------------------------------------------- observations
print()
print("Observations (not counted in the exit status):")

# [2] call() classifies the final exception a SECOND time for the breaker; with a
# classifier that is not a pure function the class reported differs from the class the
# retry loop used when it stopped (execute() reports the loop's class).
seen = {"n": 0}


def drifting_classifier(exc):
    seen["n"] += 1
    return ErrorClass.SERVER_ERROR if seen["n"] <= 2 else ErrorClass.PERMANENT


def failing():
    raise RuntimeError("boom")


for mode in ("call", "execute"):
    seen["n"] = 0
    b = SpyBreaker(failure_threshold=1, window_s=60, recovery_timeout_s=5,
                   trip_on={ErrorClass.SERVER_ERROR}, clock=lambda: now[0])
    p = Policy(
        retry=Retry(classifier=drifting_classifier, strategy=lambda ctx: 0.0,
                    sleeper=lambda s: None, max_attempts=2),
        circuit_breaker=b,
    )
    try:
        getattr(p, mode)(failing)
    except RuntimeError:
        pass
    print(f"[2] {mode}(): 2 attempts both classified SERVER_ERROR by the loop; "
          f"breaker got {[r for r in b.reports if r[0] != 'allow']} state={b.state.value}")

# [3] An operation that raises a nested RetryExhaustedError(last_class=SERVER_ERROR):
# call() with/without retry and execute() with retry report failure(SERVER_ERROR);
# execute() WITHOUT a retry component reports failure(UNKNOWN).
inner = RetryPolicy(
    classifier=default_classifier,
    result_classifier=lambda r: ErrorClass.SERVER_ERROR,
    strategy=lambda ctx: 0.0,
    sleeper=lambda s: None,
    max_attempts=2,
)


def nested():
    return inner.call(lambda: "503")


for label, retry, mode in (
    ("call,    retry", True, "call"),
    ("call,    no retry", False, "call"),
    ("execute, retry", True, "execute"),
    ("execute, no retry", False, "execute"),
):
    b = SpyBreaker(failure_threshold=1, window_s=60, recovery_timeout_s=5,
                   trip_on={ErrorClass.SERVER_ERROR}, clock=lambda: now[0])
    p = Policy(
        retry=Retry(classifier=default_classifier, strategy=lambda ctx: 0.0,
                    sleeper=lambda s: None) if retry else None,
        circuit_breaker=b,
    )
    try:
        getattr(p, mode)(nested)
    except RetryExhaustedError:
        pass
    print(f"[3] nested RetryExhaustedError via {label}: "
          f"{[r for r in b.reports if r[0] != 'allow']} state={b.state.value}")

# [4] A call that is never admitted (pre-flight abort_if on a policy without retry)
# still reports cancel, which hands back ANOTHER call's half-open probe slot, so a
# second probe is admitted while the first is still running.
b = half_open_breaker()
p = Policy(circuit_breaker=b)
inner_log: list = []


def probe():
    try:
        p.call(lambda: "x", abort_if=lambda: True)  # never admitted, yet record_cancel
    except AbortRetryError:
        pass
    try:
        inner_log.append(p.call(lambda: "second probe ran"))
    except Exception as exc:  # CircuitOpenError expected: a probe is already in flight
        inner_log.append(type(exc).__name__)
    return "first probe done"


p.call(probe)
print(f"[4] while the first half-open probe was still running: {inner_log}; reports={b.reports}")

print()
if bug:
    print("UNCHANGED LIBRARY VIOLATES C09: one admitted call produced two breaker reports "
          "(success, then cancel).")
    sys.exit(1)
print("finding 1 did not show.")
sys.exit(0)
