"""
Unchanged-library finding for C10: Budget.consume()/remaining() read the clock
BEFORE taking the lock (`now = time.monotonic()` ... `with self._lock:`).  A
thread that is preempted / waits for the lock between the two statements
stamps its token with a stale time.  Two consequences, both shown here with a
deterministic schedule (the fake clock parks thread A right after it has read
the time, exactly as a preemption between the two statements would):

  1. stale stamp -> the token ages out too early -> over-grant.
     Budget(max_retries=1, window_s=10): A reads t=0, stalls, consume() returns
     True to A at t=8 (so A's retry runs at t>=8); at t=10 the token stamped 0.0
     is pruned and a second retry is granted: 2 retries within 2 s.

  2. out-of-order deque -> _prune stops at the first young token and leaves an
     older (expired) one behind it -> refusal although the window is not full.
     Budget(max_retries=2, window_s=10): A reads t=10.0 and stalls; another
     thread is granted at t=10.5; A appends 10.0 after it -> deque [10.5, 10.0].
     At t=20.2 the token stamped 10.0 is out of the window by the library's own
     bookkeeping, yet remaining()==0 and consume() is refused.

Exit status 1 when either shows.
"""
import sys
import threading
import time

_now = [0.0]
_park = {"thread": None, "parked": threading.Event(), "resume": threading.Event()}


def fake_monotonic() -> float:
    value = _now[0]
    if threading.current_thread() is _park["thread"]:
        _park["thread"] = None  # park only once
        _park["parked"].set()
        _park["resume"].wait(10)
    return value


time.monotonic = fake_monotonic

from redress import Budget  # noqa: E402

shown: list[str] = []


def stalled_consume(budget):
    """Start budget.consume() in a thread that stalls right after reading the clock."""
    result = {}
    th = threading.Thread(target=lambda: result.setdefault("ok", budget.consume()), daemon=True)
    _park["parked"].clear()
    _park["resume"].clear()
    _park["thread"] = th
    th.start()
    assert _park["parked"].wait(10)

    def resume():
        _park["resume"].set()
        th.join(10)
        return result["ok"]

    return resume


# -- 1. over-grant ------------------------------------------------------------
_now[0] = 0.0
b = Budget(max_retries=1, window_s=10.0)
resume = stalled_consume(b)  # A has read t=0.0 and is stalled before the lock
_now[0] = 8.0
a_ok = resume()  # consume() returns True to A at t=8.0
a_returned_at = _now[0]
_now[0] = 10.0
second_ok = b.consume()
print(f"1. A: consume() -> {a_ok} (returned at t={a_returned_at}); next consume() at t=10.0 -> {second_ok}")
if a_ok and second_ok:
    shown.append(
        "over-grant: max_retries=1, window_s=10, yet retries were granted at t=8.0 (when consume() "
        "returned True to A) and again at t=10.0"
    )

# -- 2. refusal although the window is not full --------------------------------
_now[0] = 10.0
b2 = Budget(max_retries=2, window_s=10.0)
resume = stalled_consume(b2)  # A has read t=10.0
_now[0] = 10.5
other_ok = b2.consume()  # another caller is granted at t=10.5
a_ok = resume()  # A appends its stale 10.0 behind 10.5
stamps = list(b2._events)
_now[0] = 20.2
in_window = [s for s in stamps if s > _now[0] - b2.window_s]
rem = b2.remaining()
ok = b2.consume()
print(
    f"2. token stamps {stamps}; at t=20.2 stamps still inside the window: {in_window}; "
    f"remaining() -> {rem}, consume() -> {ok}"
)
if other_ok and a_ok and len(in_window) < b2.max_retries and (rem == 0 or not ok):
    shown.append(
        f"refusal with a non-full window: at t=20.2 only {len(in_window)} of the recorded grants {stamps} "
        f"is younger than window_s=10, max_retries=2, but remaining()={rem} and consume()={ok}"
    )

if shown:
    for s in shown:
        print("BUG:", s)
    sys.exit(1)
print("not reproduced")
sys.exit(0)
