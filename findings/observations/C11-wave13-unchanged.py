"""Behaviour of the UNCHANGED library that contradicts the C11 text.

Finding 1 (main): in execute(), everything that follows a result-based failure
(strategy, sleep handler, sleeper, on_attempt_end) runs INSIDE the try block
that guards the operation.  An error raised by the caller's own sleeper (or
strategy) after a *result-based* failure is therefore caught by
`except Exception`, classified as if the operation had raised it, and reported
in the outcome (cause="exception", last_exception=<sleeper's error>), although
the operation never raised and its final failure was a result.  After an
*exception-based* failure the very same sleeper error propagates (the code runs
inside the except handler), and call() propagates it in both cases.  Same in the
async twin.

Finding 2: abort_if turning true right after attempt N failed (first check after
the failure, before it is recorded) yields an ABORTED outcome with attempts=N
whose last_exception is the failure of attempt N-1 (or nothing when N=1), i.e.
it does not describe the final failure.

Finding 3: Policy() without a retry component: an on_attempt_start hook raising
AbortRetryError gives attempts=1 although the operation was never invoked
(with a retry component the same situation gives attempts=0).

Exit status 1 when any of these shows.
"""

import asyncio
import sys

from redress.errors import AbortRetryError, ErrorClass, StopReason
from redress.policy import AsyncRetry, Policy, Retry

found: list[str] = []


def classifier(exc: BaseException) -> ErrorClass:
    return ErrorClass.PERMANENT if isinstance(exc, ValueError) else ErrorClass.TRANSIENT


def result_classifier(result: object) -> ErrorClass | None:
    return ErrorClass.TRANSIENT if result == "bad" else None


def broken_sleeper(seconds: float) -> None:
    raise ValueError("sleeper broke")


# ---------------------------------------------------------------- finding 1
retry = Retry(
    classifier=classifier,
    result_classifier=result_classifier,
    strategy=lambda ctx: 0.5,
    max_attempts=3,
)
calls = {"n": 0}


def returns_bad() -> str:
    calls["n"] += 1
    return "bad"


try:
    outcome = retry.execute(returns_bad, sleeper=broken_sleeper)
except ValueError:
    print("finding 1 (sync): sleeper error propagated (fine)")
else:
    if outcome.cause == "exception" or outcome.last_exception is not None:
        found.append(
            "finding 1 (sync): operation only ever RETURNED 'bad' (invoked "
            f"{calls['n']}x) but outcome says cause={outcome.cause!r} "
            f"last_exception={outcome.last_exception!r} last_result={outcome.last_result!r} "
            f"stop_reason={outcome.stop_reason} last_class={outcome.last_class}"
        )

# contrast: same sleeper error after an exception-based failure propagates
def raises_key_error() -> str:
    raise KeyError("x")


try:
    retry.execute(raises_key_error, sleeper=broken_sleeper)
    print("contrast: after an exception-based failure the sleeper error was swallowed too")
except ValueError:
    print("contrast: after an exception-based failure the sleeper error propagates")

aretry = AsyncRetry(
    classifier=classifier,
    result_classifier=result_classifier,
    strategy=lambda ctx: 0.5,
    max_attempts=3,
)


async def areturns_bad() -> str:
    return "bad"


try:
    aoutcome = asyncio.run(aretry.execute(areturns_bad, sleeper=broken_sleeper))
except ValueError:
    print("finding 1 (async): sleeper error propagated (fine)")
else:
    if aoutcome.cause == "exception" or aoutcome.last_exception is not None:
        found.append(
            "finding 1 (async): cause="
            f"{aoutcome.cause!r} last_exception={aoutcome.last_exception!r} for an operation "
            "that never raised"
        )

# ---------------------------------------------------------------- finding 2
flag = {"abort": False, "n": 0}
first, second = KeyError("first"), KeyError("second")


def fails_twice() -> str:
    flag["n"] += 1
    if flag["n"] == 2:
        flag["abort"] = True
        raise second
    raise first


plain = Retry(classifier=classifier, strategy=lambda ctx: 0.5, max_attempts=5)
outcome2 = plain.execute(fails_twice, sleeper=lambda s: None, abort_if=lambda: flag["abort"])
if outcome2.stop_reason is StopReason.ABORTED and outcome2.last_exception is not second:
    found.append(
        f"finding 2: aborted after attempt {outcome2.attempts} failed with {second!r}, but "
        f"last_exception={outcome2.last_exception!r}"
    )

# ---------------------------------------------------------------- finding 3
invoked = {"n": 0}


def op() -> str:
    invoked["n"] += 1
    return "ok"


def start_hook(ctx: object) -> None:
    raise AbortRetryError()


outcome3 = Policy().execute(op, on_attempt_start=start_hook)
if outcome3.attempts != invoked["n"]:
    found.append(
        f"finding 3: Policy() without retry: attempts={outcome3.attempts} but operation invoked "
        f"{invoked['n']} times (on_attempt_start raised AbortRetryError)"
    )

if found:
    print("unchanged library contradicts C11:")
    for f in found:
        print(" -", f)
    sys.exit(1)
print("nothing found")
sys.exit(0)
