"""
Reproducers for divergences between entry points (property C12) in the UNCHANGED library.
Exit status 1 when at least one divergence shows, 0 when none does.

 1. An operation that raises CircuitOpenError (e.g. a nested policy whose breaker is open):
    Policy.call() deliberately does not count it against the outer breaker (it only releases
    the admission), Policy.execute() records it as a failure of the classified class and can
    trip the outer breaker. Same with and without a retry component, sync and async.
 2. An on_attempt_start hook that raises an ordinary exception: Retry.call() lets it escape
    at once (no classification, no event, the operation is never invoked); Retry.execute()
    treats it as a failure of the attempt: classifies it, calls the strategy, sleeps, emits
    "retry" and runs the operation on the next attempt.
 3. attempt_timeout_s larger than threading.TIMEOUT_MAX (e.g. 1e10 or float("inf")):
    the sync runner's Future.result(timeout=...) raises OverflowError while the operation is
    still running in its worker thread; the error is classified and retried as if the operation
    had failed (the operation is started again, concurrently). The async twin
    (asyncio.wait_for) accepts the same timeout and succeeds on the first attempt.
"""

import asyncio
import sys
import threading

from redress import AsyncRetry, CircuitBreaker, CircuitOpenError, Policy, Retry
from redress.classify import default_classifier
from redress.errors import ErrorClass


def check_nested_circuit_open() -> bool:
    shown = False
    for with_retry in (False, True):
        states = {}
        events = {}
        for mode in ("call", "execute"):
            now = [0.0]
            breaker = CircuitBreaker(
                failure_threshold=1,
                window_s=60.0,
                recovery_timeout_s=30.0,
                trip_on={ErrorClass.UNKNOWN},
                clock=lambda now=now: now[0],
            )
            retry = (
                Retry(classifier=default_classifier, strategy=lambda ctx: 0.0, max_attempts=2)
                if with_retry
                else None
            )
            policy = Policy(retry=retry, circuit_breaker=breaker)
            seen: list = []

            def op():
                raise CircuitOpenError("open")

            def metric(event, attempt, sleep_s, tags, seen=seen):
                seen.append(event)

            if mode == "call":
                try:
                    policy.call(op, on_metric=metric, sleeper=lambda s: None)
                except CircuitOpenError:
                    pass
            else:
                policy.execute(op, on_metric=metric, sleeper=lambda s: None)
            states[mode] = breaker.state.value
            events[mode] = seen
        if states["call"] != states["execute"] or events["call"] != events["execute"]:
            shown = True
            print(
                f"[1] operation raises CircuitOpenError, retry={'yes' if with_retry else 'no'}: "
                f"breaker after call()={states['call']} events={events['call']}; "
                f"after execute()={states['execute']} events={events['execute']}"
            )
    return shown


def check_raising_attempt_start_hook() -> bool:
    traces = {}
    for mode in ("call", "execute"):
        trace = {"invocations": 0, "strategy": 0, "sleeps": [], "events": [], "final": None}
        hook_calls = [0]

        def start(ctx, hook_calls=hook_calls):
            hook_calls[0] += 1
            if hook_calls[0] == 1:
                raise ValueError("hook failed")

        def strategy(ctx, trace=trace):
            trace["strategy"] += 1
            return 0.5

        def op(trace=trace):
            trace["invocations"] += 1
            return "ok"

        retry = Retry(classifier=default_classifier, strategy=strategy, max_attempts=3)
        kwargs = dict(
            on_attempt_start=start,
            on_metric=lambda e, a, s, t, trace=trace: trace["events"].append(e),
            sleeper=lambda s, trace=trace: trace["sleeps"].append(s),
        )
        try:
            if mode == "call":
                trace["final"] = ("ok", retry.call(op, **kwargs))
            else:
                out = retry.execute(op, **kwargs)
                trace["final"] = ("ok", out.value) if out.ok else ("failed", repr(out.last_exception))
        except Exception as exc:  # noqa: BLE001
            trace["final"] = ("failed", repr(exc))
        traces[mode] = trace
    if traces["call"] != traces["execute"]:
        print(f"[2] on_attempt_start raises once: call()    -> {traces['call']}")
        print(f"[2] on_attempt_start raises once: execute() -> {traces['execute']}")
        return True
    return False


def check_huge_attempt_timeout() -> bool:
    shown = False
    for timeout_s in (1e10, float("inf")):
        classifier = lambda exc: ErrorClass.TRANSIENT  # noqa: E731

        # sync
        sync_trace = {"invocations": 0, "events": []}
        release = threading.Event()

        def op():
            sync_trace["invocations"] += 1
            # Still running when the runner starts waiting for the result; released as soon
            # as the runner reports anything (or after a short grace period).
            release.wait(1.0)
            return "ok"

        def sync_metric(event, attempt, sleep_s, tags):
            sync_trace["events"].append((event, tags.get("err")))
            release.set()

        out = Retry(
            classifier=classifier, strategy=lambda ctx: 0.0, attempt_timeout_s=timeout_s, max_attempts=3
        ).execute(op, on_metric=sync_metric, sleeper=lambda s: None)
        sync_trace["ok"] = out.ok

        # async
        async_trace = {"invocations": 0, "events": []}

        async def aop():
            async_trace["invocations"] += 1
            await asyncio.sleep(0)
            return "ok"

        def async_metric(event, attempt, sleep_s, tags):
            async_trace["events"].append((event, tags.get("err")))

        aout = asyncio.run(
            AsyncRetry(
                classifier=classifier,
                strategy=lambda ctx: 0.0,
                attempt_timeout_s=timeout_s,
                max_attempts=3,
            ).execute(aop, on_metric=async_metric, sleeper=lambda s: None)
        )
        async_trace["ok"] = aout.ok

        if sync_trace != async_trace:
            shown = True
            print(f"[3] attempt_timeout_s={timeout_s!r}: sync  -> {sync_trace}")
            print(f"[3] attempt_timeout_s={timeout_s!r}: async -> {async_trace}")
    return shown


def main() -> int:
    results = [
        check_nested_circuit_open(),
        check_raising_attempt_start_hook(),
        check_huge_attempt_timeout(),
    ]
    if any(results):
        print("divergences between entry points shown on the unchanged library:", results)
        return 1
    print("no divergence shown")
    return 0


if __name__ == "__main__":
    sys.exit(main())
