"""Unchanged-library finding for C13 (debatable reading of "CancelledError").

C13: "CancelledError, KeyboardInterrupt and SystemExit raised by the operation
... propagate unchanged at once: they are never classified, retried, delayed or
swallowed."

The runners only special-case asyncio.CancelledError.  Since Python 3.8 that is
a different class from concurrent.futures.CancelledError (an Exception
subclass), which is the CancelledError a *sync* operation naturally raises when
it waits on a cancelled concurrent.futures.Future.  The sync (and async) retry
loops classify it (default_classifier -> UNKNOWN), sleep, and invoke the
operation again.

Exit 1 when the behaviour shows, 0 otherwise.
"""

import concurrent.futures
import sys

from redress import Retry, default_classifier

calls = {"op": 0, "classifier": 0}
sleeps: list[float] = []


def classifier(exc: BaseException):
    calls["classifier"] += 1
    return default_classifier(exc)


def operation() -> str:
    calls["op"] += 1
    fut: concurrent.futures.Future = concurrent.futures.Future()
    fut.cancel()  # somebody cancelled the work we are waiting for
    return fut.result()  # raises concurrent.futures.CancelledError


policy = Retry(classifier=classifier, strategy=lambda ctx: 0.25, deadline_s=30.0, max_attempts=4)
caught = None
try:
    policy.call(operation, sleeper=sleeps.append)
except BaseException as exc:  # noqa: BLE001
    caught = exc

print(f"propagated: {type(caught).__module__}.{type(caught).__name__}")
print(f"operation invoked {calls['op']} times, classifier ran {calls['classifier']} times, "
      f"backoff sleeps started: {sleeps}")
if calls["op"] != 1 or calls["classifier"] != 0 or sleeps:
    print("concurrent.futures.CancelledError raised by the operation was classified and retried")
    sys.exit(1)
sys.exit(0)
