"""Behaviours of the UNCHANGED library that contradict the C14 text.

Exit 1 if any of them shows (prints what happened), 0 otherwise.

 1. capture_timeline=<RetryTimeline subclass that is falsy while empty> (e.g. one that
    defines __len__ over its events): `_resolve_timeline` tests `if not capture_timeline`,
    so the caller's timeline object is treated like False: it receives NO events and
    outcome.timeline is None, while the metric and log hooks get the full sequence.
 2. A sleep handler that aborts by raising AbortRetryError (instead of returning
    SleepDecision.ABORT) after an exception-caused failure: the abort reaches the caller
    (call(): AbortRetryError; execute(): AbortRetryError escapes instead of an outcome)
    but the stream ends with `retry` - no `aborted` terminal event.  On the result path of
    execute() the same handler yields a proper outcome + `aborted` event.
 3. execute(): an on_attempt_end hook that raises once on the SUCCESS attempt: the
    `success` event has already been emitted, the hook's exception is then taken for a
    failure of the attempt, a `retry` follows and the operation runs again: stream is
    success, retry, success (two terminal events).  Same family as the known
    result-path callback finding (hooks are called inside execute()'s try block).
"""

import sys

from redress import ErrorClass, Retry
from redress.errors import AbortRetryError
from redress.policy.types import RetryTimeline

bad = []


def make(**kw):
    return Retry(
        classifier=lambda exc: ErrorClass.TRANSIENT,
        strategy=lambda ctx: 0.5,
        deadline_s=1000.0,
        max_attempts=4,
        sleeper=lambda s: None,
        **kw,
    )


# ---- 1 -------------------------------------------------------------------------------
class SizedTimeline(RetryTimeline):
    def __len__(self):
        return len(self.events)


calls = [0]


def flaky():
    calls[0] += 1
    if calls[0] < 3:
        raise ConnectionError("x")
    return "v"


metric = []
tl = SizedTimeline()
out = make().execute(flaky, on_metric=lambda e, a, s, t: metric.append((e, a)), capture_timeline=tl)
print("1. metric hook:", metric)
print("   timeline passed in:", [(ev.event, ev.attempt) for ev in tl.events], " outcome.timeline:", out.timeline)
if [(ev.event, ev.attempt) for ev in tl.events] != metric or out.timeline is not tl:
    bad.append("1: falsy-while-empty RetryTimeline subclass is ignored by capture_timeline")


# ---- 2 -------------------------------------------------------------------------------
def boom():
    raise ConnectionError("x")


def aborting_sleep(ctx, sleep_s):
    raise AbortRetryError()


for mode in ("call", "execute"):
    metric = []
    delivered = None
    try:
        r = getattr(make(), mode)(boom, on_metric=lambda e, a, s, t: metric.append((e, a)), sleep=aborting_sleep)
        delivered = f"outcome stop_reason={r.stop_reason}"
    except AbortRetryError:
        delivered = "AbortRetryError raised"
    print(f"2. {mode}: delivered: {delivered}; events: {metric}")
    if not metric or metric[-1][0] != "aborted":
        bad.append(f"2: {mode}(): abort raised by the sleep handler reaches the caller without an `aborted` event")

# ---- 3 -------------------------------------------------------------------------------
metric = []
hook_calls = [0]
op_calls = [0]


def op():
    op_calls[0] += 1
    return 7


def end_hook(ctx):
    hook_calls[0] += 1
    if hook_calls[0] == 1:
        raise ValueError("attempt-end hook failed once")


out = make().execute(op, on_metric=lambda e, a, s, t: metric.append((e, a)), on_attempt_end=end_hook)
print(f"3. ok={out.ok} attempts={out.attempts} operation ran {op_calls[0]}x; events: {metric}")
if [e for e, _a in metric].count("success") != 1 or metric[-1][0] != "success" or len(metric) != 1:
    bad.append("3: execute(): success event followed by retry + second success when on_attempt_end raises once")

if bad:
    print()
    for b in bad:
        print("BUG", b)
    sys.exit(1)
sys.exit(0)
