"""
Reproducer against the UNCHANGED library (nothing planted).

Finding 1 (C16, "exactly one sleeper call with that delay"; "per-call ...
sleepers override the policy-level ones"):
    retry_helpers._sync_sleep_action / _async_sleep_action pick the sleeper with
        sleep_impl = sleeper or time.sleep        (asyncio.sleep in the async twin)
    so a configured sleeper that is *falsy* is silently replaced by the real
    time.sleep / asyncio.sleep.  A very ordinary recording sleeper is falsy:
        class Rec(list):
            def __call__(self, s): self.append(s)
    (an empty list is falsy, and it stays empty because it is never called).
    Same for any callable defining __len__ / __bool__.  Policy-level and
    call-level placement, sync and async, with and without a handler.

Finding 2 (C16, "SLEEP leads to ... exactly one sleeper call ..., followed by
the next attempt"; execute() only, result-based retries only):
    in _run_sync_execute / _run_async_execute the result-based failure path
    (handler, before_sleep, sleeper, on_attempt_end) runs INSIDE the try block
    whose `except Exception` treats an exception as a failed attempt.  A sleeper
    (or handler) that raises there is classified as if the operation had raised:
    a second retry is granted for the same attempt and the sleeper is called a
    second time before the next attempt.  call() lets the same exception
    propagate.

Exit status 1 when a finding shows, 0 otherwise.
"""

import asyncio
import sys
import time

real: list[tuple[str, float]] = []
time.sleep = lambda s: real.append(("time.sleep", s))  # type: ignore[assignment]


async def _fake_asyncio_sleep(s: float) -> None:
    real.append(("asyncio.sleep", s))


asyncio.sleep = _fake_asyncio_sleep  # type: ignore[assignment]

from redress import AsyncRetry, ErrorClass, Retry, SleepDecision  # noqa: E402

findings: list[str] = []


class Rec(list):
    """Recording sleeper: remembers every delay it was asked to sleep."""

    def __call__(self, s: float) -> None:
        self.append(s)


def failing_twice():
    n = {"n": 0}

    def op():
        n["n"] += 1
        if n["n"] <= 2:
            raise RuntimeError("boom")
        return "ok"

    return op


COMMON = dict(classifier=lambda e: ErrorClass.TRANSIENT, strategy=lambda ctx: 0.5, max_attempts=5)

# ---- finding 1 -------------------------------------------------------------
for level in ("policy", "call"):
    for with_handler in (False, True):
        handler = (lambda ctx, s: SleepDecision.SLEEP) if with_handler else None

        rec = Rec()
        real.clear()
        r = Retry(**COMMON, sleep=handler, sleeper=rec if level == "policy" else None)
        r.call(failing_twice(), **({"sleeper": rec} if level == "call" else {}))
        if list(rec) != [0.5, 0.5] or real:
            findings.append(
                f"[1] sync, {level}-level falsy sleeper, handler={with_handler}: "
                f"sleeper saw {list(rec)}, real sleeps {real}"
            )

        rec = Rec()
        real.clear()
        ar = AsyncRetry(**COMMON, sleep=handler, sleeper=rec if level == "policy" else None)
        op = failing_twice()

        async def aop():
            return op()

        asyncio.run(ar.call(aop, **({"sleeper": rec} if level == "call" else {})))
        if list(rec) != [0.5, 0.5] or real:
            findings.append(
                f"[1] async, {level}-level falsy sleeper, handler={with_handler}: "
                f"sleeper saw {list(rec)}, real sleeps {real}"
            )

# ---- finding 2 -------------------------------------------------------------
log: list[tuple] = []
attempts = {"n": 0}
sleeps = {"n": 0}


def bad_result():
    attempts["n"] += 1
    log.append(("attempt", attempts["n"]))
    return "bad"


def flaky_sleeper(s: float) -> None:
    sleeps["n"] += 1
    log.append(("sleeper", s))
    if sleeps["n"] == 1:
        raise OSError("sleeper broke")


r = Retry(
    **{**COMMON, "max_attempts": 3},
    result_classifier=lambda res: ErrorClass.TRANSIENT,
    sleeper=flaky_sleeper,
)
real.clear()
out = r.execute(bad_result)
between = log[log.index(("attempt", 1)) + 1 : log.index(("attempt", 2))] if ("attempt", 2) in log else None
if between is not None and len(between) != 1:
    findings.append(
        f"[2] execute(), result-based retry, sleeper raised once: {len(between)} sleeper calls "
        f"between attempt 1 and attempt 2 (log: {log}); outcome stop_reason={out.stop_reason}, "
        f"cause={out.cause}; call() would have propagated the OSError"
    )

if findings:
    print("UNCHANGED LIBRARY, C16:")
    for f in findings:
        print("  -", f)
    sys.exit(1)
print("no finding reproduced")
sys.exit(0)
