"""C18 on the UNCHANGED library: inputs inside the property's stated quantifier
for which a built-in strategy leaves its envelope or raises.

(1) max_s = +inf satisfies "0 <= base_s <= max_s".  For an attempt large
    enough that base_s * 1.5**attempt overflows, cap = inf and
    random.uniform(cap/2, cap) = inf + (inf - inf) * r = NaN for EVERY draw:
    token_backoff returns NaN, which is not in [cap/2, cap].
    equal_jitter does the same for the draw 0.0 (inf/2 + inf*0.0 = NaN), and
    decorrelated_jitter(max_s=inf) returns +inf (not finite) for a huge
    previous delay.
(2) retry_after_or raises OverflowError when Classification.retry_after_s is an
    int beyond the float range (math.isfinite(10**400) raises); a classifier
    doing int(header) on a long digit string produces exactly that.  The HTTP
    extra guards against it itself, retry_after_or does not.
(3) adaptive(max_multiplier=inf) passes validation; with a fallback that
    returns 0.0 (base_s = 0) and a failing history, 0.0 * inf = NaN, which is
    "below a non-negative fallback" in the sense that NaN >= 0.0 is False.

Exit status 1 when any of them shows.
"""

import math
import random
import sys

from redress.classify import Classification
from redress.errors import ErrorClass
from redress.strategies import (
    BackoffContext,
    adaptive,
    decorrelated_jitter,
    equal_jitter,
    retry_after_or,
    token_backoff,
)

found: list[str] = []

random.seed(0)
v = token_backoff(base_s=0.25, max_s=math.inf)(2000, ErrorClass.RATE_LIMIT, None)
if not (v >= 0.0):  # NaN
    found.append(f"(1) token_backoff(base_s=0.25, max_s=inf)(attempt=2000) returned {v!r}")

inst = random._inst
inst.random = lambda: 0.0  # the legal draw 0.0
try:
    v = equal_jitter(base_s=0.25, max_s=math.inf)(1100, ErrorClass.SERVER_ERROR, None)
finally:
    del inst.random
if not (v >= 0.0):
    found.append(f"(1) equal_jitter(base_s=0.25, max_s=inf)(attempt=1100), draw 0.0, returned {v!r}")

random.seed(0)
v = decorrelated_jitter(base_s=0.25, max_s=math.inf)(3, ErrorClass.TRANSIENT, 1e308)
if not math.isfinite(v):
    found.append(f"(1) decorrelated_jitter(base_s=0.25, max_s=inf)(prev=1e308) returned {v!r} (not finite)")

ctx = BackoffContext(
    attempt=1,
    classification=Classification(ErrorClass.RATE_LIMIT, retry_after_s=10**400),
    prev_sleep_s=None,
    remaining_s=5.0,
    cause="exception",
)
try:
    v = retry_after_or(token_backoff(), jitter_s=0.0)(ctx)
    if not (math.isfinite(v) and 0.0 <= v <= 5.0):
        found.append(f"(2) retry_after_or returned {v!r} for retry_after_s=10**400")
except Exception as exc:  # noqa: BLE001
    found.append(f"(2) retry_after_or raised {exc!r} for Classification.retry_after_s=10**400")

strat = adaptive(token_backoff(base_s=0.0, max_s=0.0), max_multiplier=math.inf, clock=lambda: 1.0)
strat.record_failure()
ctx2 = BackoffContext(
    attempt=1,
    classification=Classification(ErrorClass.SERVER_ERROR),
    prev_sleep_s=None,
    remaining_s=None,
    cause="exception",
)
v = strat(ctx2)
if not (v >= 0.0):
    found.append(f"(3) adaptive(token_backoff(0, 0), max_multiplier=inf) after one failure returned {v!r}")

if found:
    print("unchanged library leaves the C18 envelope:")
    for f in found:
        print("  -", f)
    sys.exit(1)
print("nothing found")
sys.exit(0)
