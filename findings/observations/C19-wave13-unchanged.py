"""Findings against the UNCHANGED library for C19 (nothing planted).

Exit status 1 when at least one of the findings below shows.

A. "never raise ... whatever built-in values (... containers ...) its ... sqlstate
   attribute holds": sqlstate_classifier and pyodbc_classifier call str(sqlstate) and
   only guard against ValueError (the huge-int case).  A container nested deeper than
   the recursion limit makes str()/repr() raise RecursionError, which escapes.

B. "numeric status/code ... win over name heuristics, and every integer status maps as
   documented": default_classifier / strict_classifier pick the code with
   ``getattr(err, "status", None) or getattr(err, "code", None)``.  A truthy NON-integer
   status (a reason string such as "Service Unavailable", a float, NaN, a container)
   shadows an integer ``code``; the integer is never looked at, so the name heuristics
   (or UNKNOWN) win over code=503 / code=401.  http_classifier, which tests each
   attribute with isinstance, gets the same object right.
"""

import sys

from redress.classify import default_classifier, strict_classifier
from redress.errors import ErrorClass
from redress.extras import http_classifier, pyodbc_classifier, sqlstate_classifier

shown: list[str] = []

# ---- A: deeply nested container in sqlstate -> RecursionError ----------------------
deep: list[object] = []
for _ in range(sys.getrecursionlimit() * 3):
    deep = [deep]


class DbError(Exception):
    pass


for classifier in (sqlstate_classifier, pyodbc_classifier):
    err = DbError("boom")
    err.sqlstate = deep  # type: ignore[attr-defined]
    try:
        result = classifier(err)
    except BaseException as raised:  # noqa: BLE001
        shown.append(
            f"A: {classifier.__name__}(sqlstate=<list nested {sys.getrecursionlimit() * 3} deep>) "
            f"raised {type(raised).__name__}"
        )
    else:
        if not isinstance(result, ErrorClass):
            shown.append(f"A: {classifier.__name__} returned {result!r}")


# ---- B: truthy non-int status shadows an integer code -------------------------------
class ForbiddenError(Exception):  # name heuristic alone would say PERMISSION
    pass


class ApiError(Exception):  # neutral name
    pass


for status_value in ("Service Unavailable", 503.5, float("nan"), ["x"], b"err"):
    for exc_type, code, want in (
        (ForbiddenError, 503, ErrorClass.SERVER_ERROR),
        (ApiError, 401, ErrorClass.AUTH),
        (ApiError, 429, ErrorClass.RATE_LIMIT),
    ):
        err = exc_type("boom")
        err.status = status_value  # type: ignore[attr-defined]
        err.code = code  # type: ignore[attr-defined]
        assert http_classifier(err) is want  # the HTTP classifier reads the integer code
        for classifier in (default_classifier, strict_classifier):
            got = classifier(err)
            if got is not want:
                shown.append(
                    f"B: {classifier.__name__}({exc_type.__name__}, status={status_value!r}, "
                    f"code={code}) -> {got.name}; integer code {code} is documented as {want.name}"
                )

if shown:
    print("unchanged library departs from C19:")
    for line in shown:
        print("  -", line)
    sys.exit(1)

print("no finding shows")
sys.exit(0)
