"""Reproducers for C20 violations already present in the UNCHANGED library.

(1) retry_after_or with jitter_s=float('inf') (or any jitter_s so large that
    hint + jitter overflows, e.g. hint 1e308 and jitter_s 1.7e308): the sum
    becomes inf/nan, the "not finite -> 0.0" guard then discards the hint, and the
    policy waits 0 s instead of at least the hinted time (deadline left: 60 s).
    Property: "waits at least the hinted time and at most the hint plus jitter_s,
    except where the remaining deadline is smaller", for all jitter_s.

(2) A Retry-After digit string longer than Python's int<->str limit (4300 digits)
    whose VALUE is small (zero-padded: "000...05") is a decimal integer within float
    range, but int() raises ValueError for it, the code falls through to the date
    parser and reports no hint.  Property: "digit strings of any length ... a
    decimal integer n within float range gives n".

Exit status 1 when a bug shows.
"""
import random
import sys
import time

_NOW = [1000.0]
time.monotonic = lambda: _NOW[0]

from redress import Retry, retry_after_or  # noqa: E402
from redress.classify import Classification  # noqa: E402
from redress.extras.http import http_retry_after_classifier  # noqa: E402


class Http429(Exception):
    def __init__(self, value):
        super().__init__("429")
        self.status = 429
        self.headers = {"Retry-After": value}


def one_wait(header, jitter_s):
    sleeps = []
    calls = {"n": 0}

    def op():
        calls["n"] += 1
        if calls["n"] == 1:
            raise Http429(header)
        return "ok"

    policy = Retry(
        classifier=http_retry_after_classifier,
        strategy=retry_after_or(lambda ctx: 0.01, jitter_s=jitter_s),
        deadline_s=60.0,
        max_attempts=3,
    )
    policy.call(op, sleeper=sleeps.append)
    return sleeps


bugs = []

# (1a) infinite jitter: deterministic
sleeps = one_wait("5", float("inf"))
if sleeps != [] and sleeps[0] < 5.0:
    bugs.append(
        f"jitter_s=inf, Retry-After: 5, 60 s of deadline left: waited {sleeps[0]!r} s (< 5 s hinted)"
    )

# (1b) finite hint and finite jitter whose sum overflows (depends on the draw; seeded)
random.seed(1)
big = "1" + "0" * 308  # 1e308, a decimal integer within float range
worst = min(one_wait(big, 1.7e308)[0] for _ in range(20))
if worst < 60.0:
    bugs.append(
        f"jitter_s=1.7e308, Retry-After: 1e308, 60 s of deadline left: waited {worst!r} s "
        "(expected the remaining 60 s, as the hint exceeds the deadline)"
    )

# (2) zero-padded small integer longer than the int<->str digit limit
padded = "0" * 5000 + "5"
got = http_retry_after_classifier(Http429(padded))
hint = got.retry_after_s if isinstance(got, Classification) else None
if hint != 5.0:
    bugs.append(
        f"Retry-After of 5000 zeros followed by '5' (the decimal integer 5): hint {hint!r}, expected 5.0"
    )

if bugs:
    print("UNCHANGED LIBRARY VIOLATES C20:")
    for b in bugs:
        print("  -", b)
    sys.exit(1)
print("no bug shown")
sys.exit(0)
