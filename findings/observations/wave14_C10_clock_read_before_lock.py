"""Unchanged-tree finding for C10: Budget.consume() reads the clock BEFORE taking the
lock, so two threads can append their tokens out of timestamp order.  _prune() only
looks at the head of the deque, so a younger head shields an older token behind it:
the older token keeps being counted after it has aged out, and consume() refuses
although the window is not full (remaining() under-reports likewise).

Interleaving (max_retries=2, window_s=10), made deterministic with a fake clock:
  thread A reads now=5.0, is descheduled before the lock
  thread B reads now=6.0, takes the lock, appends 6.0
  thread A takes the lock, appends 5.0           -> _events == [6.0, 5.0]
  t=15.5: only the 6.0 token lies in (5.5, 15.5]; one slot is free,
          but head 6.0 > cutoff 5.5 stops the prune, len == 2 -> refused.
Exit 1 when the bug shows.
"""

import sys
import threading

import redress.budget as budget_mod
from redress import Budget

a_has_read = threading.Event()
b_done = threading.Event()
main_now = {"t": 0.0}


def fake_monotonic() -> float:
    name = threading.current_thread().name
    if name == "A":
        a_has_read.set()
        b_done.wait(2.0)  # A is "descheduled" between the clock read and the lock
        return 5.0
    if name == "B":
        return 6.0
    return main_now["t"]


budget_mod.time = type("T", (), {"monotonic": staticmethod(fake_monotonic)})()

budget = Budget(max_retries=2, window_s=10.0)
results = {}


def run_a() -> None:
    results["A"] = budget.consume()


def run_b() -> None:
    a_has_read.wait(2.0)
    results["B"] = budget.consume()
    b_done.set()


ta = threading.Thread(target=run_a, name="A")
tb = threading.Thread(target=run_b, name="B")
ta.start(); tb.start(); ta.join(); tb.join()
assert results == {"A": True, "B": True}, results

main_now["t"] = 15.5  # token stamped 5.0 is 10.5 s old: out of the window
rem = budget.remaining()
ok = budget.consume()
print(f"_events={list(budget._events)} remaining()={rem} consume()={ok}")
if rem != 1 or ok is not True:
    print("BUG: token stamped 5.0 aged out at t=15.0 but is still counted at t=15.5; "
          "retry refused although only 1 of 2 tokens lies in the window")
    sys.exit(1)
sys.exit(0)
