"""Unchanged-tree finding for C14: in execute() mode the success event is emitted and THEN the
on_attempt_end hook is called inside the runner's try block.  If that hook raises an ordinary
exception once, the runner treats it as an operation failure: the stream becomes
success, retry, success (events after / more than one terminal `success`), although the run ends
normally with ok=True.  (call() mode runs the success path outside the try and just propagates.)
Exit 1 when the bug shows.
"""
import sys
from redress import RetryPolicy
from redress.errors import ErrorClass

events = []
fired = {"n": 0}

def on_end(ctx):
    if ctx.decision is not None and ctx.decision.name == "SUCCESS" and fired["n"] == 0:
        fired["n"] += 1
        raise RuntimeError("hook hiccup")

policy = RetryPolicy(classifier=lambda e: ErrorClass.TRANSIENT, strategy=lambda ctx: 0.0,
                     deadline_s=60.0, max_attempts=5)
out = policy.execute(lambda: "ok", on_metric=lambda e, a, s, t: events.append((e, a)),
                     on_attempt_end=on_end, sleeper=lambda s: None, capture_timeline=True)
names = [e for e, _ in events]
print("ok =", out.ok, "attempts =", out.attempts, "stream =", events)
terminals = [n for n in names if n != "retry"]
if len(terminals) != 1 or names[-1] != "success" or "success" in names[:-1]:
    print("C14 violated on unchanged tree: terminal events", terminals)
    sys.exit(1)
sys.exit(0)
