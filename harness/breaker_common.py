"""Shared by C06 / C07 (breaker level): history generator, Gallina printer, property oracle."""
import itertools

import common
from common import G

KLASSES = ["AUTH", "PERMISSION", "PERMANENT", "CONCURRENCY", "RATE_LIMIT", "SERVER_ERROR", "TRANSIENT", "UNKNOWN"]
EVN = {
    "circuit_opened": "N_CIRCUIT_OPENED",
    "circuit_half_open": "N_CIRCUIT_HALF_OPEN",
    "circuit_closed": "N_CIRCUIT_CLOSED",
    "circuit_rejected": "N_CIRCUIT_REJECTED",
}
DEFAULT_TRIP = ["TRANSIENT", "SERVER_ERROR"]


def gen_two_bucket_cycle(rng):
    """two classes with their own thresholds; the circuit is tripped, recovers through a probe and is closed again; afterwards
    failures of the two classes alternate, each staying below its own threshold (and below the global one): the per-class counts
    must be independent of each other and of what was counted before the cycle"""
    a, b = rng.sample(KLASSES, 2)
    ta, tb = rng.choice([2, 3]), rng.choice([2, 3])
    rto, win = rng.choice([1, 2, 5]), rng.choice([8, 64])
    hist = [[0, "F", a]] * ta                                 # trips on a's own threshold
    hist += [[rto, "A", None], [0, "S", None]]                # probe admitted and successful: closed again
    after = []
    for i in range(rng.randint(2, ta + tb - 2 + 1)):
        after.append([rng.choice([0, 0, 1]), "F", [a, b][i % 2] if rng.random() < 0.8 else rng.choice([a, b])])
    hist += after + [[0, "Q", None], [0, "A", None]]
    return {"thr": ta + tb + 3, "win": win, "rto": rto, "trip_on": rng.choice([None, [], [a]]), "cthr": {a: ta, b: tb},
            "t0": rng.choice([0, 1000]), "hist": [list(x) for x in hist]}


def gen_case(rng, bias):
    """bias = 'count' (mostly CLOSED, counting rule) or 'cycle' (open / half-open cycles)."""
    if bias == "count" and rng.random() < 0.06:
        return gen_two_bucket_cycle(rng)
    if bias == "cycle" and rng.random() < 0.08:
        return gen_reopen_after_probe(rng)
    win = rng.choice([1, 2, 3, 5, 8, 64])
    rto = rng.choice([1, 2, 3, 5, 8, 64])
    thr = rng.choice([1, 2, 2, 3, 3, 4, 5]) if bias == "count" else rng.choice([1, 1, 2, 2, 3])
    trip = None if rng.random() < 0.3 else rng.sample(KLASSES, rng.randint(0, 4))
    cthr = {}
    if rng.random() < 0.5:
        for k in rng.sample(KLASSES, rng.randint(1, 2)):
            cthr[k] = rng.choice([1, 2, 2, 3, 4])
    counted = sorted(set((trip if trip is not None else DEFAULT_TRIP) + list(cthr)))
    n = rng.randint(1, 30 if bias == "count" else 24)
    hist = []
    for _ in range(n):
        r = rng.random()
        if r < 0.35:
            dt = 0
        elif r < 0.8:
            dt = rng.choice([win - 1, win, win + 1, rto - 1, rto, rto + 1, 1])
        else:
            dt = rng.randint(0, 2 * max(win, rto) + 1)
        dt = max(0, dt)
        r = rng.random()
        if bias == "count":
            pf, pa, ps, pc = 0.7, 0.1, 0.08, 0.04
        else:
            pf, pa, ps, pc = 0.4, 0.3, 0.12, 0.1
        if r < pf:
            if counted and rng.random() < 0.8:
                k = rng.choice(counted)
            else:
                k = rng.choice(KLASSES)
            hist.append([dt, "F", k])
        elif r < pf + pa:
            hist.append([dt, "A", None])
        elif r < pf + pa + ps:
            hist.append([dt, "S", None])
        elif r < pf + pa + ps + pc:
            hist.append([dt, "C", None])
        else:
            hist.append([dt, "Q", None])
    return {"thr": thr, "win": win, "rto": rto, "trip_on": trip, "cthr": cthr,
            "t0": rng.choice([0, 3, 1000, 2**40]), "hist": hist}


def gen_reopen_after_probe(rng):
    """open on a class threshold (or the global one), recover through a successful probe, then fail again inside the same window: the
    history a closed circuit starts from must be empty, for the global deque and for every class bucket"""
    a, b = rng.sample(KLASSES, 2)
    n = rng.choice([2, 2, 3])
    rto = rng.choice([1, 2, 5])
    by_class = rng.random() < 0.7
    cfg = {"thr": n + 3 if by_class else n, "win": rng.choice([10**5, 64 + rto, 3 * rto + 8]), "rto": rto,
           "trip_on": rng.choice([None, [a], [a, b]]) if by_class else [a, b], "cthr": {a: n} if by_class else {}}
    hist = [[rng.choice([0, 1]), "F", a] for _ in range(n)]
    hist += [[rto + rng.choice([0, 1]), "A", None], [rng.choice([0, 1]), "S", None]]
    for _ in range(rng.randint(1, n)):
        hist.append([rng.choice([0, 1]), "F", rng.choice([a, a, b])])
        hist.append([0, rng.choice(["A", "Q"]), None])
    return dict(cfg, t0=rng.choice([0, 1000, 2**40]), hist=hist)


def exhaustive_cases(maxlen, cfgs=None):
    """all histories of length <= maxlen over a 20-symbol alphabet (op x time step)."""
    win, rto = 3, 2
    ops = [("F", "TRANSIENT"), ("F", "RATE_LIMIT"), ("F", "AUTH"), ("A", None), ("S", None), ("C", None)]
    steps = [0, 1, 2, 3]
    alphabet = [(dt, o, k) for dt in steps for (o, k) in ops]
    cfgs = cfgs or [
        {"thr": 2, "win": win, "rto": rto, "trip_on": ["TRANSIENT"], "cthr": {}},
        {"thr": 3, "win": win, "rto": rto, "trip_on": ["TRANSIENT"], "cthr": {"RATE_LIMIT": 2}},
        {"thr": 1, "win": win, "rto": rto, "trip_on": None, "cthr": {}},
    ]
    for cfg in cfgs:
        for n in range(1, maxlen + 1):
            for h in itertools.product(alphabet, repeat=n):
                yield dict(cfg, t0=7, hist=[list(x) for x in h])


def g_res(r):
    tag = r[0]
    if tag == "D":
        st = r[2] if r[2] in ("CLOSED", "OPEN", "HALF_OPEN") else "CLOSED"
        ev = G.opt(EVN.get(r[3], "N_OTHER") if r[3] is not None else None)
        if r[2] not in ("CLOSED", "OPEN", "HALF_OPEN"):
            ev = "(Some N_OTHER)"
        return G.con("KDecision", G.b(r[1]), st, ev)
    if tag == "E":
        return G.con("KEvent", G.opt(EVN.get(r[1], "N_OTHER") if r[1] is not None else None))
    if tag == "U":
        return "KUnit"
    if tag == "Q" and r[1] in ("CLOSED", "OPEN", "HALF_OPEN"):
        return G.con("KStateIs", r[1])
    return G.con("KEvent", "(Some N_OTHER)")  # unexpected: can never match the model


def g_cfg(c):
    trip = c["trip_on"] if c["trip_on"] is not None else DEFAULT_TRIP
    return G.con("mk_kcfg", G.z(c["thr"]), G.z(c["win"]), G.z(c["rto"]), G.lst(trip),
                 G.lst(sorted(c["cthr"].items()), lambda kv: G.pair(kv[0], G.z(kv[1]))))


def to_gallina(case, obs):
    def op(x):
        dt, o, k = x
        t = {"A": "KAllow", "S": "KSucc", "C": "KCancel", "Q": "KState"}.get(o) or G.con("KFail", k)
        return G.pair(G.z(dt), t)

    return G.rec(kc_cfg=g_cfg(case), kc_t0=G.z(case["t0"]), kc_hist=G.lst(case["hist"], op),
                 kc_obs=G.lst(obs, g_res))


class Spec:
    """The property statements of C06/C07 as an epoch-based reference (no deques, no pruning)."""

    def __init__(self, case):
        self.c = case
        self.counted = set((case["trip_on"] if case["trip_on"] is not None else DEFAULT_TRIP)) | set(case["cthr"])
        self.state, self.opened_at, self.probe, self.epoch = "CLOSED", None, False, []

    def expect(self, now, op, k):
        """returns (expected result, clause text) and advances the reference state"""
        c = self.c
        if op == "Q":
            return ["Q", self.state], "state"
        if op == "A":
            if self.state == "CLOSED":
                return ["D", True, "CLOSED", None], "closed circuit admits"
            if self.state == "OPEN":
                if now - self.opened_at >= c["rto"]:
                    self.state, self.probe = "HALF_OPEN", True
                    return ["D", True, "HALF_OPEN", "circuit_half_open"], "after recovery_timeout_s exactly one probe is admitted"
                return ["D", False, "OPEN", "circuit_rejected"], "open circuit rejects until recovery_timeout_s has elapsed"
            if self.probe:
                return ["D", False, "HALF_OPEN", "circuit_rejected"], "all others are rejected until the probe's result is recorded"
            self.probe = True
            return ["D", True, "HALF_OPEN", None], "free half-open slot admits the next caller"
        if op == "S":
            if self.state == "HALF_OPEN":
                self.state, self.opened_at, self.probe, self.epoch = "CLOSED", None, False, []
                return ["E", "circuit_closed"], "a successful probe closes the circuit with an empty history"
            return ["E", None], "success while closed/open changes nothing"
        if op == "C":
            if self.state == "HALF_OPEN":
                self.probe = False
            return ["U"], "cancel"
        # failure
        if self.state == "HALF_OPEN":
            self.state, self.opened_at, self.probe, self.epoch = "OPEN", now, False, []
            return ["E", "circuit_opened"], "a failed probe re-opens with a fresh timeout"
        if self.state == "OPEN":
            return ["E", None], "failures while open are not counted"
        if k not in self.counted:
            return ["E", None], "failures of classes outside trip_on never contribute"
        self.epoch.append((now, k))
        live = [(t, kk) for (t, kk) in self.epoch if now - t < c["win"]]
        opens = len(live) >= c["thr"]
        if k in c["cthr"] and sum(1 for (_, kk) in live if kk == k) >= c["cthr"][k]:
            opens = True
        if opens:
            self.state, self.opened_at, self.epoch = "OPEN", now, []
            return ["E", "circuit_opened"], "opens at the moment counted failures in the window reach a threshold"
        return ["E", None], "stays closed below the thresholds (old / pre-transition failures do not count)"


def oracle(case, obs, want_closed):
    """First observed answer that contradicts the reference, attributed by the reference state before
    the operation: want_closed=True -> C06 clauses (state CLOSED), False -> C07 clauses."""
    if len(obs) != len(case["hist"]):
        return f"{len(obs)} answers for {len(case['hist'])} operations: {obs[:2]}"
    sp = Spec(case)
    now = case["t0"]
    for i, ((dt, op, k), r) in enumerate(zip(case["hist"], obs)):
        now += dt
        pre = sp.state
        exp, clause = sp.expect(now, op, k)
        if list(r) != exp:
            if (pre == "CLOSED") == want_closed:
                return f"op #{i} {op}{'(' + k + ')' if k else ''} at t={now} in state {pre}: observed {r}, expected {exp} — {clause}"
            return None  # the other property's business
    return None


def states_seen(case, obs):
    sp = Spec(case)
    now = case["t0"]
    seen = []
    for (dt, op, k) in case["hist"]:
        now += dt
        sp.expect(now, op, k)
        if not seen or seen[-1] != sp.state:
            seen.append(sp.state)
    return seen


def shrink(case, fails):
    cur = case
    changed = True
    while changed and len(cur["hist"]) > 1:
        changed = False
        cands = []
        for i in range(len(cur["hist"])):
            h = [list(x) for x in cur["hist"]]
            if i + 1 < len(h):
                h[i + 1][0] += h[i][0]
            del h[i]
            cands.append(dict(cur, hist=h))
        res = fails(cands)
        for c, bad in zip(cands, res):
            if bad:
                cur, changed = c, True
                break
    return cur


def run_breaker_part(chk, bias, want_closed, sel, theorems_ok, n_quick, n_thorough, ex_quick, ex_thorough, label):
    """generate, run on the implementation, compare in Coq (attributed), oracle, report"""
    import json, os
    corpus_p = os.path.join(common.VERIF, "corpus", f"{chk.pid}.json")
    cases = json.load(open(corpus_p)) if os.path.exists(corpus_p) else []
    cases = [c for c in cases if "hist" in c]
    n_rand = n_quick if chk.tier == "quick" else n_thorough
    cases += [gen_case(chk.rng, bias) for _ in range(n_rand)]
    exl = ex_quick if chk.tier == "quick" else ex_thorough
    ex = list(exhaustive_cases(exl))
    cases += ex
    obs = common.run_driver("breaker_driver", cases, jobs=8)
    failing, errors = [], []
    if theorems_ok:
        lits = [to_gallina(c, o) for c, o in zip(cases, obs)]
        failing, errors = common.coq_failing(chk.workdir, "breaker", "Base Breaker", "kcase",
                                             f"kcase_ok_in {sel}", lits, shard=1500)
    bad = [(i, m) for i, (c, o) in enumerate(zip(cases, obs)) for m in [oracle(c, o, want_closed)] if m]
    distinct = set()
    dist = {"opened": 0, "half_open": 0, "closed_again": 0, "rejected": 0}
    for c, o in zip(cases, obs):
        evs = [r[1] for r in o if r[0] == "E"] + [r[3] for r in o if r[0] == "D"]
        dist["opened"] += evs.count("circuit_opened")
        dist["half_open"] += evs.count("circuit_half_open")
        dist["closed_again"] += evs.count("circuit_closed")
        dist["rejected"] += evs.count("circuit_rejected")
        if "circuit_opened" in evs and (want_closed or "circuit_half_open" in evs):
            distinct.add(common.digest([c["thr"], c["win"], c["rto"], c["trip_on"], c["cthr"], c["hist"]]))
    cov = {
        "evaluations": len(cases), "distinct_nontrivial": len(distinct),
        "traces_validated_against_impl": 0 if errors else len(cases),
        "exhaustive_small_scope": {"max_len": exl, "histories": len(ex), "alphabet": 24, "configs": 3},
        "distribution": dist,
        "samples": [{"case": cases[i], "observed": obs[i]} for i in (0, len(cases) // 3)],
    }
    if errors:
        chk.violation({"kind": "correspondence-error", "what": "cases file did not evaluate", "errors": errors}, no_input=True)

    def fails_batch(cands):
        ob = common.run_driver("breaker_driver", cands)
        return [oracle(c, o, want_closed) is not None for c, o in zip(cands, ob)]

    if not want_closed and not bad:
        # C07: "a successful probe closes the circuit with an empty failure history" — from that point on the breaker must
        # answer exactly as a fresh one given the rest of the history (same configuration, same clock)
        tw = [(i, fresh_twin(c, o)) for i, (c, o) in enumerate(zip(cases, obs))]
        tw = [(i, t) for i, t in tw if t is not None]
        tobs = common.run_driver("breaker_driver", [t[0] for _, t in tw], jobs=8) if tw else []
        cov["closed_by_probe_compared_with_fresh_breaker"] = len(tw)
        for (i, (t, k)), to in zip(tw, tobs):
            if obs[i][k:] != to:
                j = next((j for j in range(min(len(to), len(obs[i]) - k)) if obs[i][k + j] != to[j]), 0)
                chk.violation({"kind": "oracle", "part": label, "fresh_twin": True,
                               "what": f"after the successful probe (operation #{k - 1}) closed the circuit, operation #{k + j} "
                                       f"{cases[i]['hist'][k + j]} answers {obs[i][k + j]} where a fresh breaker answers {to[j]}: the "
                                       "failure history was not emptied", "case": cases[i], "observed": obs[i], "fresh_case": t,
                               "fresh_observed": to, "driver": "breaker_driver", "want_closed": want_closed})
                break
    if bad:
        i, msg = bad[0]
        small = shrink(cases[i], fails_batch)
        so = common.run_driver("breaker_driver", [small])[0]
        chk.violation({"kind": "oracle", "part": label, "what": oracle(small, so, want_closed) or msg,
                       "case": small, "observed": so, "driver": "breaker_driver", "want_closed": want_closed,
                       "also_failing": len(bad), "model_disagrees_on_original": i in failing})
    elif failing:
        i = failing[0]
        chk.violation({"kind": "correspondence", "part": label,
                       "what": f"Breaker.kcase_ok_in {sel}: implementation answers differ from the Coq model of "
                       "circuit.py, so the theorems no longer describe this code; the property oracle found no "
                       "violated clause", "case": cases[i], "observed": obs[i], "driver": "breaker_driver",
                       "want_closed": want_closed, "disagreements": len(failing)}, no_input=True)
    return cov


def fresh_twin(c, o):
    """(case for a fresh breaker fed the operations after the first successful probe, index of the first of them) or None"""
    for k, r in enumerate(o):
        if r == ["E", "circuit_closed"] and k + 1 < len(c["hist"]):
            t = c["t0"] + sum(h[0] for h in c["hist"][:k + 1])
            rest = [list(h) for h in c["hist"][k + 1:]]
            return dict(c, t0=t, hist=rest), k + 1
    return None


def replay_breaker(path):
    import json
    r = json.load(open(path))
    if r.get("fresh_twin"):
        o = common.run_driver("breaker_driver", [r["case"]])[0]
        t, k = fresh_twin(r["case"], o)
        to = common.run_driver("breaker_driver", [t])[0]
        print("after the probe:", o[k:])
        print("fresh breaker  :", to)
        return 0 if o[k:] == to else 1
    o = common.run_driver("breaker_driver", [r["case"]])[0]
    msg = oracle(r["case"], o, r.get("want_closed", True))
    print("observed:", o)
    print("oracle:", msg or "holds")
    return 1 if msg else 0
