"""Entry point: ./check Cxx [--tier quick|thorough] [--replay path]"""
import importlib
import os
import sys
import traceback

sys.path.insert(0, os.path.dirname(os.path.abspath(__file__)))
import common  # noqa: E402


def main(argv):
    if len(argv) < 2:
        print("usage: check <property id> [--tier quick|thorough] [--replay path]")
        return 2
    pid = argv[1]
    tier, seed = common.tier_and_seed(argv)
    try:
        mod = importlib.import_module(f"props.{pid}")
    except ModuleNotFoundError:
        print(f"no check for {pid}")
        return 2
    if "--replay" in argv:
        path = argv[argv.index("--replay") + 1]
        return mod.replay(path)
    chk = common.Check(pid, tier, seed)
    try:
        mod.run(chk)
    except Exception as e:  # machinery failure: fail closed, say so
        traceback.print_exc()
        chk.violation(
            {"kind": "harness-error", "what": f"the check could not complete: {type(e).__name__}: {e}",
             "traceback": traceback.format_exc()[-3000:]},
            no_input=True,
        )
    return chk.finish(level=getattr(mod, "LEVEL", "proof"))


if __name__ == "__main__":
    sys.exit(main(sys.argv))
