"""Shared machinery for the redress verification checks (orchestrator side).

Nothing in this module imports redress: the implementation is always run by a separate
driver process (harness/drivers/*.py) under /venv/bin/python with PYTHONPATH=/repo/src, so that
the virtual clock installed there cannot disturb this process.
"""
from __future__ import annotations

import fcntl
import hashlib
import json
import os
import random
import re
import shutil
import subprocess
import sys
import time

VERIF = os.path.dirname(os.path.dirname(os.path.abspath(__file__)))
REPO = os.environ.get("VERIF_REPO", "/repo")
COQ = os.path.join(VERIF, "coq")
THEORIES = os.path.join(COQ, "theories")
PY = os.environ.get("VERIF_PYTHON", "/venv/bin/python")
NPROC = max(1, min(16, os.cpu_count() or 1))

TRUSTED_BASE_COMMON = [
    "Coq 8.16.1 kernel incl. vm_compute (no native_compute)",
    "hand-written Gallina model under /verif/coq/theories (tied to /repo only through the correspondence run)",
    "correspondence harness: Python drivers + virtual clock + Gallina literal printer + Base.failing",
]


# ----------------------------------------------------------------------------------------------
# Gallina literal printer
# ----------------------------------------------------------------------------------------------
class G:
    """Tiny Gallina term builder: G.z(3), G.con('EInvoke', G.z(1)), G.lst([...]), ..."""

    @staticmethod
    def z(n: int) -> str:
        n = int(n)
        return f"({n})%Z" if n < 0 else f"{n}%Z"

    @staticmethod
    def nat(n: int) -> str:
        assert 0 <= n < 5000, n
        return f"{int(n)}%nat"

    @staticmethod
    def b(x: bool) -> str:
        return "true" if x else "false"

    @staticmethod
    def opt(x, f=lambda y: y) -> str:
        return "None" if x is None else f"(Some {f(x)})"

    @staticmethod
    def lst(xs, f=lambda y: y) -> str:
        return "[" + "; ".join(f(x) for x in xs) + "]"

    @staticmethod
    def con(name: str, *args: str) -> str:
        return name if not args else "(" + " ".join((name,) + args) + ")"

    @staticmethod
    def pair(a: str, b: str) -> str:
        return f"({a}, {b})"

    @staticmethod
    def rec(**fields: str) -> str:
        return "{| " + "; ".join(f"{k} := {v}" for k, v in fields.items()) + " |}"


# ----------------------------------------------------------------------------------------------
# Coq build / evaluation
# ----------------------------------------------------------------------------------------------
def run(cmd, timeout, cwd=None, env=None, input=None):
    t0 = time.time()
    try:
        p = subprocess.run(cmd, cwd=cwd, env=env, input=input, capture_output=True, text=True, timeout=timeout)
        return p.returncode, p.stdout, p.stderr, time.time() - t0
    except subprocess.TimeoutExpired as e:
        out = e.stdout.decode() if isinstance(e.stdout, bytes) else (e.stdout or "")
        err = e.stderr.decode() if isinstance(e.stderr, bytes) else (e.stderr or "")
        return 124, out, err + "\nTIMEOUT", time.time() - t0


def build_coq(timeout=1500):
    """Full .vo build of the development (no-op when up to date).  Serialised by a file lock."""
    os.makedirs(os.path.join(VERIF, ".work"), exist_ok=True)
    lock = open(os.path.join(VERIF, ".work", "build.lock"), "w")
    fcntl.flock(lock, fcntl.LOCK_EX)
    try:
        if not os.path.exists(os.path.join(COQ, "Makefile")) or os.path.getmtime(
            os.path.join(COQ, "Makefile")
        ) < os.path.getmtime(os.path.join(COQ, "_CoqProject")):
            rc, out, err, _ = run(["coq_makefile", "-f", "_CoqProject", "-o", "Makefile"], 60, cwd=COQ)
            if rc != 0:
                return False, out + err
        rc, out, err, _ = run(["make", "-j", str(NPROC)], timeout, cwd=COQ)
        return rc == 0, out + err
    finally:
        fcntl.flock(lock, fcntl.LOCK_UN)
        lock.close()


HYGIENE_RE = re.compile(
    r"\b(Admitted|admit|Axiom|Axioms|Parameter|Parameters|Conjecture|Conjectures|Admit Obligations|"
    r"Unset Guard Checking|Unset Positivity Checking|Unset Universe Checking|bypass_check|"
    r"type-in-type|impredicative-set|native_compute)\b"
)


def strip_coq_comments(src: str) -> str:
    out, depth, i = [], 0, 0
    while i < len(src):
        if src.startswith("(*", i):
            depth += 1
            i += 2
        elif src.startswith("*)", i) and depth:
            depth -= 1
            i += 2
        else:
            if depth == 0:
                out.append(src[i])
            i += 1
    return "".join(out)


def hygiene():
    """Fail closed on Admitted/Axiom/... anywhere in the development (comments stripped)."""
    bad = []
    for root, _, files in list(os.walk(THEORIES)) + list(os.walk(os.path.join(COQ, "templates"))):
        for f in files:
            if f.endswith(".v") or f.endswith(".v.in"):
                p = os.path.join(root, f)
                src = strip_coq_comments(open(p).read())
                for m in HYGIENE_RE.finditer(src):
                    bad.append(f"{os.path.relpath(p, VERIF)}: {m.group(0)}")
                # Variable / Hypothesis outside a section
                depth = 0
                for line in src.splitlines():
                    s = line.strip()
                    if re.match(r"Section\s+\w+", s):
                        depth += 1
                    elif re.match(r"End\s+\w+", s) and depth:
                        depth -= 1
                    elif depth == 0 and re.match(r"(Variable|Variables|Hypothesis|Hypotheses|Context)\b", s):
                        bad.append(f"{os.path.relpath(p, VERIF)}: {s[:40]} outside a section")
    proj = open(os.path.join(COQ, "_CoqProject")).read()
    if "type-in-type" in proj or "impredicative-set" in proj:
        bad.append("_CoqProject: forbidden flag")
    return bad


def props_status(pid: str, workdir: str):
    """Re-check Props/<pid>.v in the work dir and collect its Print Assumptions output."""
    src_path = os.path.join(THEORIES, "Props", f"{pid}.v")
    src = open(src_path).read()
    code = strip_coq_comments(src)
    theorems = re.findall(r"^\s*(?:Theorem|Corollary)\s+(\w+)", code, re.M)
    examples = re.findall(r"^\s*Example\s+(\w+)", code, re.M)
    dst = os.path.join(workdir, f"PA_{pid}.v")
    shutil.copy(src_path, dst)
    rc, out, err, wall = run(["coqc", "-Q", THEORIES, "Redress", "-w", "none", dst], 900, cwd=workdir)
    closed = out.count("Closed under the global context")
    axioms = []
    if "Axioms:" in out:
        for blk in out.split("Axioms:")[1:]:
            for line in blk.splitlines():
                m = re.match(r"^(\S+)\s*:", line)
                if m:
                    axioms.append(m.group(1))
                elif line.strip() == "" or line.startswith("Closed"):
                    break
    return {
        "ok": rc == 0,
        "theorems": theorems,
        "examples": examples,
        "closed": closed,
        "axioms": sorted(set(axioms)),
        "output": (out + err)[-4000:],
        "wall_s": wall,
        "cmd": f"coqc -Q coq/theories Redress coq/theories/Props/{pid}.v (after make -C coq)",
    }


def _parse_nat_list(out: str):
    m = re.search(r"=\s*(\[.*?\])\s*:\s*list nat", out, re.S)
    if not m:
        return None
    return [int(x) for x in re.findall(r"\d+", m.group(1))]


def coq_failing(workdir, name, imports, typ, chk, literals, shard=300, timeout=900, extra_defs=""):
    """Evaluate [failing chk cases] inside Coq over the given case literals.

    Returns (failing_indices, errors).  Shards into <= shard cases per file, compiled in parallel.
    """
    files = []
    for k in range(0, len(literals), shard):
        chunk = literals[k : k + shard]
        path = os.path.join(workdir, f"cases_{name}_{k // shard}.v")
        with open(path, "w") as f:
            f.write(f"From Redress Require Import {imports}.\n")
            f.write("Local Open Scope Z_scope.\n")
            f.write(extra_defs + "\n")
            f.write(f"Definition cases : list ({typ}) := [\n")
            f.write(";\n".join(chunk))
            f.write("\n].\n")
            f.write(f"Eval vm_compute in (failing ({chk}) cases).\n")
        files.append((k, path))
    procs = []
    failing, errors = [], []
    pending = list(files)
    running = []
    env = dict(os.environ)
    while pending or running:
        while pending and len(running) < NPROC:
            k, path = pending.pop(0)
            p = subprocess.Popen(
                ["timeout", str(timeout), "coqc", "-Q", THEORIES, "Redress", "-w", "none", path],
                cwd=workdir,
                stdout=subprocess.PIPE,
                stderr=subprocess.PIPE,
                text=True,
                env=env,
            )
            running.append((k, path, p))
        k, path, p = running.pop(0)
        out, err = p.communicate()
        if p.returncode != 0:
            errors.append(f"{os.path.basename(path)}: rc={p.returncode} {err[-1500:]}")
            continue
        idx = _parse_nat_list(out)
        if idx is None:
            errors.append(f"{os.path.basename(path)}: unparsable output {out[-500:]}")
            continue
        failing.extend(k + i for i in idx)
    return sorted(failing), errors


def coq_eval(workdir, name, imports, expr, timeout=600, extra_defs=""):
    """Evaluate one expression with vm_compute and return Coq's printed output."""
    path = os.path.join(workdir, f"eval_{name}.v")
    with open(path, "w") as f:
        f.write(f"From Redress Require Import {imports}.\nLocal Open Scope Z_scope.\n{extra_defs}\n")
        f.write(f"Eval vm_compute in ({expr}).\n")
    rc, out, err, _ = run(["coqc", "-Q", THEORIES, "Redress", "-w", "none", path], timeout, cwd=workdir)
    return rc, out, err


# ----------------------------------------------------------------------------------------------
# Implementation drivers
# ----------------------------------------------------------------------------------------------
def driver_env():
    env = dict(os.environ)
    env["PYTHONPATH"] = os.path.join(REPO, "src")
    env["PYTHONHASHSEED"] = "0"
    env["PYTHONDONTWRITEBYTECODE"] = "1"
    env["REDRESS_VERIF"] = "1"
    return env


def run_driver(driver: str, payload, timeout=1800, jobs=1):
    """Run harness/drivers/<driver>.py on a JSON payload (a list of cases); returns list of results.

    With jobs > 1 the list is split into contiguous chunks run by parallel processes."""
    path = os.path.join(VERIF, "harness", "drivers", driver + ".py")
    if jobs <= 1 or len(payload) < 2 * jobs:
        chunks = [payload]
    else:
        n = (len(payload) + jobs - 1) // jobs
        chunks = [payload[i : i + n] for i in range(0, len(payload), n)]
    procs = []
    for ch in chunks:
        p = subprocess.Popen(
            [PY, "-B", path],
            stdin=subprocess.PIPE,
            stdout=subprocess.PIPE,
            stderr=subprocess.PIPE,
            text=True,
            env=driver_env(),
            cwd=VERIF,
        )
        procs.append((p, ch))
    # feed and collect (communicate sequentially; children run concurrently)
    import threading

    results = [None] * len(procs)

    def work(i, p, ch):
        try:
            out, err = p.communicate(json.dumps(ch), timeout=timeout)
            results[i] = (p.returncode, out, err)
        except subprocess.TimeoutExpired:
            p.kill()
            results[i] = (124, "", "driver timeout")

    ths = [threading.Thread(target=work, args=(i, p, ch)) for i, (p, ch) in enumerate(procs)]
    for t in ths:
        t.start()
    for t in ths:
        t.join()
    out_all = []
    for (rc, out, err), (_, ch) in zip(results, procs):
        if rc != 0:
            raise DriverError(f"driver {driver} failed rc={rc}: {err[-3000:]}")
        res = json.loads(out)
        if len(res) != len(ch):
            raise DriverError(f"driver {driver}: {len(res)} results for {len(ch)} cases")
        out_all.extend(res)
    return out_all


class DriverError(Exception):
    pass


# ----------------------------------------------------------------------------------------------
# Evidence / violations / known findings
# ----------------------------------------------------------------------------------------------
def canon(x) -> str:
    return json.dumps(x, sort_keys=True, separators=(",", ":"), default=str)


def digest(x) -> str:
    return hashlib.sha1(canon(x).encode()).hexdigest()[:12]


class Check:
    """Per-run context: tier, seed, work dir, counters, violation reporting, evidence writing."""

    def __init__(self, pid: str, tier: str, seed: int):
        self.pid, self.tier, self.seed = pid, tier, seed
        self.t0 = time.time()
        self.rng = random.Random(f"{pid}-{seed}")
        self.workdir = os.path.join(VERIF, ".work", f"{pid}-{os.getpid()}")
        os.makedirs(self.workdir, exist_ok=True)
        self.violations = []  # (replay_path, no_input)
        self.known_printed = []
        self.coverage = {}
        self.assumptions = []
        self.notes = []
        self.known = load_known_findings().get(pid, [])

    # -- violations ---------------------------------------------------------------------------
    def violation(self, replay: dict, no_input: bool = False, signature: str | None = None):
        """Report a violation (or a KNOWN-FINDING when its signature is listed)."""
        if signature is not None:
            for kf in self.known:
                if kf["key"] == signature:
                    if signature not in self.known_printed:
                        self.known_printed.append(signature)
                        print(f"KNOWN-FINDING: property={self.pid} {kf['text']}", flush=True)
                    return False
        os.makedirs(os.path.join(VERIF, "replays"), exist_ok=True)
        replay = dict(replay)
        replay.setdefault("property", self.pid)
        replay.setdefault("seed", self.seed)
        replay.setdefault("tier", self.tier)
        if signature:
            replay.setdefault("signature", signature)
        path = os.path.join(VERIF, "replays", f"{self.pid}-{digest(replay)}.json")
        with open(path, "w") as f:
            json.dump(replay, f, indent=1, sort_keys=True, default=str)
        # one VIOLATION line per distinct kind is enough; cap the noise
        if len(self.violations) < 5:
            tail = " no-failing-input-found" if no_input else ""
            print(f"VIOLATION property={self.pid} replay={path}{tail}", flush=True)
        self.violations.append((path, no_input))
        return True

    # -- evidence -----------------------------------------------------------------------------
    def finish(self, level="proof"):
        cov = dict(self.coverage)
        cov.setdefault("trusted_base", TRUSTED_BASE_COMMON)
        ev = {
            "property_id": self.pid,
            "tier": self.tier,
            "seed": self.seed,
            "level": level,
            "coverage": cov,
            "assumptions": self.assumptions,
            "wall_s": round(time.time() - self.t0, 2),
            "violations": len(self.violations),
            "known_findings_reproduced": self.known_printed,
            "notes": self.notes,
        }
        os.makedirs(os.path.join(VERIF, "evidence"), exist_ok=True)
        with open(os.path.join(VERIF, "evidence", f"{self.pid}.json"), "w") as f:
            json.dump(ev, f, indent=1, sort_keys=True, default=str)
        shutil.rmtree(self.workdir, ignore_errors=True)
        status = "FAIL" if self.violations else "ok"
        print(
            f"[{self.pid}] {status} tier={self.tier} seed={self.seed} wall={ev['wall_s']}s "
            f"obligations={cov.get('obligations')} evaluations={cov.get('evaluations')} "
            f"distinct_nontrivial={cov.get('distinct_nontrivial')} violations={len(self.violations)}",
            flush=True,
        )
        return 1 if self.violations else 0

    # -- the proof side -----------------------------------------------------------------------
    def check_theorems(self):
        """make, hygiene, re-check Props/<pid>.v; fill coverage.  Returns False when broken."""
        ok, log = build_coq()
        bad = hygiene()
        st = props_status(self.pid, self.workdir) if ok else None
        self.coverage["checker_cmd"] = (
            "make -C coq (coq_makefile, full .vo build) && " + (st["cmd"] if st else "coqc Props")
        )
        if bad:
            self.violation(
                {"kind": "hygiene", "what": "forbidden construct in the Coq development", "found": bad},
                no_input=True,
            )
        if not ok or not st["ok"]:
            self.coverage["obligations"] = max(1, len(st["theorems"]) if st else 1)
            self.coverage["discharged"] = 0
            self.violation(
                {
                    "kind": "broken-theorem",
                    "what": f"coq/theories/Props/{self.pid}.v (or a file it depends on) no longer compiles",
                    "log": (log if not ok else st["output"])[-3000:],
                },
                no_input=True,
            )
            return False
        n = len(st["theorems"])
        self.coverage["obligations"] = n
        self.coverage["discharged"] = n
        self.coverage["theorems"] = st["theorems"]
        self.coverage["nonvacuity_examples"] = st["examples"]
        self.coverage["print_assumptions"] = {
            "closed_under_global_context": st["closed"],
            "axioms": st["axioms"],
        }
        if st["closed"] < n and not st["axioms"]:
            self.notes.append(f"Print Assumptions printed for {st['closed']} of {n} theorems")
        if self.tier == "thorough":
            ck = coqchk_status(self.pid)
            self.coverage["coqchk"] = {k: v for k, v in ck.items() if k != "tail"}
            clean = all(ck.get(k) == "<none>" for k in ("axioms", "type_in_type", "unsafe_fixpoints", "assumed_positivity"))
            if not ck["ok"] or not clean:
                self.violation({"kind": "broken-theorem", "what": f"coqchk does not accept Redress.Props.{self.pid} with an empty context "
                                f"summary: {ck}"}, no_input=True)
                return False
        return True


def coqchk_status(pid: str):
    """Re-check the compiled property module and everything it depends on with Coq's independent checker; report its
    context summary (axioms, type-in-type, unsafe fixpoints, assumed positivity)."""
    rc, out, err, wall = run(["coqchk", "-silent", "-o", "-Q", "theories", "Redress", f"Redress.Props.{pid}"], 1500, cwd=COQ)
    text = out + err
    summary = {}
    for key, label in (("axioms", "Axioms"), ("type_in_type", "Constants/Inductives relying on type-in-type"),
                       ("unsafe_fixpoints", "Constants/Inductives relying on unsafe (co)fixpoints"),
                       ("assumed_positivity", "Inductives whose positivity is assumed")):
        m = re.search(r"\* " + re.escape(label) + r":(.*?)(?=\n\* |\Z)", text, re.S)
        summary[key] = " ".join(m.group(1).split()) if m else "?"
    ok = rc == 0
    return {"ok": ok, "seconds": round(wall, 1), **summary, "tail": "" if ok else text[-1500:]}


def load_known_findings():
    """known-findings.txt: 'finding: property=<id> key=<signature> <text>' and 'fixed: ...' lines."""
    out = {}
    p = os.path.join(VERIF, "known-findings.txt")
    if not os.path.exists(p):
        return out
    for line in open(p):
        line = line.strip()
        m = re.match(r"finding:\s+property=(\S+)\s+key=(\S+)\s+(.*)$", line)
        if m:
            out.setdefault(m.group(1), []).append({"key": m.group(2), "text": m.group(3)})
    return out


def tier_and_seed(argv):
    tier = os.environ.get("VERIF_TIER", "quick")
    if "--tier" in argv:
        tier = argv[argv.index("--tier") + 1]
    if tier not in ("quick", "thorough"):
        tier = "quick"
    try:
        seed = int(os.environ.get("VERIF_SEED", "0"))
    except ValueError:
        seed = 0
    return tier, seed
