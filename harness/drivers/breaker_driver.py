"""Run CircuitBreaker histories on the implementation.  stdin: JSON list of cases
{thr, win, rto, trip_on: [names]|null, cthr: {name: n}, t0, hist: [[dt, op, klass|null]]}."""
import json
import sys

sys.path.insert(0, __file__.rsplit("/", 1)[0])
import vclock

CLOCK = vclock.install()
from redress.circuit import CircuitBreaker  # noqa: E402
from redress.errors import ErrorClass  # noqa: E402


def enc_state(s):
    return getattr(s, "name", repr(s))


def run_case(c):
    CLOCK.ticks = c["t0"]
    kw = {}
    shared = None
    if c.get("trip_on") is not None:
        shared = kw["trip_on"] = {ErrorClass[n] for n in c["trip_on"]}
    if c.get("cthr"):
        kw["class_thresholds"] = {ErrorClass[n]: v for n, v in c["cthr"].items()}
    try:
        if shared is not None:
            # the caller's set object is the caller's: another breaker built from the same object (with a class threshold on a
            # class outside it), and a later change of the set, must leave this breaker's configuration alone
            outside = [k for k in ErrorClass if k not in shared and k.name not in (c.get("cthr") or {})]
            if outside:
                CircuitBreaker(failure_threshold=1, window_s=1.0, recovery_timeout_s=1.0, trip_on=shared, class_thresholds={outside[0]: 1})
        b = CircuitBreaker(
            failure_threshold=c["thr"], window_s=c["win"] * vclock.TICK,
            recovery_timeout_s=c["rto"] * vclock.TICK, **kw)
        if shared is not None:
            shared.update(ErrorClass)
    except Exception as e:
        return [["CTOR", type(e).__name__]]
    out = []
    for dt, op, k in c["hist"]:
        CLOCK.ticks += dt
        try:
            if op == "A":
                d = b.allow()
                out.append(["D", bool(d.allowed), enc_state(d.state), d.event])
            elif op == "S":
                out.append(["E", b.record_success()])
            elif op == "F":
                out.append(["E", b.record_failure(ErrorClass[k])])
            elif op == "C":
                r = b.record_cancel()
                out.append(["U"] if r is None else ["U?", repr(r)])
            else:
                out.append(["Q", enc_state(b.state)])
        except Exception as e:
            out.append(["X", type(e).__name__])
    return out


if __name__ == "__main__":
    cases = json.load(sys.stdin)
    json.dump([run_case(c) for c in cases], sys.stdout)
