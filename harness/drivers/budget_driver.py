"""Run Budget histories on the implementation.  stdin: JSON list of cases
{max, win, t0, hist: [[dt, op, cost]]}; stdout: JSON list of result lists."""
import json
import sys

sys.path.insert(0, __file__.rsplit("/", 1)[0])
import vclock

CLOCK = vclock.install()
from redress.budget import Budget  # noqa: E402


def run_case(c):
    CLOCK.ticks = c["t0"]
    try:
        b = Budget(max_retries=c["max"], window_s=c["win"] * vclock.TICK)
    except Exception as e:  # constructor rejects
        return ["CTOR:" + type(e).__name__]
    out = []
    for dt, op, cost in c["hist"]:
        CLOCK.ticks += dt
        try:
            if op == "C":
                r = b.consume(cost)
                out.append("G" if r is True else "R" if r is False else "?%r" % (r,))
            elif op == "C0":  # default cost
                r = b.consume()
                out.append("G" if r is True else "R" if r is False else "?%r" % (r,))
            else:
                r = b.remaining()
                out.append(int(r) if isinstance(r, int) and not isinstance(r, bool) else "?%r" % (r,))
        except ValueError:
            out.append("E")
        except Exception as e:
            out.append("X:" + type(e).__name__)
    return out


if __name__ == "__main__":
    cases = json.load(sys.stdin)
    json.dump([run_case(c) for c in cases], sys.stdout)
