"""C01 with calls that overlap on ONE policy object: the counters of a call are its own, whatever other calls on the same object
do while it runs.  stdin: JSON list of cases
  {"kind": "nested" (sync: the retried operation itself makes a complete call on the same policy before it fails) |
           "tasks" (async: a second coroutine makes complete calls on the same policy while the first is suspended in its backoff),
   "klass": "TRANSIENT"|"UNKNOWN"|..., "cap": {"per_class": n} | {"unknown": n}, "max_attempts": m, "mode": "call"|"execute",
   "inner_failures": k (the inner call fails k times with the same class, then succeeds)}
stdout per case: {"outer_invocations": n, "inner_invocations": [..per inner call..], "end": how the outer call ended}"""
import json
import sys

sys.path.insert(0, __file__.rsplit("/", 1)[0])
import vclock

CLOCK = vclock.install()
from redress import AsyncRetry, ErrorClass, Retry  # noqa: E402
from redress.errors import RetryExhaustedError  # noqa: E402


class Fail(Exception):
    pass


def mk_kwargs(c):
    k = ErrorClass[c["klass"]]
    kw = dict(classifier=lambda e: k, strategy=lambda ctx: 0.0, max_attempts=c["max_attempts"], deadline_s=10**6 * vclock.TICK,
              max_unknown_attempts=c["cap"].get("unknown", None))
    if "per_class" in c["cap"]:
        kw["per_class_max_attempts"] = {k: c["cap"]["per_class"]}
    return kw


def ended(f):
    try:
        r = f()
        return ["outcome", r.stop_reason.name if r.stop_reason else None, r.attempts] if hasattr(r, "stop_reason") else ["return"]
    except Fail:
        return ["raise_op"]
    except RetryExhaustedError as e:
        return ["exhausted", e.stop_reason.name]
    except BaseException as e:  # noqa: BLE001
        return ["raise", type(e).__name__, str(e)[:100]]


def nested(c):
    pol = Retry(sleeper=lambda s: None, **mk_kwargs(c))
    outer, inner = [0], []

    def helper_factory():
        n = [0]

        def helper():
            n[0] += 1
            if n[0] <= c["inner_failures"]:
                raise Fail("inner")
            return "token"
        inner.append(n)
        return helper

    def op():
        outer[0] += 1
        pol.call(helper_factory())          # a complete call on the same policy object, inside the attempt
        raise Fail("outer")
    end = ended(lambda: getattr(pol, c["mode"])(op))
    return {"outer_invocations": outer[0], "inner_invocations": [n[0] for n in inner], "end": end}


def tasks(c):
    outer, inner = [0], []
    pending = []

    class Suspend:
        def __await__(self):
            yield self

    async def sleeper(s):
        await Suspend()                       # the first task is parked here while the second one works

    async def quick(s):
        return None
    kw = mk_kwargs(c)
    pol = AsyncRetry(sleeper=sleeper, **kw)

    async def op():
        outer[0] += 1
        raise Fail("outer")

    async def other():
        n = [0]
        inner.append(n)

        async def helper():
            n[0] += 1
            if n[0] <= c["inner_failures"]:
                raise Fail("inner")
            return "token"
        return await pol.call(helper, sleeper=quick)

    def drive(coro):
        try:
            while True:
                coro.send(None)
                # the first task is suspended in its backoff: run a complete call of the second task on the same policy
                o = other()
                try:
                    while True:
                        o.send(None)
                except StopIteration:
                    pass
        except StopIteration as si:
            return si.value
    end = ended(lambda: drive(getattr(pol, c["mode"])(op)))
    return {"outer_invocations": outer[0], "inner_invocations": [n[0] for n in inner], "end": end}


if __name__ == "__main__":
    out = []
    for c in json.load(sys.stdin):
        try:
            out.append(nested(c) if c["kind"] == "nested" else tasks(c))
        except BaseException as e:  # noqa: BLE001
            out.append({"outer_invocations": -1, "inner_invocations": [], "end": ["driver_error", type(e).__name__, str(e)[:200]]})
    json.dump(out, sys.stdout)
