"""C04 with values that carry no identity of their own: the operation returns None / 0 / 0.0 / "" / [] / False (or an ordinary
object) and the result classifier decides by the value itself.  stdin: JSON list of cases
  {"value": "none"|"zero"|"zerof"|"empty"|"list"|"false"|"obj", "fails": k (the first k attempts return that value, classified
   TRANSIENT; then the attempt returns "ok"), "max_attempts": n, "async": bool, "mode": "call"|"execute"}
stdout per case: {"invocations": n, "classified": [repr of every value the result classifier was asked about],
                  "end": ["return", repr] | ["exhausted", stop_reason, attempts, last_result: none|value|other] | ["outcome", ok, repr(value),
                  stop_reason, attempts, last_result: none|value|other] | ["raise", type]}"""
import json
import sys

sys.path.insert(0, __file__.rsplit("/", 1)[0])
import vclock

CLOCK = vclock.install()
from redress import AsyncRetry, ErrorClass, Retry  # noqa: E402
from redress.errors import RetryExhaustedError  # noqa: E402

SENTINEL = object()
VALUES = {"none": None, "zero": 0, "zerof": 0.0, "empty": "", "list": [], "false": False, "obj": SENTINEL}


def run(c):
    v = VALUES[c["value"]]
    n = [0]
    asked = []

    def finish():
        n[0] += 1
        return v if n[0] <= c["fails"] else "ok"

    def last(x):
        return "none" if x is None else "value" if x is v else "other"

    def rc(r):
        asked.append(repr(r) if r is not SENTINEL else "obj")
        return ErrorClass.TRANSIENT if (r is v and r != "ok") else None

    kw = dict(classifier=lambda e: ErrorClass.UNKNOWN, result_classifier=rc, strategy=lambda ctx: 0.0, max_attempts=c["max_attempts"],
              deadline_s=10**6 * vclock.TICK)
    try:
        if c["async"]:
            async def op():
                return finish()

            async def nosleep(_s):
                return None
            coro = getattr(AsyncRetry(sleeper=nosleep, **kw), c["mode"])(op)
            try:
                coro.send(None)
                raise AssertionError("suspended")
            except StopIteration as si:
                r = si.value
        else:
            r = getattr(Retry(sleeper=lambda s: None, **kw), c["mode"])(finish)
        if c["mode"] == "execute":
            end = ["outcome", bool(r.ok), repr(r.value), r.stop_reason.name if r.stop_reason else None, r.attempts, last(r.last_result)]
        else:
            end = ["return", repr(r)]
    except RetryExhaustedError as e:
        end = ["exhausted", e.stop_reason.name if e.stop_reason else None, e.attempts, last(e.last_result)]
    except BaseException as e:  # noqa: BLE001
        end = ["raise", type(e).__name__]
    return {"invocations": n[0], "classified": asked, "end": end}


if __name__ == "__main__":
    json.dump([run(c) for c in json.load(sys.stdin)], sys.stdout)
