"""Replays the two known findings of C07 on the real code (hand-driven overlap of two calls).
stdin: JSON list (ignored entries); stdout: JSON list with one dict {"unadmitted_cancel": bool, "stale_settle": bool}
True = the finding still reproduces (two probes in flight / circuit closed while the probe is outstanding)."""
import json
import sys

sys.path.insert(0, __file__.rsplit("/", 1)[0])
import vclock

CLOCK = vclock.install()
from redress import CircuitBreaker, ErrorClass, Policy  # noqa: E402


def mk():
    return CircuitBreaker(failure_threshold=1, window_s=100 * vclock.TICK, recovery_timeout_s=5 * vclock.TICK,
                          trip_on={ErrorClass.TRANSIENT})


def unadmitted_cancel():
    """probe P is admitted and outstanding; a no-retry policy call whose abort_if answers True calls record_cancel
    without ever having been admitted; the next caller is then admitted as a second probe"""
    CLOCK.ticks = 0
    b = mk()
    b.record_failure(ErrorClass.TRANSIENT)
    CLOCK.ticks = 5
    p = b.allow()                      # probe P admitted, still running
    assert p.allowed and b._probe_in_flight
    pol = Policy(retry=None, circuit_breaker=b)
    out = pol.execute(lambda: 1, abort_if=lambda: True)     # never admitted
    q = b.allow()                      # another caller
    return bool(out.attempts == 0 and q.allowed)            # two probes in flight


def stale_settle():
    """call A is admitted while CLOSED and is slow; the circuit opens and, after the timeout, probe P is admitted;
    A then succeeds: its record_success closes the circuit although P has not reported"""
    CLOCK.ticks = 0
    b = mk()
    a = b.allow()                      # call A admitted (CLOSED), still running
    b.record_failure(ErrorClass.TRANSIENT)   # some other call fails -> OPEN
    CLOCK.ticks = 5
    p = b.allow()                      # probe P admitted
    assert a.allowed and p.allowed and b._probe_in_flight
    ev = b.record_success()            # A ends
    return bool(ev == "circuit_closed" and b.state.name == "CLOSED")


if __name__ == "__main__":
    json.load(sys.stdin)
    json.dump([{"unadmitted_cancel": unadmitted_cancel(), "stale_settle": stale_settle()}], sys.stdout)
