"""C08 fault injection outside the retry-loop model: raising attempt hooks, classifiers, result classifiers and strategies.

stdin : JSON list of scenarios
  {"async": bool, "mode": "call"|"execute", "retry": bool, "max_attempts": n, "ops": [["V"] | ["V", klass] | ["R", klass] | ["X", i] (exception with the i-th set of odd status/code attributes) ...],
   "fault": {"where": "attempt_start"|"attempt_end"|"classifier"|"result_classifier"|"strategy"|"before_sleep"|"on_metric"|"on_log",
             "nth": k (the k-th invocation of that callback raises, 1-based), "exc": "value"|"runtime"|"keyboard"|"cancelled"|"genexit"},
   "pre": "closed"|"half_open"}     # half_open: the call under test is the probe after a recovery timeout
stdout: per scenario {"log": breaker API calls of the call under test, "end": how it ended, "state": [state, probe_in_flight],
                      "next_admitted": bool  -- after recovery_timeout more ticks, is the next allow() admitted?}
"""
import asyncio
import json
import sys
import traceback

sys.path.insert(0, __file__.rsplit("/", 1)[0])
import vclock

CLOCK = vclock.install()
from redress import AsyncPolicy, AsyncRetry, CircuitBreaker, CircuitOpenError, ErrorClass, Policy, Retry  # noqa: E402
from redress.errors import AbortRetryError, RetryExhaustedError  # noqa: E402
from redress import SleepDecision  # noqa: E402

EXC = {"value": ValueError, "runtime": RuntimeError, "keyboard": KeyboardInterrupt, "cancelled": asyncio.CancelledError,
       "genexit": GeneratorExit, "sysexit": SystemExit}
STATUS_OF = {"AUTH": 401, "PERMISSION": 403, "PERMANENT": 404, "CONCURRENCY": 409, "RATE_LIMIT": 429, "SERVER_ERROR": 503,
             "TRANSIENT": 408}


class Scripted(Exception):
    pass


ODD_ATTRS = [{"code": "ECONNRESET"}, {"status": "503"}, {"status": " 42 "}, {"status": None, "code": "x"}, {"status": 3.5}, {"code": b"500"},
             {"status": [500]}, {"status": "", "code": "٥٠٣"}, {"status_code": "abc"}, {"code": float("nan")}, {"status": object()}]


class Injected(Exception):
    pass


# exceptions whose status / code cannot even be read (a property that raises, a value whose truth test raises): for the entry
# points without retry component default_classifier then raises inside the exception handler - a raising classifier
RAISING_SHAPES = ["status_property_raises", "code_property_raises", "status_bool_raises"]


class Spy(CircuitBreaker):
    def __init__(self, **kw):
        super().__init__(**kw)
        self.log = []

    def allow(self):
        d = super().allow()
        self.log.append(["allow", bool(d.allowed), d.state.name])
        return d

    def record_success(self):
        r = super().record_success()
        self.log.append(["success"])
        return r

    def record_failure(self, klass):
        r = super().record_failure(klass)
        self.log.append(["failure", getattr(klass, "name", repr(klass))])
        return r

    def record_cancel(self):
        r = super().record_cancel()
        self.log.append(["cancel"])
        return r


def run(sc):
    CLOCK.ticks = 1000
    b = Spy(failure_threshold=1, window_s=1000 * vclock.TICK, recovery_timeout_s=5 * vclock.TICK,
            trip_on={ErrorClass.TRANSIENT, ErrorClass.SERVER_ERROR})
    if sc["pre"] == "half_open":
        b.record_failure(ErrorClass.TRANSIENT)
        CLOCK.ticks += 5
    b.log.clear()
    counts = {}
    fault = sc.get("fault")

    def maybe(where):
        counts[where] = counts.get(where, 0) + 1
        if fault and fault["where"] == where and counts[where] == fault["nth"]:
            e = EXC[fault["exc"]]
            raise (Injected("injected fault in " + where) if e is ValueError else e("injected fault in " + where))

    att = [0]

    def finish():
        i = att[0]
        att[0] += 1
        o = sc["ops"][i] if i < len(sc["ops"]) else ["V"]
        if o[0] == "V":
            return ("value", i, o[1] if len(o) > 1 else None)
        e = Scripted("scripted failure")
        if o[0] == "X" and isinstance(o[1], str):
            class Unreadable:
                def __bool__(self):
                    raise RuntimeError("truth value not available")

            def boom(self):
                raise RuntimeError("attribute not available")
            ns = {"status_property_raises": {"status": property(boom)}, "code_property_raises": {"code": property(boom)},
                  "status_bool_raises": {"status": Unreadable()}}[o[1]]
            e = type("Scripted", (Scripted,), ns)("scripted failure")
            e.klass = "UNKNOWN"
            raise e
        if o[0] == "X":
            # an exception carrying status / code attributes of unusual types: whatever default_classifier makes of them (C19), the
            # call must still settle
            for k, v in ODD_ATTRS[o[1]].items():
                setattr(e, k, v)
            e.klass = "UNKNOWN"
            raise e
        e.klass = o[1]
        if not sc["retry"] and o[1] in STATUS_OF:
            e.status = STATUS_OF[o[1]]
        raise e

    def classifier(exc):
        maybe("classifier")
        return ErrorClass[getattr(exc, "klass", "UNKNOWN")]

    def result_classifier(val):
        maybe("result_classifier")
        k = val[2] if isinstance(val, tuple) else None
        return None if k is None else ErrorClass[k]

    def strategy(ctx):
        maybe("strategy")
        return 0.0

    kw = dict(classifier=classifier, result_classifier=result_classifier, strategy=strategy, max_attempts=sc["max_attempts"],
              deadline_s=10**6 * vclock.TICK)
    def abort_if():
        maybe("abort_if")
        return False

    def handler(ctx, s):
        maybe("handler")
        return SleepDecision.SLEEP

    ckw = dict(on_attempt_start=lambda ctx: maybe("attempt_start"), on_attempt_end=lambda ctx: maybe("attempt_end"),
               on_metric=lambda *a, **k: maybe("on_metric"), on_log=lambda *a, **k: maybe("on_log"), abort_if=abort_if)
    if sc["retry"]:
        ckw["sleep"] = handler
    end = None
    try:
        if sc["async"]:
            async def op():
                return finish()

            async def nosleep(_s):
                maybe("sleeper")
                return None

            async def bs(ctx, s):
                maybe("before_sleep")
            retry = AsyncRetry(sleeper=nosleep, before_sleep=bs, **kw) if sc["retry"] else None
            pol = AsyncPolicy(retry=retry, circuit_breaker=b)
            coro = getattr(pol, sc["mode"])(op, **ckw)
            try:
                coro.send(None)
                raise AssertionError("coroutine suspended")
            except StopIteration as si:
                r = si.value
        else:
            def bs(ctx, s):
                maybe("before_sleep")
            retry = Retry(sleeper=lambda s: maybe("sleeper"), before_sleep=bs, **kw) if sc["retry"] else None
            pol = Policy(retry=retry, circuit_breaker=b)
            r = getattr(pol, sc["mode"])(finish, **ckw)
        end = ["return", "outcome" if hasattr(r, "stop_reason") else "value"]
    except BaseException as e:  # noqa: BLE001
        name = type(e).__name__
        end = ["raise", name, str(e)[:120]]
    log = list(b.log)
    state = [b._state.name, bool(b._probe_in_flight)]
    CLOCK.ticks += 5
    nxt = b.allow()
    return {"log": log, "end": end, "state": state, "next_admitted": bool(nxt.allowed), "counts": counts}


if __name__ == "__main__":
    out = []
    for sc in json.load(sys.stdin):
        try:
            out.append(run(sc))
        except Exception:
            out.append({"log": [], "end": ["driver_error", traceback.format_exc()[-1500:]], "state": [], "next_admitted": False, "counts": {}})
    json.dump(out, sys.stdout)
