"""Replays the two known findings of C12 on the real code.  stdout: [{"nested_coe": bool, "result_path_callback_error": bool}]
True = still reproduces."""
import json
import sys

sys.path.insert(0, __file__.rsplit("/", 1)[0])
import vclock

CLOCK = vclock.install()
from redress import CircuitBreaker, ErrorClass, Policy, Retry  # noqa: E402
from redress.errors import CircuitOpenError  # noqa: E402


class Spy(CircuitBreaker):
    def __init__(self, **kw):
        super().__init__(**kw)
        self.log = []

    def record_success(self):
        self.log.append("S")
        return super().record_success()

    def record_failure(self, klass):
        self.log.append("F")
        return super().record_failure(klass)

    def record_cancel(self):
        self.log.append("C")
        return super().record_cancel()


def nested_coe():
    """the operation raises CircuitOpenError: call() does not count it, execute() records a failure"""
    out = {}
    for mode in ("call", "execute"):
        b = Spy(failure_threshold=5, window_s=10.0, recovery_timeout_s=1.0)
        pol = Policy(retry=Retry(classifier=lambda e: ErrorClass.TRANSIENT, strategy=lambda ctx: 0.0, max_attempts=1,
                                 deadline_s=100.0), circuit_breaker=b)

        def op():
            raise CircuitOpenError("open")
        try:
            getattr(pol, mode)(op, sleeper=lambda s: None)
        except CircuitOpenError:
            pass
        out[mode] = list(b.log)
    return out["call"] != out["execute"]


class Boom(Exception):
    pass


def result_path_callback_error():
    """a strategy raising while a RESULT failure is handled propagates out of call() but is handled by execute() as
    an exception-caused attempt failure (and retried)"""
    res = {}
    for mode in ("call", "execute"):
        calls, st = [], []

        def op():
            calls.append(1)
            return "bad" if len(calls) < 3 else "ok"

        def strat(ctx):
            st.append(1)
            if len(st) == 1:
                raise Boom()
            return 0.0
        r = Retry(classifier=lambda e: ErrorClass.TRANSIENT,
                  result_classifier=lambda v: ErrorClass.TRANSIENT if v == "bad" else None,
                  strategy=strat, max_attempts=5, deadline_s=100.0)
        try:
            getattr(r, mode)(op, sleeper=lambda s: None)
            res[mode] = ("returned", len(calls))
        except Boom:
            res[mode] = ("raised", len(calls))
    return res["call"] != res["execute"]


if __name__ == "__main__":
    json.load(sys.stdin)
    json.dump([{"nested_coe": nested_coe(), "result_path_callback_error": result_path_callback_error()}], sys.stdout)
