"""C20 end to end: a policy whose classifier is http_retry_after_classifier and whose strategy is retry_after_or.
stdin : JSON list of cases {"header": str | None, "attr": number | str | None, "fallback": ticks, "jitter": ticks, "deadline": ticks, ["att_timeout": ticks,]
                            "async": bool, "entry": "retry" | "retrypolicy" | "policy", "r": [num, den] draw}
stdout: per case {"hint": seconds the classifier produced (None / number / "nan" ...), "delays": [ticks the sleeper received],
                  "end": how the call ended}
The operation fails once with a 429 carrying the hint and then succeeds; no time passes except in the sleeper."""
import json
import random
import os
import sys
import time as _time

# a process east of Greenwich: a Retry-After date without a zone means GMT, whatever the local zone is
os.environ["TZ"] = "JST-9"
_time.tzset()
import traceback
from fractions import Fraction

sys.path.insert(0, __file__.rsplit("/", 1)[0])
import vclock

CLOCK = vclock.install()
from redress import AsyncPolicy, AsyncRetry, AsyncRetryPolicy, Policy, Retry, RetryPolicy  # noqa: E402
from redress.classify import Classification  # noqa: E402
from redress.extras.http import http_retry_after_classifier  # noqa: E402
from redress.strategies import retry_after_or  # noqa: E402
import redress.strategies as S  # noqa: E402


class HttpError(Exception):
    pass


def enc(x):
    if x is None:
        return None
    if x != x:
        return "nan"
    if x in (float("inf"), float("-inf")):
        return "inf" if x > 0 else "-inf"
    f = Fraction(x)
    return [f.numerator, f.denominator]


def run(c):
    CLOCK.ticks = 1000
    r = Fraction(*c["r"])
    S.random.uniform = lambda a, b: a + (b - a) * float(r)
    hints, delays = [], []

    def classifier(exc):
        k = http_retry_after_classifier(exc)
        hints.append(enc(k.retry_after_s) if isinstance(k, Classification) else None)
        return k

    fb = c["fallback"] * vclock.TICK
    kw = dict(classifier=classifier, strategy=retry_after_or(lambda ctx: fb, jitter_s=c["jitter"] * vclock.TICK), max_attempts=3,
              deadline_s=c["deadline"] * vclock.TICK)
    if c.get("att_timeout"):
        kw["attempt_timeout_s"] = c["att_timeout"] * vclock.TICK      # time-boxed attempts: no influence on how the hint is honoured
    n = [0]

    def fail_once():
        n[0] += 1
        if n[0] == 1:
            e = HttpError("rate limited")
            e.status = 429
            if c["header"] is not None:
                e.headers = {"Retry-After": c["header"]}
            if c["attr"] is not None:
                e.retry_after = c["attr"]
            raise e
        return "done"

    def sleeper(s):
        delays.append(vclock.to_ticks(s))

    try:
        if c["async"]:
            async def op():
                return fail_once()

            async def asleeper(s):
                sleeper(s)
            base = {"retry": AsyncRetry, "retrypolicy": AsyncRetryPolicy}.get(c["entry"])
            obj = base(sleeper=asleeper, **kw) if base else AsyncPolicy(retry=AsyncRetry(sleeper=asleeper, **kw))
            coro = obj.call(op)
            try:
                coro.send(None)
                raise AssertionError("suspended")
            except StopIteration as si:
                out = si.value
        else:
            base = {"retry": Retry, "retrypolicy": RetryPolicy}.get(c["entry"])
            obj = base(sleeper=sleeper, **kw) if base else Policy(retry=Retry(sleeper=sleeper, **kw))
            out = obj.call(fail_once)
        end = ["return", out]
    except BaseException as e:  # noqa: BLE001
        end = ["raise", type(e).__name__, str(e)[:100]]
    return {"hint": hints[0] if hints else None, "delays": delays, "end": end}


if __name__ == "__main__":
    res = []
    for c in json.load(sys.stdin):
        try:
            res.append(run(c))
        except Exception:
            res.append({"hint": None, "delays": [], "end": ["driver_error", traceback.format_exc()[-1200:]]})
    json.dump(res, sys.stdout)
