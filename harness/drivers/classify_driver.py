"""Runs the built-in classifiers of /repo on generated exception objects.  stdin: JSON list of specs; stdout: per spec
{"default":..,"strict":..,"http":..,"sqlstate":..,"pyodbc":..,"optional":{name: result}} with ErrorClass names or "raised:<Type>"."""
import importlib
import json
import sys

sys.path.insert(0, __file__.rsplit("/", 1)[0])
import vclock

vclock.install()
from redress.classify import default_classifier, strict_classifier  # noqa: E402
from redress.errors import ConcurrencyError, PermanentError, RateLimitError, ServerError  # noqa: E402
from redress.extras import (  # noqa: E402
    aiohttp_classifier, boto3_classifier, grpc_classifier, http_classifier, pyodbc_classifier, redis_classifier,
    sqlstate_classifier, urllib3_classifier,
)

BASES = {"plain": Exception, "timeout": TimeoutError, "permanent": PermanentError, "ratelimit": RateLimitError,
         "concurrency": ConcurrencyError, "server": ServerError}
OPTIONAL = {"aiohttp": ("aiohttp.client_exceptions", aiohttp_classifier), "grpc": ("grpc", grpc_classifier),
            "boto3": ("botocore.exceptions", boto3_classifier), "redis": ("redis.exceptions", redis_classifier),
            "urllib3": ("urllib3.exceptions", urllib3_classifier)}
ABSENT = {}
for name, (mod, f) in OPTIONAL.items():
    try:
        importlib.import_module(mod)
        ABSENT[name] = False
    except Exception:
        ABSENT[name] = True


def present_then_absent():
    """each absent optional library is made importable once (a stand-in module that answers any attribute with a fresh exception
    class), its classifier is called, and the stand-in is removed again: whatever the classifier remembered must not survive — with
    the library absent it has to equal default_classifier"""
    import types

    class Stub(types.ModuleType):
        def __getattr__(self, name):
            if name.startswith("__"):
                raise AttributeError(name)
            k = type(name, (Exception,), {})
            setattr(self, name, k)
            return k

    for name, (mod, f) in OPTIONAL.items():
        if not ABSENT[name]:
            continue
        parts = mod.split(".")
        names = [".".join(parts[:i + 1]) for i in range(len(parts))]
        added = [n for n in names if n not in sys.modules]
        stubs = {n: Stub(n) for n in added}
        for n in added:
            sys.modules[n] = stubs[n]
        for n in added:                      # parent.child attribute links
            if "." in n and n.rsplit(".", 1)[0] in stubs:
                setattr(stubs[n.rsplit(".", 1)[0]], n.rsplit(".", 1)[1], stubs[n])
        try:
            for e in (Exception("x"), TimeoutError("t")):
                try:
                    f(e)
                except BaseException:  # noqa: BLE001
                    pass
        finally:
            for n in added:
                sys.modules.pop(n, None)
        importlib.invalidate_caches()
        # the classes the classifier asked the stand-in for: with the library gone, their instances are ordinary exceptions
        asked = [v for st in stubs.values() for k, v in vars(st).items() if isinstance(v, type) and issubclass(v, Exception)]
        for k in asked:
            e = k("x")
            a, b = call(f, e), call(default_classifier, e)
            if a != b and name not in STALE:
                STALE[name] = f"stale-import:{k.__name__}:{a}-vs-default-{b}"


STALE = {}


def call(f, e):
    try:
        r = f(e)
        return getattr(r, "name", "bad:" + repr(r)[:40])
    except BaseException as x:  # noqa: BLE001
        return "raised:" + type(x).__name__


present_then_absent()


class Plain:
    pass


def mk_value(s):
    t = s["t"]
    if t == "none":
        return None
    if t == "bool":
        return bool(s["v"])
    if t == "int":
        return int(s["v"])
    if t == "bigint":
        return (-1 if s["neg"] else 1) * 10 ** s["exp"]
    if t == "float":
        return float(s["v"])
    if t == "str":
        return s["v"]
    if t == "bytes":
        return s["v"].encode()
    if t == "list":
        return list(s["items"]) if "items" in s else list(range(s["n"]))
    if t == "tuple":
        return tuple(s["items"]) if "items" in s else tuple(range(s["n"]))
    if t == "dict":
        return {i: i for i in range(s["n"])}
    if t == "obj":
        return Plain()
    raise AssertionError(t)


TYPES = {}


def _raising_str(self):
    raise RuntimeError("this exception cannot be rendered")


def mk_exc(spec):
    # one class object per (name, base) for the whole run: classifiers must be functions of the exception, so answers may
    # not depend on which classifier saw an exception type first (per-type caches, registries)
    shadow = spec.get("args_attr")
    own = {}
    if shadow is not None:
        # the type defines `args` itself (as a dataclass with a field of that name does): instances then keep whatever is
        # assigned to it
        own["args"] = None
    if spec.get("cls_level"):
        # status / status_code / code / sqlstate live on the type (class constants; a property or a slot reads the same way)
        own.update({k: mk_value(v) for k, v in spec["attrs"].items()})
    if spec.get("str_raises"):
        own["__str__"] = own["__repr__"] = _raising_str      # classifiers look at attributes and args, never at the rendering
    if spec.get("cls_level") or spec.get("str_raises"):
        cls = type(spec["name"], (BASES[spec["base"]],), own)
    else:
        key = (spec["name"], spec["base"], shadow is not None)
        if key not in TYPES:
            TYPES[key] = type(spec["name"], (BASES[spec["base"]],), own)
        cls = TYPES[key]
    e = cls()
    if shadow is None:
        e.args = tuple(mk_value(a) for a in spec["args"])     # OSError subclasses rearrange constructor arguments
    else:
        e.args = [mk_value(a) for a in spec["args"]] if shadow["t"] == "list_of_args" else mk_value(shadow)
    if not spec.get("cls_level"):
        for k, v in spec["attrs"].items():
            setattr(e, k, mk_value(v))
    return e


if __name__ == "__main__":
    out = []
    for spec in json.load(sys.stdin):
        e = mk_exc(spec)
        r = {"default": call(default_classifier, e), "strict": call(strict_classifier, e), "http": call(http_classifier, e),
             "sqlstate": call(sqlstate_classifier, e), "pyodbc": call(pyodbc_classifier, e),
             "optional": {n: STALE.get(n) or call(f, e) for n, (m, f) in OPTIONAL.items() if ABSENT[n]},
             "absent": sorted(n for n in ABSENT if ABSENT[n])}
        # asked again in the opposite order, every classifier must repeat its answer
        for name, f in (("pyodbc", pyodbc_classifier), ("sqlstate", sqlstate_classifier), ("http", http_classifier),
                        ("strict", strict_classifier), ("default", default_classifier)):
            again = call(f, e)
            if again != r[name]:
                r[name] = f"unstable:{r[name]}->{again}"
        out.append(r)
    json.dump(out, sys.stdout)
