"""Runs the built-in classifiers of /repo on generated exception objects.  stdin: JSON list of specs; stdout: per spec
{"default":..,"strict":..,"http":..,"sqlstate":..,"pyodbc":..,"optional":{name: result}} with ErrorClass names or "raised:<Type>"."""
import importlib
import json
import sys

sys.path.insert(0, __file__.rsplit("/", 1)[0])
import vclock

vclock.install()
from redress.classify import default_classifier, strict_classifier  # noqa: E402
from redress.errors import ConcurrencyError, PermanentError, RateLimitError, ServerError  # noqa: E402
from redress.extras import (  # noqa: E402
    aiohttp_classifier, boto3_classifier, grpc_classifier, http_classifier, pyodbc_classifier, redis_classifier,
    sqlstate_classifier, urllib3_classifier,
)

BASES = {"plain": Exception, "timeout": TimeoutError, "permanent": PermanentError, "ratelimit": RateLimitError,
         "concurrency": ConcurrencyError, "server": ServerError}
OPTIONAL = {"aiohttp": ("aiohttp.client_exceptions", aiohttp_classifier), "grpc": ("grpc", grpc_classifier),
            "boto3": ("botocore.exceptions", boto3_classifier), "redis": ("redis.exceptions", redis_classifier),
            "urllib3": ("urllib3.exceptions", urllib3_classifier)}
ABSENT = {}
for name, (mod, f) in OPTIONAL.items():
    try:
        importlib.import_module(mod)
        ABSENT[name] = False
    except Exception:
        ABSENT[name] = True


class Plain:
    pass


def mk_value(s):
    t = s["t"]
    if t == "none":
        return None
    if t == "bool":
        return bool(s["v"])
    if t == "int":
        return int(s["v"])
    if t == "bigint":
        return (-1 if s["neg"] else 1) * 10 ** s["exp"]
    if t == "float":
        return float(s["v"])
    if t == "str":
        return s["v"]
    if t == "bytes":
        return s["v"].encode()
    if t == "list":
        return list(s["items"]) if "items" in s else list(range(s["n"]))
    if t == "tuple":
        return tuple(s["items"]) if "items" in s else tuple(range(s["n"]))
    if t == "dict":
        return {i: i for i in range(s["n"])}
    if t == "obj":
        return Plain()
    raise AssertionError(t)


TYPES = {}


def mk_exc(spec):
    # one class object per (name, base) for the whole run: classifiers must be functions of the exception, so answers may
    # not depend on which classifier saw an exception type first (per-type caches, registries)
    key = (spec["name"], spec["base"])
    if key not in TYPES:
        TYPES[key] = type(spec["name"], (BASES[spec["base"]],), {})
    cls = TYPES[key]
    e = cls()
    e.args = tuple(mk_value(a) for a in spec["args"])     # OSError subclasses rearrange constructor arguments
    for k, v in spec["attrs"].items():
        setattr(e, k, mk_value(v))
    return e


def call(f, e):
    try:
        r = f(e)
        return getattr(r, "name", "bad:" + repr(r)[:40])
    except BaseException as x:  # noqa: BLE001
        return "raised:" + type(x).__name__


if __name__ == "__main__":
    out = []
    for spec in json.load(sys.stdin):
        e = mk_exc(spec)
        r = {"default": call(default_classifier, e), "strict": call(strict_classifier, e), "http": call(http_classifier, e),
             "sqlstate": call(sqlstate_classifier, e), "pyodbc": call(pyodbc_classifier, e),
             "optional": {n: call(f, e) for n, (m, f) in OPTIONAL.items() if ABSENT[n]},
             "absent": sorted(n for n in ABSENT if ABSENT[n])}
        # asked again in the opposite order, every classifier must repeat its answer
        for name, f in (("pyodbc", pyodbc_classifier), ("sqlstate", sqlstate_classifier), ("http", http_classifier),
                        ("strict", strict_classifier), ("default", default_classifier)):
            again = call(f, e)
            if again != r[name]:
                r[name] = f"unstable:{r[name]}->{again}"
        out.append(r)
    json.dump(out, sys.stdout)
