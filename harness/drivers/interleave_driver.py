"""Interleaved policy calls on one circuit breaker (C07: all interleavings of concurrent calls).

stdin : JSON list of scenarios
  {"breaker": {"thr","win","rto","trip_on","cthr"}, "t0": ticks,
   "calls": [{"retry": bool, "max_attempts": n, "mode": "call"|"execute", "ops": [["V"] | ["R", klass] ...]}, ...],
   "schedule": [[call index, dt ticks, "go" | "cancel"], ...]}
Every call is an AsyncPolicy call run as a hand-driven coroutine; its operation suspends once per attempt, so other calls can
run between its admission and its settlement.  A schedule step advances the virtual clock by dt and resumes (or cancels) one
call; calls still unfinished when the schedule ends are drained in index order.
stdout: per scenario {"log": breaker API calls in order, "calls": per call how it ended, "event_state_tags_wrong": breaker events whose
  `state` tag differed from the breaker's state when the hook received them}
  log entry: ["A", call, t, allowed, decision state, event] | ["S", call, "succ"|"fail"|"cancel", klass|None, t, event]
             each followed by [state after, probe_in_flight after]
"""
import asyncio
import json
import sys
import traceback

sys.path.insert(0, __file__.rsplit("/", 1)[0])
import vclock

CLOCK = vclock.install()
from redress import AsyncPolicy, AsyncRetry, CircuitBreaker, CircuitOpenError, ErrorClass  # noqa: E402
from redress.errors import RetryExhaustedError  # noqa: E402

STATUS_OF = {"AUTH": 401, "PERMISSION": 403, "PERMANENT": 404, "CONCURRENCY": 409, "RATE_LIMIT": 429,
             "SERVER_ERROR": 503, "TRANSIENT": 408}


class Suspend:
    def __await__(self):
        yield self


class Scripted(Exception):
    pass


class Spy(CircuitBreaker):
    def __init__(self, world, **kw):
        super().__init__(**kw)
        self.world = world

    def _after(self):
        return [self._state.name, bool(self._probe_in_flight)]

    def allow(self):
        d = super().allow()
        self.world.log.append(["A", self.world.cur, CLOCK.ticks, bool(d.allowed), d.state.name, d.event, self._after()])
        return d

    def record_success(self):
        r = super().record_success()
        self.world.log.append(["S", self.world.cur, "succ", None, CLOCK.ticks, r, self._after()])
        return r

    def record_failure(self, klass):
        r = super().record_failure(klass)
        self.world.log.append(["S", self.world.cur, "fail", getattr(klass, "name", repr(klass)), CLOCK.ticks, r, self._after()])
        return r

    def record_cancel(self):
        r = super().record_cancel()
        self.world.log.append(["S", self.world.cur, "cancel", None, CLOCK.ticks, r, self._after()])
        return r


class World:
    def __init__(self, sc):
        self.log = []
        self.cur = None
        self.tags_bad = []
        k = sc["breaker"]
        kw = {}
        if k.get("trip_on") is not None:
            kw["trip_on"] = {ErrorClass[n] for n in k["trip_on"]}
        if k.get("cthr"):
            kw["class_thresholds"] = {ErrorClass[n]: v for n, v in k["cthr"].items()}
        self.breaker = Spy(self, failure_threshold=k["thr"], window_s=k["win"] * vclock.TICK,
                           recovery_timeout_s=k["rto"] * vclock.TICK, **kw)

    def start(self, idx, call):
        att = [0]

        async def op():
            i = att[0]
            att[0] += 1
            await Suspend()
            o = call["ops"][i] if i < len(call["ops"]) else ["V"]
            if o[0] == "V":
                return ("value", idx, i)
            e = Scripted("scripted failure")
            e.klass = o[1]
            if not call["retry"] and o[1] in STATUS_OF:
                e.status = STATUS_OF[o[1]]          # default_classifier answers the scripted class
            raise e

        async def nosleep(_s):
            return None

        retry = None
        if call["retry"]:
            retry = AsyncRetry(classifier=lambda exc: ErrorClass[getattr(exc, "klass", "UNKNOWN")],
                               strategy=lambda ctx: 0.0, max_attempts=call["max_attempts"], deadline_s=10**6 * vclock.TICK,
                               sleeper=nosleep)
        pol = AsyncPolicy(retry=retry, circuit_breaker=self.breaker)
        brk, tags_bad = self.breaker, self.tags_bad

        def on_metric(event, attempt, sleep_s, tags):
            # a breaker event says which state the breaker is in (C14): compare with the breaker itself at that moment
            if str(event).startswith("circuit_") and tags.get("state") != brk.state.value and len(tags_bad) < 5:
                tags_bad.append([event, tags.get("state"), brk.state.value])
        return getattr(pol, call["mode"])(op, on_metric=on_metric)


def describe(fin):
    kind, v = fin
    if kind == "return":
        if isinstance(v, tuple):
            return ["value"]
        ok = getattr(v, "ok", None)
        if ok is not None:
            sr = getattr(v, "stop_reason", None)
            return ["outcome", bool(ok), sr.name if sr is not None else None,
                    v.last_class.name if getattr(v, "last_class", None) is not None else None]
        return ["return?", repr(v)[:80]]
    if isinstance(v, CircuitOpenError):
        return ["rejected"]
    if isinstance(v, asyncio.CancelledError):
        return ["cancelled"]
    if isinstance(v, Scripted):
        return ["raised", v.klass]
    if isinstance(v, RetryExhaustedError):
        return ["exhausted"]
    return ["other", type(v).__name__, str(v)[:200]]


def run(sc):
    w = World(sc)
    CLOCK.ticks = sc["t0"]
    coros, done = {}, {}

    def step(i, action):
        w.cur = i
        try:
            if i not in coros:
                coros[i] = w.start(i, sc["calls"][i])
                coros[i].send(None)
            elif action == "cancel":
                coros[i].throw(asyncio.CancelledError())
            else:
                coros[i].send(None)
        except StopIteration as si:
            done[i] = ("return", si.value)
        except BaseException as e:  # noqa: BLE001
            done[i] = ("raise", e)
        finally:
            w.cur = None

    for i, dt, action in sc["schedule"]:
        if i in done or i >= len(sc["calls"]):
            continue
        CLOCK.ticks += dt
        step(i, action)
    for i in range(len(sc["calls"])):
        guard = 0
        while i not in done and guard < 50:
            step(i, "go")
            guard += 1
    return {"log": w.log, "calls": [describe(done[i]) if i in done else ["unfinished"] for i in range(len(sc["calls"]))],
            "end": CLOCK.ticks, "event_state_tags_wrong": w.tags_bad}


if __name__ == "__main__":
    out = []
    for sc in json.load(sys.stdin):
        try:
            out.append(run(sc))
        except Exception:
            out.append({"log": [], "calls": [["driver_error", traceback.format_exc()[-1500:]]], "end": 0})
    json.dump(out, sys.stdout)
