"""Runs the Retry-After handling of /repo on scripted inputs.  stdin: JSON list of cases; stdout: JSON list of results.
now() as seen by redress.extras.http is frozen at 2026-01-01T00:00:00Z so that HTTP-date results are exact; the
answer of the stdlib date parser (the oracle of the model) is computed here and returned with each result."""
import json
import math
import os
import sys
import time as _time

# a process east of Greenwich: a Retry-After date without a zone means GMT, whatever the local zone is
os.environ["TZ"] = "JST-9"
_time.tzset()
from collections.abc import Mapping
from datetime import UTC, datetime, timedelta
from email.utils import parsedate_to_datetime

sys.path.insert(0, __file__.rsplit("/", 1)[0])
import vclock

vclock.install()
import redress.extras.http as H  # noqa: E402
from redress.classify import Classification  # noqa: E402
from redress.errors import ErrorClass  # noqa: E402

NOW = datetime(2026, 1, 1, 0, 0, 0, tzinfo=UTC)


class FrozenDatetime(datetime):
    @classmethod
    def now(cls, tz=None):
        return NOW if tz is not None else NOW.replace(tzinfo=None)


H.datetime = FrozenDatetime


def enc_float(v):
    if v is None:
        return None
    v = float(v)
    if v != v:
        return "nan"
    if v in (math.inf, -math.inf):
        return "inf" if v > 0 else "-inf"
    n, d = v.as_integer_ratio()
    return [n, d]


def date_oracle(text):
    """what parsedate_to_datetime + now say about this text: exact seconds from NOW, or None"""
    raw = text.strip()
    try:
        p = parsedate_to_datetime(raw)
    except (TypeError, ValueError, IndexError, OverflowError):
        return None          # not a date (OverflowError: a numeric field too large for the C-level date arithmetic)
    except BaseException as e:  # noqa: BLE001 - an exception type the code does not catch
        return ["oracle_raised", type(e).__name__]
    if p is None:
        return None
    if p.tzinfo is None:
        p = p.replace(tzinfo=UTC)
    return enc_float((p - NOW).total_seconds())


def mk_value(spec):
    t = spec["t"]
    if t == "str":
        return spec["v"]
    if t == "int":
        return int(spec["v"])
    if t == "bool":
        return bool(spec["v"])
    if t == "float":
        return float(spec["v"])
    if t == "none":
        return None
    if t == "bytes":
        return spec["v"].encode()
    if t == "list":
        return [1, 2]
    raise AssertionError(t)


class MyMapping(Mapping):
    def __init__(self, d):
        self.d = d

    def __getitem__(self, k):
        return self.d[k]

    def __iter__(self):
        return iter(self.d)

    def __len__(self):
        return len(self.d)


class Getter:
    def __init__(self, d, with_items):
        self.d = d
        if with_items:
            self.items = lambda: list(d.items())

    def get(self, k, default=None):
        return self.d.get(k, default)


class Raising:
    def get(self, k, default=None):
        raise RuntimeError("broken header container")

    def __iter__(self):
        raise RuntimeError("broken header container")


class RaisingMapping(MyMapping):
    def __getitem__(self, k):
        raise KeyError("broken")

    def get(self, k, default=None):
        raise RuntimeError("broken mapping")


def mk_headers(spec):
    k = spec["kind"]
    d = {key: mk_value(v) for key, v in spec["items"]}
    if k == "dict":
        return d
    if k == "mapping":
        return MyMapping(d)
    if k == "getter":
        return Getter(d, False)
    if k == "getter_items":
        return Getter(d, True)
    if k == "iterable":
        return list(d.items())
    if k == "iterator":
        return iter(list(d.items()))      # a one-shot iterable of pairs (generator, zip): it can be walked once
    if k == "raising":
        return Raising()
    if k == "raising_mapping":
        return RaisingMapping(d)
    raise AssertionError(k)


class HttpError(Exception):
    pass


class Resp:
    """a response object that is falsy (requests.Response is, for every 4xx/5xx: __bool__ = ok; others define __len__ as the
    body length): "no response" is `is None` only"""

    def __len__(self):
        return 0


def enc_hint(r):
    if isinstance(r, Classification):
        return ["hint", enc_float(r.retry_after_s), r.klass.name]
    if isinstance(r, ErrorClass):
        return ["hint", None, r.name]
    return ["bad", repr(r)[:80]]


def run(c):
    k = c["kind"]
    if k == "int":
        try:
            return ["int", str(int(c["s"].strip()))]
        except ValueError:
            return ["int", None]
    if k == "parse":
        global NOW
        r1, d1 = enc_float(H._parse_retry_after(c["s"])), date_oracle(c["s"])
        # the same text parsed again 100 s later: a date is a distance from *now* (nothing about an earlier parse may be kept)
        t0 = NOW
        try:
            NOW = t0 + timedelta(seconds=100)
            r2, d2 = enc_float(H._parse_retry_after(c["s"])), date_oracle(c["s"])
        finally:
            NOW = t0
        return ["parse", r1, d1, r2, d2]
    if k == "coerce":
        e = HttpError("rate limited")
        e.status = c.get("status", 429)
        if c["attr"] is not None:
            e.retry_after = mk_value(c["attr"])
        hs = c["headers"]
        if hs["kind"] != "none":
            h = mk_headers(hs)
            if c.get("via_response"):
                r = Resp()
                r.headers = h
                e.response = r
                own = c.get("own_empty")
                if own is not None:
                    # the exception has a headers attribute of its own, present but empty (falsy): the response's headers count
                    e.headers = {"dict": {}, "list": [], "tuple": ()}[own]
            else:
                e.headers = h
        texts = {}
        for key, v in hs.get("items", []):
            texts[key] = date_oracle(str(mk_value(v)))
        attr_date = date_oracle(c["attr"]["v"]) if c["attr"] is not None and c["attr"]["t"] == "str" else None
        return enc_hint(H.http_retry_after_classifier(e)) + [texts, attr_date]
    raise AssertionError(k)


if __name__ == "__main__":
    out = []
    for c in json.load(sys.stdin):
        try:
            out.append(run(c))
        except BaseException as e:  # noqa: BLE001
            out.append(["raised", type(e).__name__, str(e)[:120]])
    json.dump(out, sys.stdout)
