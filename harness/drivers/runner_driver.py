"""Scripted world for the retry loop / policy wrappers.  stdin: JSON list of sequences

  {"t0": int, "budget": {"max":..,"win":..}|null, "breaker": {...}|null,
   "policies": [policy_cfg, ...],
   "calls": [{"policy": idx, "entry": "retry"|"policy"|"retrypolicy"|"retry.ctx"|"policy.ctx"|
              "retrypolicy.ctx"|"decorator"|"retrycfg"|"retrypolicycfg"|"retrypolicyattr"|"retrypolicybrk", "async": bool, "mode": "call"|"execute",
              "cfg": call_cfg, "env": env, "gap": int, "variant": {...}}]}

stdout: JSON list (one per sequence) of lists (one per call) of {"trace": [...], "delivery": [...]}.
Everything observable is recorded into one trace in program order; times are integer ticks.
"""
import asyncio
import math
import inspect
import functools
import json
import sys
import threading
import traceback

sys.path.insert(0, __file__.rsplit("/", 1)[0])
import vclock
from vclock import to_hint, to_ticks

CLOCK = vclock.install()

import redress  # noqa: E402
from redress import (  # noqa: E402
    AsyncPolicy, AsyncRetry, AsyncRetryPolicy, Budget, CircuitBreaker, Classification, ErrorClass,
    Policy, Retry, RetryPolicy, SleepDecision, StopReason,
)
from redress.errors import AbortRetryError, CircuitOpenError, RetryExhaustedError  # noqa: E402
from redress.policy.decorator import retry as retry_decorator  # noqa: E402
from redress.policy.types import RetryOutcome, RetryTimeline  # noqa: E402

OPNAME = "opname"


class ScriptedError(Exception):
    pass


class Value:
    def __init__(self, att):
        self.att = att


class TraceOverflow(BaseException):
    """raised into the library by the recorder once a single call has performed more observable actions than any configuration
    of the scripts allows (max_attempts <= 9): a runaway loop ends here instead of filling the memory"""


class Trace(list):
    LIMIT = 4000

    def append(self, x):
        if len(self) >= self.LIMIT:
            raise TraceOverflow(f"more than {self.LIMIT} observable actions in one call")
        list.append(self, x)


CURRENT = [None]     # the World of the call in progress (Suspend has to know how the coroutine is being run)


class Suspend:
    """a suspension point of a scripted component.  Hand-driven coroutines yield the marker to drive(); under the
    virtual-time event loop (calls with attempt_timeout_s) a bare yield reschedules the task, and a pending
    CancelledError is delivered the way asyncio delivers it: task.cancel() before the yield."""

    def __await__(self):
        w = CURRENT[0]
        if w is not None and w.loop_task is not None:
            if w.pending_throw is not None:
                exc, w.pending_throw = w.pending_throw, None
                if isinstance(exc, asyncio.CancelledError):
                    w.loop_cancel = w.objs[id(exc)]
                    w.loop_task.cancel()
                    yield
                    # only reachable when the code awaiting here was detached from the cancelled run
                    w.trace.append(["X", "resumed-after-cancel", type(exc).__name__])
                    raise AssertionError("resumed after cancel")
                raise exc      # KeyboardInterrupt / SystemExit / GeneratorExit: raised at the await point
            yield
        else:
            yield self


class ScriptedTimeout(ScriptedError, TimeoutError):
    """an operation's own TimeoutError (must surface unchanged through the attempt-timeout wrapper)"""


class EmptyBatchError(ScriptedError):
    """a container-like error that is falsy (len() == 0): the library may tell "no exception" only by `is None`"""

    def __len__(self):
        return 0


class EmptyBatchTimeout(ScriptedTimeout):
    def __bool__(self):
        return False


class EmptyValue(Value):
    """a falsy result object"""

    def __len__(self):
        return 0


class VSelector:
    """select() never blocks: the time the loop wanted to wait is added to the virtual clock"""

    def __init__(self, real):
        self._real = real
        self._calls = 0

    def select(self, timeout=None):
        self._calls += 1
        if self._calls > 200000:
            raise RuntimeError("virtual-time loop: 200000 iterations without finishing the call")
        if timeout is None:
            raise RuntimeError("virtual-time loop: nothing scheduled, the run would block forever")
        if timeout > 0:
            CLOCK.ticks += int(math.ceil(timeout * 64.0 - 1e-9))
        return self._real.select(0)

    def __getattr__(self, name):
        return getattr(self._real, name)


class VLoop(asyncio.SelectorEventLoop):
    def __init__(self):
        super().__init__()
        self._selector = VSelector(self._selector)
        # timers are due when their time is reached on the tick grid (the default 1 ns is lost in rounding at t ~ 2**30 s)
        self._clock_resolution = vclock.TICK / 2

    def time(self):
        return CLOCK.ticks * vclock.TICK


STATUS_OF = {"AUTH": 401, "PERMISSION": 403, "PERMANENT": 404, "CONCURRENCY": 409, "RATE_LIMIT": 429,
             "SERVER_ERROR": 503, "TRANSIENT": 408}

class JobCancelled(asyncio.CancelledError, RuntimeError):
    """a cancellation that is also an Exception (libraries bridge asyncio's and concurrent.futures' CancelledError this way): still a
    CancelledError, so it propagates"""


class _Cancel(dict):
    bridge = False

    def __getitem__(self, k):
        if k == "cancelled" and _Cancel.bridge:
            return JobCancelled
        return dict.__getitem__(self, k)


CANCEL = _Cancel({
    "cancelled": asyncio.CancelledError,
    "keyboard": KeyboardInterrupt,
    "sysexit": SystemExit,
    "genexit": GeneratorExit,
})


# before_sleep is a best-effort hook (its ordinary exceptions are swallowed by design), so only the plain cancellation types there
PLAIN_CANCEL = dict(CANCEL)


def cancel_kind(e):
    return "cancelled" if type(e) is JobCancelled else [k for k, v in dict.items(CANCEL) if type(e) is v][0]


class HookBroken(Exception):
    pass


# what a failing hook raises: "every exception type deriving from Exception" (C15) — among them the ones a library is most likely to
# treat specially (TypeError: wrong-arity shims; AttributeError / LookupError: duck typing; OSError; AssertionError; TimeoutError)
class Unprintable(Exception):
    """a hook failure that cannot be rendered: swallowing an exception must not depend on looking at it"""

    def __str__(self):
        raise AttributeError("this exception has no message")

    __repr__ = __str__


HOOK_EXC = [RuntimeError, TypeError, KeyError, ValueError, AttributeError, HookBroken, OSError, AssertionError, TimeoutError, LookupError,
            Unprintable]


def nth(lst, i, default):
    return lst[i] if 0 <= i < len(lst) else default


class World:
    """the current call's script + recorders"""

    def __init__(self, call, shared):
        self.call = call
        _Cancel.bridge = bool((call.get("variant") or {}).get("cancel_bridge"))
        self.cfg = call["cfg"]
        self.env = call["env"]
        self.variant = call.get("variant") or {}
        self.is_async = call["async"]
        self.trace = Trace()
        self.invocations = 0
        self.polls = 0
        self.metrics = 0
        self.logs = 0
        self.bss = 0
        self.objs = {}
        self.keep = []
        self.susp = 0
        self.hung = []
        self.same_err = None
        self.pending_throw = None
        self.no_retry = bool(shared.seq["policies"][call["policy"]].get("no_retry"))

    # ---- identity bookkeeping ----
    loop_task = None
    loop_cancel = None

    def release_hung(self):
        for ev in self.hung:
            ev.set()

    def remember(self, obj, tag, att):
        self.objs[id(obj)] = (tag, att)
        self.keep.append(obj)
        return obj

    def ident(self, obj):
        if obj is None:
            return None
        r = self.objs.get(id(obj))
        return r[1] if r else "unknown:%s" % type(obj).__name__

    def cur_index(self):
        return self.invocations - 1

    # ---- operation ----
    def op_common(self):
        i = self.invocations
        self.invocations += 1
        att = i + 1
        op = nth(self.env["ops"], i, None) or ["V", 0, None, None]
        kind, dur, klass, ra = op[:4]
        self.cur_op_flag = op[4] if len(op) > 4 and kind == "R" else None
        if self.cur_op_flag is not None and (self.no_retry or self.cfg.get("att_timeout") is None):
            # no attempt-timeout wrapper around this call: nothing would time a hung operation out, and without a retry
            # component default_classifier decides the class (a TimeoutError type would steer it): a plain failure
            self.cur_op_flag = None
        self.trace.append(["I", att, CLOCK.ticks])
        self.op_start = CLOCK.ticks
        CLOCK.ticks += dur
        return i, att, kind, klass, ra

    def op_finish(self, att, kind, klass):
        falsy = self.variant.get("falsy_objs")
        if kind == "V":
            return self.remember((EmptyValue if falsy else Value)(att), "V", att)
        if kind == "R":
            if self.cur_op_flag == "te" and (att + self.variant.get("bare", 0)) % 2 == 0:
                # an argument-less TimeoutError of the operation's own (what a nested asyncio.timeout raises)
                err = (EmptyBatchTimeout if falsy else ScriptedTimeout)()
            elif self.cur_op_flag == "te":
                err = (EmptyBatchTimeout if falsy else ScriptedTimeout)("scripted failure %d" % att)
            elif self.variant.get("same_exc"):
                # one long-lived error object raised again by every failing attempt: what the library learnt about it at an
                # earlier attempt says nothing about this one
                if self.same_err is None:
                    self.same_err = (EmptyBatchError if falsy else ScriptedError)("scripted failure (one object)")
                err = self.same_err
            elif self.variant.get("exc_group"):
                # the failure arrives wrapped (TaskGroup / anyio style): the group is the attempt's own exception object
                err = ExceptionGroup("scripted failure %d" % att, [ScriptedError("member of %d" % att)])
            else:
                err = (EmptyBatchError if falsy else ScriptedError)("scripted failure %d" % att)
            if self.variant.get("chained"):
                # raised while a downstream rejection / an earlier failure was being handled: what an exception is chained to says
                # nothing about the exception itself
                err.__cause__ = CircuitOpenError("downstream") if att % 2 else AbortRetryError()
                err.__context__ = KeyboardInterrupt() if att % 3 == 0 else err.__cause__
            st = STATUS_OF.get(klass) if self.no_retry else None
            if st is not None:
                err.status = st     # default_classifier (used when no retry is configured) answers the scripted class
            if err is self.same_err and id(err) in self.objs:
                # the one long-lived object: it stands for the attempt whose failure the library looked at last (see classifier)
                raise err
            raise self.remember(err, "E", att)
        if kind == "A":
            raise self.remember(AbortRetryError(), "A", att)
        if kind == "N":
            raise self.remember(
                RetryExhaustedError(stop_reason=StopReason.MAX_ATTEMPTS_GLOBAL, attempts=7,
                                    last_class=ErrorClass.TRANSIENT, last_exception=None, last_result=None),
                "N", att)
        if kind == "O":  # nested CircuitOpenError
            raise self.remember(CircuitOpenError("open"), "O", att)
        if kind == "C":
            raise self.remember(CANCEL[klass](), "C", att)
        raise AssertionError("bad op kind %r" % (kind,))

    def sync_op(self):
        i, att, kind, klass, ra = self.op_common()
        if (self.cfg.get("att_timeout") or 0) > 10**6 and not self.no_retry:
            # under a practically unlimited attempt timeout the operation is still running when the runner starts to wait for it
            # (a few real milliseconds; the virtual clock does not move)
            threading.Event().wait(0.01)
        if self.cur_op_flag == "hang":
            # hangs past the attempt timeout: the worker thread is abandoned by the runner.  The virtual clock is moved to
            # the instant of the timeout; the thread then outlives the real timeout without touching anything.
            t = self.cfg["att_timeout"]
            CLOCK.ticks = self.op_start + t
            # blocks until the run has moved on (the classifier sees the runner's TimeoutError, or the call ends): never
            # completes before the real timeout, however late the waiting thread is scheduled
            ev = threading.Event()
            self.hung.append(ev)
            ev.wait(30.0)
            return None
        return self.op_finish(att, kind, klass)

    async def async_op(self):
        i, att, kind, klass, ra = self.op_common()
        if kind == "C" and self.variant.get("throw"):
            # the driver throws the cancellation into the coroutine at this suspension point
            self.pending_throw = self.remember(CANCEL[klass](), "C", att)
            await Suspend()
            raise AssertionError("resumed after throw")
        if self.cur_op_flag == "hang":
            # hangs until the attempt timeout cancels it (virtual-time loop only)
            await asyncio.get_running_loop().create_future()
            raise AssertionError("hung operation resumed")
        if self.variant.get("suspend_op"):
            await Suspend()
        return self.op_finish(att, kind, klass)

    # ---- classifiers ----
    def mk_classification(self, klass, ra, att):
        k = ErrorClass[klass]
        if ra is None and (att + self.variant.get("bare", 0)) % 2 == 0:
            return k
        return Classification(klass=k, retry_after_s=None if ra is None else float(ra) if isinstance(ra, str) else ra * vclock.TICK)

    def classifier(self, exc):
        if not self.variant.get("hold_hung"):
            self.release_hung()
        r = self.objs.get(id(exc))
        if exc is self.same_err and exc is not None:
            r = self.objs[id(exc)] = ("E", self.invocations)
        if r is None and isinstance(exc, TimeoutError):
            cur = nth(self.env["ops"], self.invocations - 1, None)
            if cur is not None and len(cur) > 4 and cur[0] == "R" and cur[4] == "hang":
                # the runner's own TimeoutError for the attempt that hung: from here on it is "the exception of that attempt"
                self.remember(exc, "TO", self.invocations)
                r = ("TO", self.invocations)
        if r is None or r[0] not in ("E", "O", "TO"):
            self.trace.append(["K?", type(exc).__name__])
            return ErrorClass.UNKNOWN
        att = r[1]
        self.trace.append(["K", att])
        kind, dur, klass, ra = nth(self.env["ops"], att - 1, None)[:4]
        return self.mk_classification(klass, ra, att)

    def result_classifier(self, val):
        r = self.objs.get(id(val))
        if r is None or r[0] != "V":
            self.trace.append(["RK?", type(val).__name__])
            return None
        att = r[1]
        self.trace.append(["RK", att])
        kind, dur, klass, ra = (nth(self.env["ops"], att - 1, None) or ["V", 0, None, None])[:4]
        if klass is None:
            return None
        return self.mk_classification(klass, ra, att)

    # ---- strategies ----
    def strat_value(self, attempt):
        v = nth(self.env["strat"], attempt - 1, 0)
        if v == "nan":
            return float("nan")
        if v == "inf":
            return float("inf")
        if v == "-inf":
            return float("-inf")
        if v == "huge":
            return 1e300          # finite, far beyond what a timedelta can hold: still just a delay to be capped
        if v == "-huge":
            return -1e300
        if v == "hugeint":
            return 10**400        # a finite int no float can hold
        if v == "-hugeint":
            return -10**400
        return v * vclock.TICK

    def strategy_ctx(self, sid, ctx):
        self.trace.append(["ST", sid, False, ctx.attempt, ctx.klass.name,
                           to_hint(ctx.classification.retry_after_s), to_ticks(ctx.prev_sleep_s),
                           to_ticks(ctx.remaining_s), ctx.cause])
        return self.strat_value(ctx.attempt)

    def strategy_legacy(self, sid, attempt, klass, prev):
        self.trace.append(["ST", sid, True, attempt, klass.name, None, to_ticks(prev), None, None])
        return self.strat_value(attempt)

    # ---- abort ----
    def abort_if(self):
        ans = bool(nth(self.env["abort"], self.polls, False))
        self.polls += 1
        self.trace.append(["P", ans])
        return ans

    # ---- sleep handler / before_sleep / sleeper ----
    def handler(self, who, ctx, sleep_s):
        d = nth(self.env["handler"], ctx.attempt - 1, "S")
        if who == "policy" and self.cfg.get("handler_c"):
            # a policy-level handler that a call-level one overrides must not be asked at all; if it is, it answers differently,
            # so that the run (not only the record of who was asked) shows it
            d = {"S": "D", "D": "A", "A": "S"}[d]
        self.trace.append(["H", who, ctx.attempt, ctx.klass.name, to_ticks(sleep_s), d])
        CLOCK.ticks += self.variant.get("hook_cost", 0)      # a handler that takes time (slow-hook scripts only; no model)
        return {"S": SleepDecision.SLEEP, "D": SleepDecision.DEFER, "A": SleepDecision.ABORT}[d]

    def bs_common(self, who, ctx, sleep_s):
        idx = self.bss
        self.bss += 1
        self.trace.append(["BS", who, ctx.attempt, to_ticks(sleep_s)])
        CLOCK.ticks += self.variant.get("hook_cost", 0)
        return idx, nth(self.env["bs_cancel"], self.cur_index(), None)

    def before_sleep_sync(self, who, ctx, sleep_s):
        idx, canc = self.bs_common(who, ctx, sleep_s)
        if canc:
            raise self.remember(PLAIN_CANCEL[canc](), "CS", self.invocations)
        if nth(self.env["bs_raises"], idx, False):
            raise HOOK_EXC[(idx + 2) % len(HOOK_EXC)]("before_sleep hook failure")

    async def before_sleep_async(self, who, ctx, sleep_s):
        idx, canc = self.bs_common(who, ctx, sleep_s)
        if canc:
            if self.variant.get("throw"):
                self.pending_throw = self.remember(PLAIN_CANCEL[canc](), "CS", self.invocations)
                await Suspend()
                raise AssertionError("resumed after throw")
            raise self.remember(PLAIN_CANCEL[canc](), "CS", self.invocations)
        if self.variant.get("suspend_bs"):
            await Suspend()
        if nth(self.env["bs_raises"], idx, False):
            raise HOOK_EXC[(idx + 1) % len(HOOK_EXC)]("async before_sleep hook failure")

    def sleeper_common(self, who, s):
        i = self.cur_index()
        d = to_ticks(s)
        self.trace.append(["SL", who, d, CLOCK.ticks])
        return i, d, nth(self.env["sleep_cancel"], i, None)

    def sleeper_sync(self, who, s):
        i, d, canc = self.sleeper_common(who, s)
        if canc:
            raise self.remember(CANCEL[canc](), "CS", self.invocations)
        if isinstance(d, int):
            CLOCK.ticks += d + nth(self.env["over"], i, 0)

    async def sleeper_async(self, who, s):
        i, d, canc = self.sleeper_common(who, s)
        if canc:
            if self.variant.get("throw"):
                self.pending_throw = self.remember(CANCEL[canc](), "CS", self.invocations)
                await Suspend()
                raise AssertionError("resumed after throw")
            raise self.remember(CANCEL[canc](), "CS", self.invocations)
        if self.variant.get("suspend_sleep"):
            await Suspend()
        if isinstance(d, int):
            CLOCK.ticks += d + nth(self.env["over"], i, 0)

    # ---- observability hooks ----
    @staticmethod
    def canon_tags(tags):
        t = dict(tags)
        out = {}
        for key in ("class", "err", "stop_reason", "cause", "operation", "state"):
            if key in t:
                out[key] = t.pop(key)
        if t:
            out["extra"] = sorted(t)
        return out

    def on_metric(self, event, attempt, sleep_s, tags):
        idx = self.metrics
        self.metrics += 1
        self.trace.append(["M", event, attempt, to_ticks(sleep_s), self.canon_tags(tags)])
        CLOCK.ticks += self.variant.get("hook_cost", 0)
        if nth(self.env["metric_raises"], idx, False):
            raise HOOK_EXC[idx % len(HOOK_EXC)]("metric hook failure")

    def on_log(self, event, fields):
        idx = self.logs
        self.logs += 1
        f = dict(fields)
        attempt = f.pop("attempt", "missing")
        sleep_s = f.pop("sleep_s", "missing")
        ra = f.pop("retry_after_s", None)
        self.trace.append(["L", event, attempt, to_ticks(sleep_s) if sleep_s != "missing" else "missing",
                           self.canon_tags(f), to_hint(ra)])
        if nth(self.env["log_raises"], idx, False):
            raise HOOK_EXC[(idx + 3) % len(HOOK_EXC)]("log hook failure")


class Shared:
    """objects living across the calls of one sequence"""

    def __init__(self, seq):
        self.seq = seq
        self.cur = None
        self.budget = None
        if seq.get("budget"):
            b = seq["budget"]
            self.budget = SpyBudget(self, max_retries=b["max"], window_s=b["win"] * vclock.TICK)
        self.breaker = None
        if seq.get("breaker"):
            k = seq["breaker"]
            kw = {}
            if k.get("trip_on") is not None:
                kw["trip_on"] = {ErrorClass[n] for n in k["trip_on"]}
            if k.get("cthr"):
                kw["class_thresholds"] = {ErrorClass[n]: v for n, v in k["cthr"].items()}
            self.breaker = SpyBreaker(self, failure_threshold=k["thr"], window_s=k["win"] * vclock.TICK,
                                      recovery_timeout_s=k["rto"] * vclock.TICK, **kw)
        self.objects = {}

    # late-bound callbacks: policy-level callables are created once and dispatch to the current call
    def w(self):
        return self.cur

    def retry_kwargs(self, pcfg, is_async):
        sh = self

        shape = pcfg.get("strat_shape", 0)

        def mk_strategy(sid, legacy):
            # the same strategy behind different signatures the library must recognise (strategies._normalize_strategy): extra
            # defaulted positional parameters, keyword-only knobs, a partial, a callable object
            if legacy:
                def f3(attempt, klass, prev_sleep_s):
                    return sh.w().strategy_legacy(sid, attempt, klass, prev_sleep_s)

                def f3d(attempt, klass, prev_sleep_s, scale=1.0, *, knob=None):
                    return sh.w().strategy_legacy(sid, attempt, klass, prev_sleep_s)
                return [f3, f3d][shape % 2]

            def f1(ctx):
                return sh.w().strategy_ctx(sid, ctx)
            if not sh.seq.get("spy_strategy") and shape % 6:
                import functools

                def f1d(ctx, base_s=0.5, max_s=30.0):
                    return sh.w().strategy_ctx(sid, ctx)

                def f1e(ctx, jitter=0.1):
                    return sh.w().strategy_ctx(sid, ctx)

                def f1k(ctx, *, knob=1):
                    return sh.w().strategy_ctx(sid, ctx)

                def f2(tag, ctx):
                    return sh.w().strategy_ctx(sid, ctx)

                class Obj:
                    def __call__(self, ctx):
                        return sh.w().strategy_ctx(sid, ctx)
                return [f1, f1d, f1e, f1k, functools.partial(f2, "t"), Obj()][shape % 6]
            if sh.seq.get("spy_strategy"):
                # context-style strategies may be stateful: the library reports outcomes back to them (record_failure when the
                # strategy is selected for a failure, record_success after a success); made visible for the pairwise part of C12
                class SpyStrategy:
                    def __call__(self, ctx):
                        return f1(ctx)

                    def record_failure(self, klass):
                        sh.w().trace.append(["SF", sid, getattr(klass, "name", repr(klass))])
                        CLOCK.ticks += sh.seq.get("rf_cost", 0)      # bookkeeping that takes time (slow-record scripts only; no model)

                    def record_success(self):
                        sh.w().trace.append(["SS", sid])
                return SpyStrategy()
            return f1

        kw = dict(
            classifier=lambda exc: sh.w().classifier(exc),
            deadline_s=pcfg["deadline"] * vclock.TICK,
            max_attempts=pcfg["max_attempts"],
            max_unknown_attempts=pcfg["max_unknown"],
            per_class_max_attempts={ErrorClass[k]: v for k, v in pcfg["per_class"].items()} or None,
        )
        if pcfg.get("att_timeout") is not None:
            kw["attempt_timeout_s"] = pcfg["att_timeout"] * vclock.TICK
        if pcfg["has_rc"]:
            kw["result_classifier"] = lambda val: sh.w().result_classifier(val)
        if pcfg["strat_default"] is not None:
            kw["strategy"] = mk_strategy("default", pcfg["strat_default"])
        kw["strategies"] = {ErrorClass[k]: mk_strategy(k, leg) for k, leg in pcfg["strat_tab"].items()}
        if pcfg["handler_p"]:
            kw["sleep"] = lambda ctx, s: sh.w().handler("policy", ctx, s)
        if pcfg["bs_p"]:
            kw["before_sleep"] = self.mk_bs("policy", is_async)
        if pcfg["sleeper_p"]:
            kw["sleeper"] = self.mk_sleeper("policy", is_async)
            if self.seq.get("falsy_shared", True):
                kw["sleeper"] = FalsyCallable(kw["sleeper"])
        if self.budget is not None and pcfg.get("use_budget", True):
            kw["budget"] = self.budget
        return kw

    def mk_bs(self, who, is_async):
        sh = self
        if is_async:
            async def abs_(ctx, s):
                return await sh.w().before_sleep_async(who, ctx, s)

            def sbs(ctx, s):
                return sh.w().before_sleep_sync(who, ctx, s)

            def pick(ctx, s):
                # async policies accept sync or awaitable hooks; the variant picks which
                if sh.w().variant.get("sync_hooks"):
                    return sbs(ctx, s)
                if sh.w().variant.get("awaitable_obj"):
                    return Awaitable(abs_(ctx, s))
                return abs_(ctx, s)
            return pick
        return lambda ctx, s: sh.w().before_sleep_sync(who, ctx, s)

    def mk_sleeper(self, who, is_async):
        sh = self
        if is_async:
            def pick(s):
                if sh.w().variant.get("sync_hooks"):
                    return sh.w().sleeper_sync(who, s)
                if sh.w().variant.get("awaitable_obj"):
                    # an awaitable that is not a coroutine (what a Future, a Task or loop.run_in_executor hands back)
                    return Awaitable(sh.w().sleeper_async(who, s))
                return sh.w().sleeper_async(who, s)
            return pick
        return lambda s: sh.w().sleeper_sync(who, s)

    def get_object(self, idx, entry, is_async):
        base = entry.split(".")[0]
        key = (idx, base, is_async)
        if key in self.objects:
            return self.objects[key]
        pcfg = self.seq["policies"][idx]
        kw = self.retry_kwargs(pcfg, is_async)
        use_breaker = self.breaker is not None and pcfg.get("use_breaker", True)
        if base == "retry":
            obj = (AsyncRetry if is_async else Retry)(**kw)
        elif base == "policy":
            r = None if pcfg.get("no_retry") else (AsyncRetry if is_async else Retry)(**kw)
            obj = (AsyncPolicy if is_async else Policy)(retry=r, circuit_breaker=self.breaker if use_breaker else None)
        elif base == "retrypolicy":
            obj = (AsyncRetryPolicy if is_async else RetryPolicy)(**kw)
        elif base in ("retrycfg", "retrypolicycfg"):
            # the same policy built through RetryConfig + from_config (every option handed over explicitly, zero and None included)
            from redress.config import RetryConfig
            names = {"strategy": "default_strategy", "strategies": "class_strategies"}
            ckw = {names.get(k, k): v for k, v in kw.items() if k != "classifier"}
            cls = {"retrycfg": (AsyncRetry if is_async else Retry), "retrypolicycfg": (AsyncRetryPolicy if is_async else RetryPolicy)}[base]
            obj = cls.from_config(RetryConfig(**ckw), classifier=kw["classifier"])
        elif base == "retrypolicyattr":
            # the sugar wrapper configured by attribute assignment after construction: __setattr__ must hand every option that
            # the retry component knows on to it (only what the constructor requires is given up front; the deadline is the
            # attribute `deadline`, a timedelta)
            import datetime
            cls = AsyncRetryPolicy if is_async else RetryPolicy
            first = {k: kw[k] for k in ("classifier", "strategy", "strategies") if k in kw}
            obj = cls(**first)
            for k, v in kw.items():
                if k in first:
                    continue
                if k == "deadline_s":
                    obj.deadline = datetime.timedelta(seconds=v)
                else:
                    # (the constructor turns per_class_max_attempts=None into {}; an assignment must give the mapping itself)
                    setattr(obj, k, dict(v or {}) if k == "per_class_max_attempts" else v)
        elif base == "retrypolicybrk":
            # the sugar wrapper with a breaker attached to the Policy it wraps
            obj = (AsyncRetryPolicy if is_async else RetryPolicy)(**kw)
            obj.policy.circuit_breaker = self.breaker if use_breaker else None
        elif base == "decorator":
            obj = ("decorator", kw)
        else:
            raise AssertionError(entry)
        self.objects[key] = obj
        return obj


class Awaitable:
    """wraps a coroutine in a plain awaitable object"""

    def __init__(self, coro):
        self.coro = coro

    def __await__(self):
        return self.coro.__await__()


class SpyBudget(Budget):
    def __init__(self, shared, **kw):
        super().__init__(**kw)
        self._shared = shared

    def __len__(self):
        # a subclass reporting "tokens in use" (or "capacity left") is falsy at times: the library may tell "no budget" only by
        # `is None`
        return 0 if self._shared.seq.get("falsy_shared", True) else 1

    def consume(self, cost=1):
        r = super().consume(cost)
        self._shared.cur.trace.append(["B", bool(r)])
        return r


    def remaining(self):
        r = super().remaining()
        self._shared.cur.trace.append(["BR", r])      # the retry loop is expected to use consume() only
        return r


class SpyBreaker(CircuitBreaker):
    def __init__(self, shared, **kw):
        super().__init__(**kw)
        self._shared = shared

    def _st(self):
        return self._state.name

    def __len__(self):
        # a subclass reporting "failures in the window" is falsy right after it opened: "no breaker" is `is None` only
        return 0 if self._shared.seq.get("falsy_shared", True) else 1

    def allow(self):
        d = super().allow()
        self._shared.cur.trace.append(["KA", bool(d.allowed), d.state.name, d.event, CLOCK.ticks])
        return d

    def record_success(self):
        r = super().record_success()
        self._shared.cur.trace.append(["KS", r, self._st()])
        return r

    def record_failure(self, klass):
        r = super().record_failure(klass)
        self._shared.cur.trace.append(["KF", getattr(klass, "name", repr(klass)), r, self._st()])
        return r

    def record_cancel(self):
        r = super().record_cancel()
        self._shared.cur.trace.append(["KC", self._st()])
        return r


def _fwd4(f, a, b, c, d):
    return f(a, b, c, d)


def _fwd2(f, a, b):
    return f(a, b)


class FalsyCallable:
    def __init__(self, f):
        self.f = f

    def __call__(self, *a):
        return self.f(*a)

    def __len__(self):
        return 0


class CallableObj:
    def __init__(self, f):
        self.f = f

    def __call__(self, *a):
        return self.f(*a)


def call_kwargs(w, shared, mode, entry):
    cfg = w.cfg
    kw = {}
    # hooks are any callables: bound methods, partials, instances with __call__ (no __name__ / __qualname__)
    shape = w.variant.get("hook_shape", 0)
    if cfg["has_metric"]:
        kw["on_metric"] = [w.on_metric, functools.partial(_fwd4, w.on_metric), CallableObj(w.on_metric)][shape % 3]
    if cfg["has_log"]:
        kw["on_log"] = [w.on_log, CallableObj(w.on_log), functools.partial(_fwd2, w.on_log)][shape % 3]
    if cfg["has_opname"]:
        kw["operation"] = OPNAME
    if cfg["has_abort"]:
        kw["abort_if"] = w.abort_if
    if cfg["handler_c"]:
        kw["sleep"] = lambda ctx, s: w.handler("call", ctx, s)
    if cfg["bs_c"]:
        kw["before_sleep"] = shared.mk_bs("call", w.is_async)
    if w.variant.get("falsy_hooks"):
        # a per-call callback may be any callable object, also one whose truth value is False (an empty recorder with __len__)
        for k in ("sleep", "before_sleep"):
            if k in kw:
                kw[k] = FalsyCallable(kw[k])
    if cfg["sleeper_c"]:
        kw["sleeper"] = shared.mk_sleeper("call", w.is_async)
        if w.variant.get("falsy_hooks"):
            # a recording sleeper that is a list subclass is falsy until it has recorded something
            kw["sleeper"] = FalsyCallable(kw["sleeper"])
    if mode == "execute" and cfg["capture_tl"]:
        kw["capture_timeline"] = RetryTimeline() if w.variant.get("tl_object") else True
    return kw


def enc_outcome(w, o):
    tl = None
    if o.timeline is not None:
        tl = [[e.attempt, e.event, to_ticks(e.elapsed_s), to_ticks(e.sleep_s),
               e.error_class.name if e.error_class is not None else None,
               e.stop_reason.name if e.stop_reason is not None else None, e.cause] for e in o.timeline.events]
    lexc = o.last_exception
    lexc_enc = w.ident(lexc)
    if isinstance(lexc, CircuitOpenError) and id(lexc) not in w.objs:
        lexc_enc = "circuit_open:" + str(lexc.state)
    return ["outcome", {
        "ok": o.ok, "value": w.ident(o.value), "stop": o.stop_reason.name if o.stop_reason is not None else None,
        "attempts": o.attempts, "class": o.last_class.name if o.last_class is not None else None,
        "exc": lexc_enc, "res": w.ident(o.last_result), "cause": o.cause,
        "elapsed": to_ticks(o.elapsed_s), "next": to_ticks(o.next_sleep_s), "tl": tl}]


def innermost_frame_name(exc):
    tb = exc.__traceback__
    name = None
    while tb is not None:
        name = tb.tb_frame.f_code.co_name
        tb = tb.tb_next
    return name


def enc_exception(w, e):
    if isinstance(e, TraceOverflow):
        return ["runaway", Trace.LIMIT]
    r = w.objs.get(id(e))
    if r is not None:
        tag, att = r
        if tag == "E":
            fr = innermost_frame_name(e)
            return ["raise_op", att] if fr == "op_finish" else ["raise_op_badtb", att, fr]
        if tag == "A":
            return ["abort"]
        if tag == "N":
            return ["nested", att]
        if tag in ("O", "TO"):
            return ["raise_op", att]
        if tag == "C":
            return ["cancel", cancel_kind(e), att]
        if tag == "CS":
            return ["cancel_sleep", cancel_kind(e), att]
    if isinstance(e, asyncio.CancelledError) and w.loop_cancel is not None:
        tag, att = w.loop_cancel      # the CancelledError asyncio made for the cancel() issued at a scripted await
        return ["cancel" if tag == "C" else "cancel_sleep", "cancelled", att]
    if isinstance(e, AbortRetryError):
        return ["abort"]
    if isinstance(e, RetryExhaustedError):
        return ["exhausted", e.stop_reason.name if e.stop_reason is not None else None, e.attempts,
                e.last_class.name if e.last_class is not None else None, w.ident(e.last_exception),
                w.ident(e.last_result), to_ticks(e.next_sleep_s)]
    if isinstance(e, CircuitOpenError):
        return ["circuit_open", e.state]
    if isinstance(e, RuntimeError) and "exhausted with no captured exception" in str(e):
        return ["runtime_error"]
    return ["other_exc", type(e).__name__, str(e)[:200]]


def drive_loop(coro, w):
    """run a coroutine as a task of a real asyncio event loop on virtual time"""
    loop = VLoop()
    try:
        task = loop.create_task(coro)
        w.loop_task = task
        return loop.run_until_complete(task)
    finally:
        # work the run left behind on the loop (e.g. an operation detached into its own task) is given a chance to show
        # itself: whatever it does lands in the trace after the point where the run ended
        orphans = [t for t in asyncio.all_tasks(loop) if not t.done()]
        if orphans:
            w.trace.append(["X", "tasks-left-running", len(orphans)])
            for _ in range(3):
                loop.call_soon(loop.stop)
                loop.run_forever()
            for t in orphans:
                t.cancel()
            loop.call_soon(loop.stop)
            loop.run_forever()
        w.loop_task = None
        loop.close()


def drive(coro, w):
    """run a coroutine by hand; throw the pending exception at the suspension point that set it"""
    if w.cfg.get("att_timeout") is not None:
        return drive_loop(coro, w)
    try:
        coro.send(None)
        while True:
            w.susp += 1
            if w.pending_throw is not None:
                exc, w.pending_throw = w.pending_throw, None
                coro.throw(exc)
            else:
                coro.send(None)
    except StopIteration as si:
        return si.value


def invoke(w, shared, call):
    entry, mode, is_async = call["entry"], call["mode"], call["async"]
    obj = shared.get_object(call["policy"], entry, is_async)
    kw = call_kwargs(w, shared, mode, entry)
    op = w.async_op if is_async else w.sync_op
    if entry == "decorator":
        _, rkw = obj
        dkw = dict(rkw)
        for k in ("on_metric", "on_log", "operation", "abort_if"):
            if k in kw:
                dkw[k] = kw[k]
        if is_async:
            async def opname(*a, **k):
                return await w.async_op()
        else:
            def opname(*a, **k):
                return w.sync_op()
        wrapped = retry_decorator(**dkw)(opname)
        r = wrapped()
        return drive(r, w) if is_async else r
    if entry.endswith(".ctx"):
        kw.pop("capture_timeline", None)
        ctx = obj.context(**kw)
        if is_async:
            async def go():
                async with ctx as c:
                    return await c(op)
            return drive(go(), w)
        with ctx as c:
            return c(op)
    meth = getattr(obj, mode)
    r = meth(op, **kw)
    return drive(r, w) if is_async else r


def run_sequence(seq):
    shared = Shared(seq)
    CLOCK.ticks = seq["t0"]
    out = []
    for call in seq["calls"]:
        CLOCK.ticks += call.get("gap", 0)
        w = World(call, shared)
        shared.cur = w
        CURRENT[0] = w
        if shared.breaker is not None:
            # a health check looks at the breaker between calls: reading the public state changes nothing
            pub = shared.breaker.state
            if pub.name != shared.breaker._state.name:
                w.trace.append(["X", "state-property", pub.name, shared.breaker._state.name])
        who = "default"
        CLOCK.sleep_hook = lambda s, w=w: w.sleeper_sync("default", s)
        if call["async"]:
            # asyncio.sleep is the async default sleeper: route it to the virtual default sleeper
            async def vsleep(s, w=w):
                return await w.sleeper_async("default", s)
            import redress.policy.retry_helpers as rh
            rh.asyncio.sleep = vsleep  # module attribute asyncio.sleep as seen by retry_helpers
        try:
            r = invoke(w, shared, call)
            if isinstance(r, RetryOutcome):
                deliv = enc_outcome(w, r)
            else:
                idn = w.objs.get(id(r))
                deliv = ["return", idn[1]] if idn and idn[0] == "V" else ["return?", repr(r)[:100]]
        except BaseException as e:  # noqa: BLE001 - everything that leaves the library is data here
            deliv = enc_exception(w, e)
            if deliv[0] == "other_exc":
                deliv.append(traceback.format_exc()[-1500:])
        w.release_hung()
        extra = {}
        if shared.breaker is not None:
            extra["breaker_state"] = shared.breaker._state.name
            extra["probe"] = bool(shared.breaker._probe_in_flight)
        out.append({"trace": w.trace, "delivery": deliv, "end": CLOCK.ticks, **extra})
    return out


if __name__ == "__main__":
    real_asyncio_sleep = asyncio.sleep
    seqs = json.load(sys.stdin)
    res = []
    for s in seqs:
        try:
            res.append(run_sequence(s))
        except Exception:
            res.append([{"trace": [], "delivery": ["driver_error", traceback.format_exc()[-2000:]], "end": 0}])
    json.dump(res, sys.stdout)
