"""Line-level schedule exploration of /repo's CircuitBreaker and Budget under real threads.
A scheduler built on sys.settrace stops every thread before each source line of the component's file; the component's
_lock is replaced (after construction) by a cooperative lock that reports "blocked" to the scheduler.  All schedules up to
a preemption bound are explored by DFS over the scheduler's choice points.
stdin: JSON list of scenarios {"kind": "breaker"|"budget", "setup": [...], "clock": t, ["thread_clocks": [t0, t1, ...],] "threads": [[op, ...], ...], "bound": b,
"max_schedules": n}; stdout: per scenario {"schedules": n, "outcomes": [...], "sequential": [...], "deadlocks": n, "truncated": bool}."""
import itertools
import json
import sys
import threading

sys.path.insert(0, __file__.rsplit("/", 1)[0])
import vclock

CLOCK = vclock.install()
import redress.budget as budget_mod  # noqa: E402
import redress.circuit as circuit_mod  # noqa: E402
from redress import Budget, CircuitBreaker, ErrorClass  # noqa: E402

import redress.policy.state as state_mod  # noqa: E402
from redress import Retry  # noqa: E402

FILES = {"breaker": circuit_mod.__file__, "budget": budget_mod.__file__, "policy_budget": state_mod.__file__}


class Failing(Exception):
    pass


class PolicyWorld:
    """several Retry components sharing one Budget; every operation fails (TRANSIENT); sleeps are no-ops"""

    def __init__(self, cfg):
        self.budget = Budget(max_retries=cfg["max"], window_s=cfg["win"] * vclock.TICK)
        self.retries = [Retry(classifier=lambda e: ErrorClass.TRANSIENT, strategy=lambda ctx: 0.0, max_attempts=cfg.get("max_attempts", 2),
                              deadline_s=1000.0, budget=self.budget) for _ in range(cfg.get("policies", 2))]
        self._lock = None     # the Budget keeps its real lock: it is never held across a scheduling point (budget.py is not traced)


class Deadlock(Exception):
    pass


class Sched:
    def __init__(self, choices):
        self.choices = list(choices)
        self.pos = 0
        self.cv = threading.Condition()
        self.current = None
        self.threads = []
        self.blocked = set()
        self.done = set()
        self.branch = []
        self.deadlock = False
        self.clocks = {}

    def runnable(self):
        return [t for t in self.threads if t not in self.done and t not in self.blocked]

    def pick(self):
        r = self.runnable()
        if not r:
            if len(self.done) < len(self.threads):
                self.deadlock = True
            self.current = None
            return
        if len(r) == 1:
            c = r[0]
        else:
            if self.current in r:
                r = [self.current] + [x for x in r if x != self.current]
            i = self.choices[self.pos] if self.pos < len(self.choices) else 0
            self.pos += 1
            self.branch.append(len(r))
            c = r[i % len(r)]
        self.current = c

    def yield_(self, tid):
        with self.cv:
            self.pick()
            self.cv.notify_all()
            while self.current != tid:
                if self.deadlock:
                    raise Deadlock()
                self.cv.wait(timeout=5)
            if tid in self.clocks:
                CLOCK.ticks = self.clocks[tid]      # each thread reads its own clock value (scenario key "thread_clocks")

    def finish(self, tid):
        with self.cv:
            self.done.add(tid)
            self.pick()
            self.cv.notify_all()


class CoopLock:
    def __init__(self, s):
        self.s = s
        self.held = None

    def __enter__(self):
        tid = threading.current_thread().name
        while self.held is not None:
            self.s.blocked.add(tid)
            self.s.yield_(tid)
        self.held = tid

    def __exit__(self, *a):
        self.held = None
        self.s.blocked.clear()

    def acquire(self, *a, **k):
        self.__enter__()
        return True

    def release(self):
        self.__exit__()


def mk_object(sc):
    CLOCK.ticks = 0
    if sc["kind"] == "policy_budget":
        obj = PolicyWorld(sc["cfg"])
        CLOCK.ticks = sc["clock"]
        return obj
    if sc["kind"] == "breaker":
        c = sc["cfg"]
        obj = CircuitBreaker(failure_threshold=c["thr"], window_s=c["win"] * vclock.TICK, recovery_timeout_s=c["rto"] * vclock.TICK,
                             trip_on={ErrorClass[k] for k in c.get("trip_on", ["TRANSIENT"])})
    else:
        c = sc["cfg"]
        obj = Budget(max_retries=c["max"], window_s=c["win"] * vclock.TICK)
    for t, op in sc.get("setup", []):
        CLOCK.ticks = t
        do_op(obj, op)
    CLOCK.ticks = sc["clock"]
    return obj


def do_op(obj, op):
    k = op[0]
    if k == "execute":
        def failing():
            raise Failing()
        retries = []
        out = obj.retries[op[1]].execute(failing, sleeper=lambda s: None,
                                         on_metric=lambda ev, a, sl, tags: retries.append(ev) if ev == "retry" else None)
        return ["X", out.stop_reason.name if out.stop_reason else None, out.attempts, len(retries)]
    if k == "allow":
        d = obj.allow()
        return ["D", bool(d.allowed), d.state.name, d.event]
    if k == "success":
        return ["E", obj.record_success()]
    if k == "failure":
        return ["E", obj.record_failure(ErrorClass[op[1]])]
    if k == "cancel":
        obj.record_cancel()
        return ["U"]
    if k == "state":
        return ["Q", obj.state.name]
    if k == "consume":
        return ["B", bool(obj.consume(op[1] if len(op) > 1 else 1))]
    if k == "remaining":
        return ["R", obj.remaining()]
    raise AssertionError(op)


def summary(obj, kind):
    if kind == "policy_budget":
        return [len(obj.budget._events)]
    if kind == "breaker":
        return [obj._state.name, bool(obj._probe_in_flight), len(obj._failures)]
    return [len(obj._events)]


def run_schedule(sc, choices):
    s = Sched(choices)
    obj = mk_object(sc)
    obj._lock = CoopLock(s)
    target = FILES[sc["kind"]]
    if sc.get("thread_clocks"):
        s.clocks = {"t%d" % i: t for i, t in enumerate(sc["thread_clocks"])}
    results = {}
    errors = []

    def tracer(frame, event, arg):
        if frame.f_code.co_filename != target:
            return None

        def local(frame, event, arg):
            if event == "line":
                s.yield_(threading.current_thread().name)
            return local
        return local

    def body(tid, ops):
        try:
            with s.cv:
                while s.current != tid:
                    if s.deadlock:
                        raise Deadlock()
                    s.cv.wait(timeout=5)
                if tid in s.clocks:
                    CLOCK.ticks = s.clocks[tid]
            sys.settrace(tracer)
            try:
                results[tid] = [do_op(obj, op) for op in ops]
            finally:
                sys.settrace(None)
        except Deadlock:
            errors.append("deadlock")
        except BaseException as e:  # noqa: BLE001
            errors.append("%s: %s" % (type(e).__name__, e))
        finally:
            s.finish(tid)

    names = ["t%d" % i for i in range(len(sc["threads"]))]
    s.threads = names
    ths = [threading.Thread(target=body, args=(n, ops), name=n, daemon=True) for n, ops in zip(names, sc["threads"])]
    for t in ths:
        t.start()
    with s.cv:
        s.pick()
        s.cv.notify_all()
    for t in ths:
        t.join(timeout=20)
    hung = any(t.is_alive() for t in ths)
    outcome = [[results.get(n) for n in names], summary(obj, sc["kind"])]
    return outcome, s.branch, s.deadlock or hung, errors


def sequential_outcomes(sc):
    """every merge order of the threads' programs, run sequentially on a fresh object"""
    idx = [i for i, ops in enumerate(sc["threads"]) for _ in ops]
    outs = []
    for order in set(itertools.permutations(idx)):
        obj = mk_object(sc)
        pos = [0] * len(sc["threads"])
        res = [[] for _ in sc["threads"]]
        for i in order:
            if sc.get("thread_clocks"):
                CLOCK.ticks = sc["thread_clocks"][i]
            res[i].append(do_op(obj, sc["threads"][i][pos[i]]))
            pos[i] += 1
        o = [res, summary(obj, sc["kind"])]
        if o not in outs:
            outs.append(o)
    return outs


def explore(sc):
    bound, cap = sc.get("bound", 2), sc.get("max_schedules", 2000)
    stack, n, outcomes, deadlocks, errs = [[]], 0, [], 0, []
    truncated = False
    while stack:
        if n >= cap:
            truncated = True
            break
        ch = stack.pop()
        outcome, branch, dl, errors = run_schedule(sc, ch)
        n += 1
        deadlocks += 1 if dl else 0
        errs += errors
        if outcome not in outcomes:
            outcomes.append(outcome)
        if bound is not None and sum(1 for x in ch if x) >= bound:
            continue
        for i in range(len(ch), len(branch)):
            for alt in range(1, branch[i]):
                stack.append(ch + [0] * (i - len(ch)) + [alt])
    return {"schedules": n, "outcomes": outcomes, "sequential": sequential_outcomes(sc), "deadlocks": deadlocks,
            "errors": errs[:3], "truncated": truncated}


if __name__ == "__main__":
    json.dump([explore(sc) for sc in json.load(sys.stdin)], sys.stdout)
