"""Runs the built-in strategies of /repo on scripted inputs.  stdin: JSON list of cases, stdout: JSON list of results.
Numbers travel as [numerator, denominator] (exact), "nan", "inf", "-inf" or null.
random.uniform as seen by redress.strategies is replaced by a + (b - a) * r with the scripted draw r."""
import json
import math
import sys
from fractions import Fraction

sys.path.insert(0, __file__.rsplit("/", 1)[0])
import vclock

CLOCK = vclock.install()
import redress.strategies as S  # noqa: E402
from redress.classify import Classification  # noqa: E402
from redress.errors import ErrorClass  # noqa: E402


class Draw:
    r = 0.0

    @staticmethod
    def uniform(a, b):
        return a + (b - a) * Draw.r

    def __getattr__(self, name):
        raise AssertionError("unexpected use of random.%s" % name)


S.random = Draw()


def fl(x):
    if x is None:
        return None
    if isinstance(x, str):
        return float(x)
    return float(Fraction(x[0], x[1]))


def enc(v):
    if isinstance(v, bool) or not isinstance(v, (int, float)):
        return ["bad", repr(v)[:80]]
    v = float(v)
    if v != v:
        return "nan"
    if v in (math.inf, -math.inf):
        return "inf" if v > 0 else "-inf"
    n, d = v.as_integer_ratio()
    return [n, d]


def run(case):
    k = case["kind"]
    Draw.r = fl(case.get("r", [0, 1]))
    if k == "decor":
        f = S.decorrelated_jitter(base_s=fl(case["base"]), max_s=fl(case["max"]))
        return enc(f(case.get("attempt", 1), ErrorClass.TRANSIENT, fl(case["prev"])))
    if k == "equal":
        f = S.equal_jitter(base_s=fl(case["base"]), max_s=fl(case["max"]))
        # these strategies do not depend on the previous delay (which a policy shares between the strategies of all classes)
        return enc(f(case["attempt"], ErrorClass.TRANSIENT, fl(case["prev"]) if case.get("prev") is not None else None))
    if k == "token":
        f = S.token_backoff(base_s=fl(case["base"]), max_s=fl(case["max"]))
        return enc(f(case["attempt"], ErrorClass.TRANSIENT, fl(case["prev"]) if case.get("prev") is not None else None))
    if k == "adaptive":
        now = [0.0]
        fb = fl(case["fallback"])
        a = S.adaptive(lambda ctx: fb, window_s=fl(case["window"]), target_success=fl(case["ts"]),
                       min_multiplier=fl(case["minm"]), max_multiplier=fl(case["maxm"]), clock=lambda: now[0])
        for t, ok in case["hist"]:
            now[0] = fl(t)
            if ok:
                a.record_success()
            else:
                a.record_failure(ErrorClass.TRANSIENT)
        now[0] = fl(case["now"])
        ctx = S.BackoffContext(attempt=1, classification=Classification(klass=ErrorClass.TRANSIENT), prev_sleep_s=None,
                               remaining_s=None, cause="exception")
        return enc(a(ctx))
    if k == "retry_after":
        fb = fl(case["fallback"])
        f = S.retry_after_or(lambda ctx: fb, jitter_s=fl(case["jitter"]))
        ctx = S.BackoffContext(attempt=1, classification=Classification(klass=ErrorClass.RATE_LIMIT, retry_after_s=fl(case["ra"])),
                               prev_sleep_s=None, remaining_s=fl(case["remaining"]), cause="exception")
        return enc(f(ctx))
    raise AssertionError(k)


if __name__ == "__main__":
    out = []
    for c in json.load(sys.stdin):
        try:
            out.append(run(c))
        except BaseException as e:  # noqa: BLE001
            out.append(["raised", type(e).__name__, str(e)[:120]])
    json.dump(out, sys.stdout)
