"""Virtual clock installed into the `time` module BEFORE redress is imported.

1 tick = 1/64 s = 15625 us: an integer number of microseconds (timedelta(seconds=t/64) is exact)
and dyadic (every float add/sub/compare on tick multiples is exact up to 2**53 ticks).
time.time() jumps wildly (forwards and backwards) on every read: nothing in redress may depend
on the wall clock (C02).  time.sleep must never be reached unless a test lets it.
"""
import time as _time

TICK = 1.0 / 64.0
REAL_SLEEP = _time.sleep          # wall-clock sleep, for the few scripted operations that must outlive a real timeout


class VClock:
    def __init__(self):
        self.ticks = 0
        self.wall_reads = 0
        self.real_sleep_calls = []
        self.sleep_hook = None

    def monotonic(self):
        return self.ticks * TICK

    def walltime(self):
        self.wall_reads += 1
        k = self.wall_reads
        return 1.7e9 + ((-1) ** k) * 86400.0 * 365 * (k % 7) + 0.123 * k

    def sleep(self, s):
        if self.sleep_hook is not None:
            return self.sleep_hook(s)
        self.real_sleep_calls.append(s)
        raise AssertionError("time.sleep reached with no sleeper scripted")


CLOCK = VClock()


def install():
    _time.monotonic = CLOCK.monotonic
    _time.time = CLOCK.walltime
    _time.sleep = CLOCK.sleep
    _time.perf_counter = CLOCK.monotonic
    return CLOCK


def to_ticks(x):
    """Exact conversion float seconds -> integer ticks; None when off the grid / not finite."""
    if x is None:
        return None
    try:
        v = x * 64.0
    except Exception:
        return "nan"
    if v != v or v in (float("inf"), float("-inf")):
        return "nan"
    if v != int(v):
        return "offgrid:%r" % (x,)
    return int(v)


def to_hint(x):
    """a Retry-After hint as handed to the strategy / the log: ticks, or "nan" / "inf" / "-inf" (passed through untouched)"""
    if x is None:
        return None
    try:
        if x != x:
            return "nan"
        if x == float("inf"):
            return "inf"
        if x == float("-inf"):
            return "-inf"
    except Exception:
        return "nan"
    return to_ticks(x)
