"""Fail-closed translator: the lock structure of redress/circuit.py (CircuitBreaker) and redress/budget.py (Budget)
-> coq/gen/LockStruct.v.  For every method of the class it emits the sequence of top-level segments with
(inside `with self._lock:`, touches a mutable attribute of self, calls a private helper).  Shapes it does not know
(lock taken in a nested position, other context managers, nested functions/lambdas/classes, aliasing of self,
getattr/setattr/__dict__ access) raise TranslationError = the tie is broken."""
import ast
import os

MUTATORS = {"append", "appendleft", "popleft", "pop", "clear", "extend", "add", "update", "remove", "setdefault", "insert", "discard"}


class TranslationError(Exception):
    pass


def self_attr(node):
    return isinstance(node, ast.Attribute) and isinstance(node.value, ast.Name) and node.value.id == "self"


def is_lock_with(node):
    return (isinstance(node, ast.With) and len(node.items) == 1 and self_attr(node.items[0].context_expr)
            and node.items[0].context_expr.attr == "_lock" and node.items[0].optional_vars is None)


def mutable_attrs(cls):
    """attributes of self written or mutated in place outside __init__ (plus everything assigned a container in __init__
    that is mutated anywhere)"""
    mut = set()
    for fn in cls.body:
        if not isinstance(fn, ast.FunctionDef) or fn.name == "__init__":
            continue
        for n in ast.walk(fn):
            targets = []
            if isinstance(n, ast.Assign):
                targets = n.targets
            elif isinstance(n, (ast.AugAssign, ast.AnnAssign)):
                targets = [n.target]
            elif isinstance(n, ast.Delete):
                targets = n.targets
            for t in targets:
                for x in ast.walk(t):
                    if self_attr(x):
                        mut.add(x.attr)
            if isinstance(n, ast.Call) and isinstance(n.func, ast.Attribute) and n.func.attr in MUTATORS and self_attr(n.func.value):
                mut.add(n.func.value.attr)
    mut.discard("_lock")
    return mut


def check_known(stmt, where):
    for n in ast.walk(stmt):
        if isinstance(n, (ast.FunctionDef, ast.AsyncFunctionDef, ast.Lambda, ast.ClassDef, ast.Global, ast.Nonlocal, ast.Await,
                          ast.Yield, ast.YieldFrom, ast.Try)):
            raise TranslationError(f"{where}: unsupported construct {type(n).__name__}")
        if isinstance(n, ast.With) and not is_lock_with(n):
            raise TranslationError(f"{where}: a context manager other than `with self._lock:`")
        if isinstance(n, ast.Name) and n.id in ("getattr", "setattr", "vars", "object"):
            raise TranslationError(f"{where}: dynamic attribute access ({n.id})")
        if isinstance(n, ast.Attribute) and n.attr in ("__dict__", "acquire", "release"):
            raise TranslationError(f"{where}: {n.attr}")
        if isinstance(n, (ast.Assign, ast.AnnAssign)) and isinstance(getattr(n, "value", None), ast.Name) and n.value.id == "self":
            raise TranslationError(f"{where}: aliasing of self")


def segment(stmt, mutable, helpers, where):
    check_known(stmt, where)
    locked = is_lock_with(stmt)
    if not locked:
        for n in ast.walk(stmt):
            if is_lock_with(n):
                raise TranslationError(f"{where}: the lock is taken in a nested position")
    else:
        for n in ast.walk(stmt):
            if n is not stmt and is_lock_with(n):
                raise TranslationError(f"{where}: nested acquisition of the lock")
    touches = any(self_attr(n) and n.attr in mutable for n in ast.walk(stmt))
    calls = any(isinstance(n, ast.Call) and self_attr(n.func) and n.func.attr in helpers for n in ast.walk(stmt))
    return locked, touches, calls


def translate_class(path, clsname):
    tree = ast.parse(open(path).read(), filename=path)
    cls = next((n for n in tree.body if isinstance(n, ast.ClassDef) and n.name == clsname), None)
    if cls is None:
        raise TranslationError(f"{path}: class {clsname} not found")
    mutable = mutable_attrs(cls)
    fns = [n for n in cls.body if isinstance(n, ast.FunctionDef)]
    for n in cls.body:
        if isinstance(n, ast.AsyncFunctionDef):
            raise TranslationError(f"{clsname}.{n.name}: async method")
    helpers = {f.name for f in fns if f.name.startswith("_") and not f.name.startswith("__")}
    out = []
    for f in fns:
        if f.name == "__init__":
            continue
        public = f.name not in helpers
        segs = []
        for stmt in f.body:
            if isinstance(stmt, ast.Expr) and isinstance(stmt.value, ast.Constant) and isinstance(stmt.value.value, str):
                continue  # docstring
            segs.append(segment(stmt, mutable, helpers, f"{clsname}.{f.name}"))
        out.append({"class": clsname, "name": f.name, "public": public, "segs": segs})
    return out, sorted(mutable), sorted(helpers)


def to_coq(methods):
    def b(x):
        return "true" if x else "false"
    ms = []
    for m in methods:
        segs = "; ".join(f"{{| s_locked := {b(l)}; s_mutable := {b(t)}; s_helper := {b(c)} |}}" for l, t, c in m["segs"])
        ms.append(f"  (* {m['class']}.{m['name']} *) {{| m_public := {b(m['public'])}; m_segs := [{segs}] |}}")
    return ("(* generated by harness/lockstruct.py from the current source of /repo; do not edit *)\n"
            "From Redress Require Import Base LockDiscipline.\n"
            "Definition methods : list meth := [\n" + ";\n".join(ms) + "\n].\n"
            "Eval vm_compute in (disciplined methods).\n")


def generate(repo_src, out_path):
    meths, info = [], {}
    for rel, cls in (("redress/circuit.py", "CircuitBreaker"), ("redress/budget.py", "Budget")):
        m, mutable, helpers = translate_class(os.path.join(repo_src, rel), cls)
        meths += m
        info[cls] = {"mutable_attributes": mutable, "helpers": helpers, "public_methods": [x["name"] for x in m if x["public"]]}
    os.makedirs(os.path.dirname(out_path), exist_ok=True)
    with open(out_path, "w") as f:
        f.write(to_coq(meths))
    return meths, info


if __name__ == "__main__":
    import json
    import sys
    m, info = generate(sys.argv[1] if len(sys.argv) > 1 else "/repo/src", sys.argv[2] if len(sys.argv) > 2 else "/verif/coq/gen/LockStruct.v")
    print(json.dumps(info, indent=1))
    print(json.dumps(m, indent=1))
