"""Regenerates /verif/MANIFEST.json from the table below (kept valid at all times)."""
import json
import os
import sys

VERIF = os.path.dirname(os.path.dirname(os.path.abspath(__file__)))
ALL = [f"C{i:02d}" for i in range(1, 21)]

# pid -> (technique, level text, level note, design ref)
RUNNER_NOTE = ("Trusted: Coq kernel + vm_compute; hand-written model Runner.v of state.py/retry_helpers.py/runner/*.py (tied to /repo "
               "by the correspondence run on generated scripts; its handle_failure, backoff and iter/run additionally proved equal to the "
               "translated _RetryState._handle_failure, sleep protocol and loop bodies of sync_core.py/async_core.py: pyir_failure.py + "
               "PyIRF.v, pyir_sleep.py + PyIRS.v, pyir_loop.py + PyIRL.v, pyir_state.py + PyIRE.v are trusted for that); scripted-world Python driver, virtual "
               "clock, hand-driven coroutines, a real asyncio loop on virtual time under attempt_timeout_s; assumptions: time passes "
               "only in operation and sleeper, decision callbacks do not raise, 1/64 s time grid. Parts that evaluate single clauses of a "
               "property on the implementation alone, for worlds the model does not have (hooks or record_failure() that take time; faults "
               "in every callback), support the search for a failing input and are marked as such in the evidence (slow_hook_scripts, "
               "slow_record_scripts, fault_injection_outside_model).")

CHECKS = {
    "C01": (
        "Coq proof (loop invariants by induction over the retry loop via a characterisation of one iteration) tied by in-Coq trace correspondence (projection: invocations); the retry loop is additionally tied by translation on every run: _RetryState._handle_failure = Runner.handle_failure (PyIRF.v), the sleep protocol of retry_helpers.py = Runner.backoff (PyIRS.v), the loop bodies of sync_core.py / async_core.py iterated = Runner.run (PyIRL.v), _RetryState.emit / check_abort / record_failure and the timeline hook = Runner.emit / Runner.check_abort / the last_fail update (PyIRE.v)",
        "Theorems C01_* (invocations <= max_attempts, no invocation after a non-retryable class, per-class and UNKNOWN retry "
        "caps, fresh counters per call) hold for all configurations, outcome/timing/abort/handler environments and call "
        "sequences of the Gallina model of the retry loop; the model's invocation trace is compared inside Coq with /repo's on "
        "generated sequences of calls through sync and async Retry .call/.execute.",
        RUNNER_NOTE, "DESIGN.md §4 C01",
    ),
    "C02": (
        "Coq proof (loop-top invariant `top` by induction over the retry loop: every later attempt starts within the deadline; per-iteration sleep bound from the verdict; total-sleep potential argument) tied by in-Coq trace correspondence (projection: times of invocations and sleeps, requested delays) under a virtual monotonic clock with a jumping wall clock; the retry loop is additionally tied by translation on every run: _RetryState._handle_failure = Runner.handle_failure (PyIRF.v), the sleep protocol of retry_helpers.py = Runner.backoff (PyIRS.v), the loop bodies of sync_core.py / async_core.py iterated = Runner.run (PyIRL.v), _RetryState.emit / check_abort / record_failure and the timeline hook = Runner.emit / Runner.check_abort / the last_fail update (PyIRE.v)",
        "Theorems C02_attempt_start, C02_sleep_within_remaining, C02_total_sleep, C02_no_retry_at_deadline, "
        "C02_measured_from_call_start hold for all configurations, environments (durations, overshoots, strategy returns incl. "
        "NaN/inf/negative), start times and budget states of the Gallina model of the retry loop, on the code's own "
        "1-microsecond-quantised monotonic clock; sub-microsecond rounding is not modelled. The model is compared inside Coq "
        "with /repo on generated call sequences with deadlines that bind at every check site.",
        RUNNER_NOTE, "DESIGN.md §4 C02",
    ),
    "C03": (
        "Coq proof (iff characterisation of one loop iteration by a pure verdict function; budget/sleep iff; stop-reason soundness) tied by in-Coq trace correspondence (projection: invocations, budget, retry/terminal events, handler, sleeps, polls); the retry loop is additionally tied by translation on every run: _RetryState._handle_failure = Runner.handle_failure (PyIRF.v), the sleep protocol of retry_helpers.py = Runner.backoff (PyIRS.v), the loop bodies of sync_core.py / async_core.py iterated = Runner.run (PyIRL.v), _RetryState.emit / check_abort / record_failure and the timeline hook = Runner.emit / Runner.check_abort / the last_fail update (PyIRE.v)",
        "Theorems C03_* (continue iff permitted; budget asked iff static conditions; sleep iff; no backoff after the last "
        "permitted attempt; stop reason sound) for all configurations/environments of the Gallina model; tie as C01 with the "
        "C03 projection; the Python oracle restates the iff per failed attempt on every observed trace.",
        RUNNER_NOTE, "DESIGN.md §4 C03",
    ),
    "C06": (
        "Coq proof (refinement of circuit.py's pruned deques to an epoch specification by induction over histories; opening rule as iff) tied (1) by a fail-closed AST translator that regenerates the methods of CircuitBreaker as terms of a deep embedding with a heap of deques (PyIRH.v) on every run, with re-proved obligations that each translated method computes the model's function on every related state and that every history computes Breaker.krun, and (2) by in-Coq correspondence on breaker histories incl. exhaustive small scope",
        "Theorems C06_* hold for every breaker configuration and every monotone history of the Gallina model of circuit.py; "
        "the model is compared with /repo's CircuitBreaker inside Coq on random boundary-biased and exhaustively enumerated "
        "small histories; disagreements that start while the model is CLOSED are attributed to C06.",
        "Trusted: Coq kernel + vm_compute; pyir_circuit.py and the interpreter PyIRH.exec (the meaning given to the translated Python "
        "fragment, constructor included); hand-written model Breaker.v (proved equal to the translated methods, and compared "
        "with the running code by the correspondence); Python driver, virtual "
        "clock; non-decreasing clock; 1/64 s grid; constructor preconditions.",
        "DESIGN.md §5 C06",
    ),
    "C07": (
        "Coq proof (state-machine lemmas over all histories: fail-fast window, single probe, close/reopen) tied by in-Coq correspondence on breaker histories and policy-level histories/interleavings; the breaker's methods are additionally tied by translation (PyIRH.v / CircuitIR obligations, as for C06); the policy wrappers are additionally tied by translation on every run (PyIRP.v: Policy / AsyncPolicy .call / .execute proved equal to Policy.policy_call, call sequences to Policy.policy_seq)",
        "Theorems C07_* hold for every configuration and history of the specification machine that C06_refinement ties to the "
        "circuit.py model, plus policy level (C07_policy_open_rejects, C07_policy_rejected_call on Policy.v); correspondence on "
        "open/half-open-cycle breaker histories (random + exhaustive small scope; disagreements that start while OPEN/HALF_OPEN are "
        "attributed to C07) and on policy call sequences (projection: admissions, invocations, records). Two known findings "
        "(records issued by a call that is not the probe) are kept with _refuted theorems and replayed on every run. Interleavings of concurrent calls: "
        "C07_single_probe_interleaved (all Admit/Settle histories excluding exactly those two kinds of record) is a theorem about "
        "the model; interleaved AsyncPolicy coroutines on one breaker are driven against it as well (InterleaveCorr.icase_ok: decisions, "
        "events and breaker state after every API call of the interleaved history; the single-probe oracle on histories in the "
        "theorem's scope).",
        "Trusted: as C06 (incl. pyir_circuit.py and the interpreter PyIRH.exec); policy-level part additionally trusts the scripted-world harness and hand-driven coroutines.",
        "DESIGN.md §5 C07",
    ),
    "C10": (
        "Coq proof (refinement of the pruned deque to the grant history + window-bound invariant by induction over histories) tied (1) by a fail-closed AST translator that regenerates budget.py as a term of a deep embedding (PyIR.v) on every run, with re-proved obligations that the translated __init__/_prune/consume/remaining compute the model's functions for every input, and (2) by in-Coq correspondence on Budget histories",
        "Theorems C10_refinement / C10_window_bound / C10_refuse_only_when_full / C10_remaining / C10_boundary hold for every "
        "budget size, window and monotone history of the Gallina model of budget.py; the model is compared with /repo's Budget on "
        "generated and exhaustively enumerated small histories inside Coq on every run, and BudgetIR.consume_ir_correct / "
        "remaining_ir_correct / init_ir_correct / ir_run_correct (re-proved on every run against the freshly translated source) "
        "state that the translated methods equal the model's consume / remaining / brun on every input.",
        "Trusted: Coq kernel + vm_compute; pyir_translate.py and the interpreter PyIR.exec (the meaning given to the translated "
        "Python fragment); hand-written model Budget.v (now also proved equal to the translated source); "
        "Python driver/virtual clock; non-decreasing monotonic clock; 1/64 s time grid (float arithmetic exact).",
        "DESIGN.md §5 C10",
    ),
    "C13": (
        "Coq proof (case analysis of the verdict of one loop iteration against its complete event list; loop-level 'ended pass is the last') tied by in-Coq trace correspondence (projection: polls, invocations, sleeps, classifications, budget calls, kind of delivery) with abort answers at every poll index and cancellation thrown at every suspension point of hand-driven coroutines; the retry loop is additionally tied by translation on every run: _RetryState._handle_failure = Runner.handle_failure (PyIRF.v), the sleep protocol of retry_helpers.py = Runner.backoff (PyIRS.v), the loop bodies of sync_core.py / async_core.py iterated = Runner.run (PyIRL.v), _RetryState.emit / check_abort / record_failure and the timeline hook = Runner.emit / Runner.check_abort / the last_fail update (PyIRE.v)",
        "Theorems C13_* (abort_if polled immediately before every attempt and, after the retry decision, before every sleep; a "
        "True answer or AbortRetryError ends the run as aborted with nothing but the `aborted` report after it; cancellation-type "
        "exceptions from the operation, before_sleep or the sleeper end the trace at that call and are delivered unchanged) for "
        "all configurations/environments of the Gallina model of the retry loop. Under attempt_timeout_s the async runs are tasks "
        "of a real asyncio loop on virtual time: cancellation is delivered by task.cancel() and work left on the loop after the "
        "run is made visible in the trace. The sugar entry points are compared with the Policy model (breaker = None); cancellations "
        "are also raised as a CancelledError subclass that derives from Exception — the check demonstrated on the pinned tree that "
        "sync Policy classified, recorded and (no-retry execute) swallowed those (fix commit f52464c, "
        "findings/witness/C13-pinned-tree.json).",
        RUNNER_NOTE, "DESIGN.md §4 C13, §15",
    ),
    "C16": (
        "Coq proof (the handler/before_sleep/sleeper calls of a pass as a function of its verdict; SLEEP/DEFER/ABORT consequences; override by definition of resolve) tied by in-Coq trace correspondence (projection: handler, before_sleep, sleeper calls with placement, attempt, delay, decision; invocations; delivery kind and next_sleep_s) over all placements and decision sequences; the retry loop is additionally tied by translation on every run: _RetryState._handle_failure = Runner.handle_failure (PyIRF.v), the sleep protocol of retry_helpers.py = Runner.backoff (PyIRS.v), the loop bodies of sync_core.py / async_core.py iterated = Runner.run (PyIRL.v), _RetryState.emit / check_abort / record_failure and the timeline hook = Runner.emit / Runner.check_abort / the last_fail update (PyIRE.v)",
        "Theorems C16_* (handler consulted exactly once per granted, not pre-empted retry with the computed delay; SLEEP => "
        "before_sleep then exactly one sleeper call with that delay then the next attempt unless the deadline passed during the "
        "sleep; DEFER => no sleep, SCHEDULED, next_sleep_s = delay; ABORT => ABORTED; call-level overrides policy-level; no handler "
        "=> sleep) for all configurations/environments of the Gallina model.",
        RUNNER_NOTE, "DESIGN.md §4 C16",
    ),
    "C04": (
        "Coq proof (the run's delivery is `deliver` of the pass that ended the loop; that pass is the last attempt; case analysis of its verdict) tied by in-Coq correspondence on what call() returns/raises (object identity by id registry, traceback frame checked by the driver); the retry loop is additionally tied by translation on every run: _RetryState._handle_failure = Runner.handle_failure (PyIRF.v), the sleep protocol of retry_helpers.py = Runner.backoff (PyIRS.v), the loop bodies of sync_core.py / async_core.py iterated = Runner.run (PyIRL.v), _RetryState.emit / check_abort / record_failure and the timeline hook = Runner.emit / Runner.check_abort / the last_fail update (PyIRE.v)",
        "Theorems C04_* (a final pass exists and is the last attempt; success => the value of that attempt; stop on an "
        "exception-caused failure => that attempt's own exception re-raised; stop on a result-caused failure or deferral => "
        "RetryExhaustedError with stop_reason, attempts, last_class, exactly one of last_result/last_exception and next_sleep_s "
        "describing that attempt) for all configurations/environments of the Gallina model; tracebacks are not modelled. "
        "attempt_timeout_s is exercised by the correspondence (transparent wrapper; an attempt that hangs is an exception failure "
        "after exactly the timeout; async runs on a real asyncio loop over virtual time; the sync wrapper _call_with_timeout is "
        "pinned by digest). Exception and result objects may be falsy, shared between attempts, chained, or one-member exception "
        "groups; fix commit 79c3974 repaired the sync wrapper returning None for a falsy exception "
        "(findings/witness/C04-falsy-exception.json).",
        RUNNER_NOTE, "DESIGN.md §4 C04",
    ),
    "C05": (
        "Coq proof (strategy calls of a pass as a function of its verdict; data-flow of the delay through the complete event list: Forall (carries d)) tied by in-Coq trace correspondence (projection: strategy calls with all arguments, delays seen by handler/before_sleep/sleeper/retry events, next_sleep_s); the retry loop is additionally tied by translation on every run: _RetryState._handle_failure = Runner.handle_failure (PyIRF.v), the sleep protocol of retry_helpers.py = Runner.backoff (PyIRS.v), the loop bodies of sync_core.py / async_core.py iterated = Runner.run (PyIRL.v), _RetryState.emit / check_abort / record_failure and the timeline hook = Runner.emit / Runner.check_abort / the last_fail update (PyIRE.v)",
        "Theorems C05_* (per-class strategy else default; at most one strategy call per failed attempt, exactly one per granted "
        "retry; arguments = attempt, classification incl. retry_after_s, previous delay, remaining time, cause; legacy signature; "
        "delay = min(max(0, finite(raw)), remaining); the same delay reaches handler, before_sleep, sleeper, retry/scheduled "
        "events and the next context's prev) for all configurations/environments of the Gallina model.",
        RUNNER_NOTE, "DESIGN.md §4 C05",
    ),
    "C11": (
        "Coq proof (as C04 for the execute delivery: every RetryOutcome field as a function of the final pass and the state it leaves; attempts = number of invocations by induction over the loop) tied by in-Coq correspondence on all RetryOutcome fields / the propagating exception; the retry loop is additionally tied by translation on every run: _RetryState._handle_failure = Runner.handle_failure (PyIRF.v), the sleep protocol of retry_helpers.py = Runner.backoff (PyIRS.v), the loop bodies of sync_core.py / async_core.py iterated = Runner.run (PyIRL.v), _RetryState.emit / check_abort / record_failure and the timeline hook = Runner.emit / Runner.check_abort / the last_fail update (PyIRE.v)",
        "Theorems C11_* (ok iff the final attempt succeeded and then value is its result; otherwise stop_reason, attempts = "
        "#invocations, last_class, cause, exactly one of last_exception/last_result of the final processed failure, none if "
        "aborted before any failure, next_sleep_s iff deferred; only cancellation-type exceptions and a nested "
        "RetryExhaustedError propagate) for the Gallina model; callback errors are outside the model; the no-retry builders are "
        "covered by policy-level correspondence only.",
        RUNNER_NOTE, "DESIGN.md §4 C11",
    ),
    "C14": (
        "Coq proof (the observability events of a run are the fan-out of a report sequence computed from the verdicts; grammar retry* terminal by induction over the loop; terminal report vs delivered stop reason) tied by in-Coq trace correspondence (projection: every on_metric/on_log call with arguments, captured timeline, delivered stop reason) incl. abort-sentinel scripts; the retry loop is additionally tied by translation on every run: _RetryState._handle_failure = Runner.handle_failure (PyIRF.v), the sleep protocol of retry_helpers.py = Runner.backoff (PyIRS.v), the loop bodies of sync_core.py / async_core.py iterated = Runner.run (PyIRL.v), _RetryState.emit / check_abort / record_failure and the timeline hook = Runner.emit / Runner.check_abort / the last_fail update (PyIRE.v)",
        "Theorems C14_* (metric hook and log hook receive exactly the run's report sequence, hence the same; normal runs report "
        "retry_1..retry_n with attempt = i then exactly one terminal event; the terminal report is success / aborted (stop reason "
        "only) / named after the stop reason in the state, which is the one delivered) for the Gallina model. Timeline equality and "
        "Policy's breaker events (attempt 0, breaker state) are NOT theorems: they are tied by the correspondence run and the "
        "oracle only.",
        RUNNER_NOTE, "DESIGN.md §4 C14",
    ),
    "C15": (
        "Coq proof (non-interference: runs in two worlds that differ only in which hook invocations raise are equal, by induction over the loop) tied by in-Coq full-trace correspondence with fault injection at every hook invocation index, plus silent-twin comparison on the implementation; the retry loop is additionally tied by translation on every run: _RetryState._handle_failure = Runner.handle_failure (PyIRF.v), the sleep protocol of retry_helpers.py = Runner.backoff (PyIRS.v), the loop bodies of sync_core.py / async_core.py iterated = Runner.run (PyIRL.v), _RetryState.emit / check_abort / record_failure and the timeline hook = Runner.emit / Runner.check_abort / the last_fail update (PyIRE.v)",
        "Theorems C15_* (same trace, delivery and final state incl. shared budget whatever on_metric / on_log / before_sleep "
        "invocations raise; the emission to the other sink and the timeline does not depend on the world) for the Gallina model, in "
        "which every hook call site goes through `guarded`; that the code guards every site is what the correspondence checks. "
        "Breaker-event emission by Policy is covered by correspondence only.",
        RUNNER_NOTE, "DESIGN.md §4 C15",
    ),
    "C08": (
        "Coq proof (case analysis of the wrapper's settlement for every delivery of the inner run; invariant 'no probe in flight between calls' by induction over call sequences; no-wedge lemma on the breaker) tied by in-Coq correspondence on spy-breaker calls with cancellation / nested-error injection into hand-driven coroutines, plus the probe-in-flight oracle on the real breaker; the policy wrappers are additionally tied by translation on every run (PyIRP.v: Policy / AsyncPolicy .call / .execute proved equal to Policy.policy_call, call sequences to Policy.policy_seq)",
        "Theorems C08_* (every admitted call issues exactly one record whatever the operation, before_sleep or the sleeper "
        "raise; every record releases the probe slot; after any sequence of ended calls no probe is in flight; with no call "
        "outstanding the next call is admitted once recovery_timeout has elapsed) for the Gallina model of the policy wrappers "
        "composed with the retry-loop and breaker models, as repaired by fix commit 4805882 (the check demonstrated the defect on "
        "the pinned tree: findings/witness/C08-pinned-tree.json). Raising attempt hooks/classifiers/strategies are outside the "
        "model.",
        "Trusted: Coq kernel + vm_compute; hand-written models Policy.v/Runner.v/Breaker.v (tied by the correspondence and by the translations of the wrappers, the retry loop and circuit.py: pyir_policy.py + PyIRP.v, pyir_loop/sleep/failure.py + PyIRL/S/F.v, pyir_circuit.py + PyIRH.v are trusted for those); scripted-"
        "world driver, spy breaker, virtual clock, hand-driven coroutines; calls on one breaker are sequential in these runs.",
        "DESIGN.md §5 C08",
    ),
    "C09": (
        "Coq proof (the breaker operations of one policy call = [allow] or [allow; one record]; record kind as a function of the delivery; loop events contain no breaker operation) tied by in-Coq correspondence on spy-breaker calls over call/execute x retry/no-retry x sync/async sequences; the policy wrappers are additionally tied by translation on every run (PyIRP.v: Policy / AsyncPolicy .call / .execute proved equal to Policy.policy_call, call sequences to Policy.policy_seq)",
        "Theorems C09_exactly_one, C09_kind, C09_not_per_attempt for all configurations/environments of the Gallina model of the "
        "policy wrappers (Policy.v) composed with Runner.v and Breaker.v; pre-flight aborts of policies without retry component "
        "are excluded by hypothesis (never admitted; known finding under C07).",
        "Trusted: as C08; classifiers are functions of the exception; nested RetryExhaustedError carries last_class=TRANSIENT in "
        "the scripts.",
        "DESIGN.md §5 C09",
    ),
    "C12": (
        "Coq proof (call vs execute of the retry loop by a simulation that forgets the captured timeline, by induction over the loop; call vs execute through the policy wrapper; Policy without breaker = Retry) tied by in-Coq full-trace correspondence of every entry point (32: Retry/Policy/RetryPolicy x call/execute, contexts, @retry, from_config, attribute configuration; sync and async) with the one model, plus pairwise comparison of the implementation's own traces (incl. callbacks at both levels); the delegating layers (wrappers.py, context.py, decorator.py, constructors / from_config / context() of the policy classes, RetryConfig) are additionally tied by translation on every run (pyir_sugar.py: every delegation hands over every parameter of its callee under its own name and every layer repeats the base defaults — obligations evaluated in Coq)",
        "Theorems C12_call_execute, C12_iter, C12_settle_call_execute, C12_policy_call_execute, C12_policy_without_breaker for all "
        "configurations/environments of the Gallina models. The sync/async twins and the sugar have no model of their own: they "
        "are tied by correspondence (each entry point against the same model, full trace) and by the pairwise oracle only. Two "
        "known findings (nested CircuitOpenError; raising strategy/sleeper on the result path) are kept, the first with a "
        "_refuted theorem, both replayed on every run.",
        RUNNER_NOTE, "DESIGN.md §5 C12",
    ),
    "C18": (
        "Coq proof (envelopes in exact rational arithmetic with the random draw as an input: linear/non-linear arithmetic over Q, min/max lemmas; multiplier bounds for every window content) tied by in-Coq equality of the implementation's float result with the model's rational on the exactness grid (patched random.uniform), plus envelope sampling off the grid",
        "Theorems C18_decorrelated, C18_equal_jitter, C18_token_backoff (for every integer attempt, with the unbounded power in the "
        "cap), C18_adaptive_multiplier, C18_adaptive, C18_retry_after_or over exact rationals; totality = the strategies are total "
        "functions in the model; the one place where float arithmetic raises (g ** attempt beyond the float range) was the defect "
        "repaired by fix commit e37d3df (the _pinned definitions and _refuted theorems describe the code before it). IEEE rounding is "
        "NOT modelled: equality with the model is demanded only where float arithmetic is exact; elsewhere the envelope is sampled "
        "with a 4-ulp tolerance.",
        "Trusted: Coq kernel + vm_compute; hand-written model Strategies.v (tied by correspondence only); strategies_driver.py with "
        "random.uniform replaced by a + (b - a) * r; exact float<->Fraction conversion; parameters valid (0 <= base_s <= max_s, ...).",
        "DESIGN.md §6 C18",
    ),
    "C20": (
        "Coq proof (totality and non-negativity of the parser for every character-class string and every answer of the date oracle; integer / date / garbage cases; attribute-before-headers; composition with retry_after_or and the retry loop's clamp) tied by in-Coq equality with the implementation's answers on generated strings, attribute values and header containers (now() frozen), incl. Python's int() itself against the model's py_int",
        "Theorems C20_parse_total, C20_coerce_total, C20_classifier_total, C20_integer(_general), C20_date_or_garbage, C20_blank, "
        "C20_attribute_first, C20_honoured for the Gallina model of extras/http.py (int() parsing incl. Unicode digits, underscores "
        "and the 4300-digit limit; int->float rounding and overflow; header lookup order), as repaired by fix commits a10e77c and "
        "a10a080 (the check demonstrated on the pinned tree that an OverflowError of the stdlib date parser escaped the classifier: "
        "findings/witness/C20-date-overflow.json). The stdlib HTTP-date parser is an oracle (its answer is universally quantified in "
        "the theorems and supplied by the driver in the correspondence); which exceptions it raises is not assumed: date-like garbage "
        "with numeric fields of any size is generated and any exception the code lets through is a violation. Every text is parsed "
        "twice, 100 s apart, in a process whose local zone is not UTC.",
        "Trusted: Coq kernel + vm_compute; hand-written model RetryAfter.v (tied by correspondence only); retry_after_driver.py "
        "(frozen now, container shapes); character classification by Python's str.isspace/isdecimal in the harness.",
        "DESIGN.md §6 C20",
    ),
    "C19": (
        "Coq proof (case analysis over a model of Python's built-in values; tables proved for every integer / every code string; precedence lemmas; regex search characterised) tied (1) by a fail-closed AST translator that regenerates _classify / default_classifier / strict_classifier, http.py's _coerce_status / http_classifier, sqlstate_classifier and pyodbc_classifier as decision programs (PyIRC.v) on every run, with re-proved obligations that they are the model's functions for every exception object, and (2) by in-Coq equality of all classifier answers on generated exception objects incl. exhaustive integer ranges",
        "Theorems C19_* (marker types win over codes, codes over names, strict ignores names; status table and http table for every "
        "integer; first-int attribute order of http_classifier; SQLSTATE table, attribute before args, fallbacks; optional-library "
        "classifier = default_classifier when the library is absent; an int sqlstate beyond CPython's int-to-str digit limit yields "
        "UNKNOWN; an `args` attribute of the exception's own type that cannot be iterated carries no arguments - fix commit 6ee7e8d, "
        "findings/witness/C19-args-attribute.json) for the Gallina model Classify.v over pyval. Totality is by "
        "construction in the model (total functions); that the code does not raise on this value universe is checked by the "
        "correspondence run. With-library behaviour of the optional classifiers is not claimed.",
        "Trusted: Coq kernel + vm_compute; pyir_classify.py and PyIRC.v (incl. the identification of the three name heuristics with "
        "the abstraction's three booleans); hand-written model Classify.v (default / strict / http proved equal to the translated "
        "source, likewise sqlstate / pyodbc up to the meaning of their two regular expressions; optional classifiers tied by "
        "correspondence only); classify_driver.py; the "
        "harness's transcription of values (str() text, code points, \\w flag per character).",
        "DESIGN.md §6 C19",
    ),
    "C17": (
        "Coq proof (generic linearizability of a lock-protected object by a simulation invariant over all schedules, program-order lemma, deadlock freedom; racing-probe / racing-failure / racing-consume corollaries by induction over the lock order) tied by (1) a fail-closed AST translator that regenerates the lock structure of circuit.py / budget.py into Coq on every run, where a discipline obligation must evaluate to true, and (2) line-level schedule exploration of the real classes against their sequential outcomes",
        "Theorems C17_linearizable, C17_deadlock_free (any object, any number of threads, any programs, any schedule), "
        "C17_racing_probes, C17_racing_failures, C17_racing_consumes (instances on the Breaker.v / Budget.v models), "
        "C17_discipline_shape. Step granularity: local prefix (clock read) / acquire / body steps / release; pre-emption within a "
        "source line, the GIL and lock fairness are not modelled.",
        "Trusted: Coq kernel + vm_compute; lockstruct.py (classification of statements into locked / unlocked segments and of "
        "attribute accesses; fails closed on unknown shapes); sched_driver.py (sys.settrace scheduler, cooperative lock replacing "
        "obj._lock); sequential behaviour tied by C06/C07/C10.",
        "DESIGN.md §6 C17",
    ),
}

NOT_YET = "check not built yet at this commit (work in progress; see DESIGN.md §10 build order)"


def main():
    checks = []
    for pid in ALL:
        if pid not in CHECKS or not os.path.exists(os.path.join(VERIF, "harness", "props", pid + ".py")):
            continue
        tech, text, note, ref = CHECKS[pid]
        checks.append(
            {
                "property_id": pid,
                "quick_cmd": f"./check {pid} --tier quick",
                "thorough_cmd": f"./check {pid} --tier thorough",
                "evidence_file": f"/verif/evidence/{pid}.json",
                "replay_cmd_template": f"./check {pid} --replay {{path}}",
                "engine": "coq-model+correspondence",
                "level_claimed": {"category": "proof", "text": text, "design_ref": ref},
                "level_note": note,
                "technique": tech,
            }
        )
    claimed = {c["property_id"] for c in checks}
    man = {
        "version": 1,
        "setup_cmd": "sh ./setup.sh",
        "hooks": {
            "guard": "REDRESS_VERIF",
            "enable": "no source hooks are needed: checks import /repo/src as it is (PYTHONPATH=/repo/src) and "
            "observe it through scripted callbacks, spies and a virtual clock; REDRESS_VERIF=1 is exported but unused; "
            "source_commits lists the unguarded `fix:` commits (repairs of genuine defects, see known-findings.txt), not hooks",
            "baseline_off_cmd": "cd /repo && /venv/bin/python -m pytest -ra -q -p no:cacheprovider --timeout=900",
            "source_commits": ["7959b97", "4805882", "e37d3df", "a10e77c", "7a1aae8", "844555a", "ca75464", "57ff40d", "f52464c", "a10a080",
                               "6ee7e8d", "79c3974", "aa2fde5", "09d7498", "5e3cae8", "2c81a8c", "5fde2c6"],
            "add_only": True,
        },
        "engines": [
            {
                "name": "coq-model+correspondence",
                "path": "/verif/coq, /verif/harness",
                "serves_properties": sorted(claimed),
                "kind_free_text": "hand-written executable Gallina model + Coq 8.16 theorems; tie = differential "
                "correspondence evaluated inside Coq (vm_compute) on traces of /repo's current source",
            }
        ],
        "checks": checks,
        "not_applicable": [{"property_id": p, "reason": NOT_YET} for p in ALL if p not in claimed],
        "notes": "See DESIGN.md. known-findings.txt lists fixed defects and kept findings.",
    }
    with open(os.path.join(VERIF, "MANIFEST.json"), "w") as f:
        json.dump(man, f, indent=1)
    print("claimed:", sorted(claimed))


if __name__ == "__main__":
    main()
