"""Regenerates the table of DESIGN.md §13.4 (which check catches which seeded change) from seeded/*/meta.json, seeded/MATRIX.json
and the replay files the matrix wrote.  Usage: python3 harness/mktable.py  (rewrites the table rows in place)."""
import json
import os
import re

VERIF = os.path.dirname(os.path.dirname(os.path.abspath(__file__)))


def kind_of(viol):
    m = re.search(r"replay=(\S+)", viol)
    if not m or not os.path.exists(m.group(1)):
        return "?"
    try:
        d = json.load(open(m.group(1)))
    except Exception:
        return "?"
    return d.get("kind", "?")


def rows():
    matrix = json.load(open(os.path.join(VERIF, "seeded", "MATRIX.json")))
    out = []
    stats = {"n": 0, "input": 0, "noinput": 0, "missed": 0, "obsolete": 0}
    for name in sorted(matrix):
        meta = json.load(open(os.path.join(VERIF, "seeded", name, "meta.json")))
        files = ", ".join(os.path.basename(f) for f in meta.get("files_changed", []))
        summ = " ".join(str(meta.get("summary", "")).split())
        summ = (summ[:150] + "…") if len(summ) > 150 else summ
        summ = summ.replace("|", "/")
        res = matrix[name]
        stats["n"] += 1
        if "obsolete" in res:
            verdict = f"obsolete since {res['obsolete']}"
            stats["obsolete"] += 1
        else:
            r = list(res.values())[0]
            if r.get("rc") == 1 and r.get("violations"):
                kinds = sorted({kind_of(v) for v in r["violations"]})
                if r.get("with_input"):
                    verdict = "failing input, " + " + ".join(kinds)
                    stats["input"] += 1
                else:
                    verdict = "reported, no failing input (" + " + ".join(kinds) + ")"
                    stats["noinput"] += 1
            else:
                verdict = "**not reported**"
                stats["missed"] += 1
        out.append(f"| {name} | {files} | {summ} | {verdict} |")
    return out, stats


if __name__ == "__main__":
    p = os.path.join(VERIF, "DESIGN.md")
    s = open(p).read()
    head = "| seeded change | file(s) | what it does | `./check` of its property (quick tier) |\n|---|---|---|---|\n"
    i = s.index(head) + len(head)
    j = i
    while s[j:j + 2] == "| ":
        j = s.index("\n", j) + 1
    r, stats = rows()
    s = s[:i] + "\n".join(r) + "\n" + s[j:]
    open(p, "w").write(s)
    print(stats)
