"""Property oracles for the retry loop: each property statement as a predicate over ONE call's
script + the trace / delivery observed on the implementation.  Used (a) on every trace of every run
as a cross-check, (b) to turn a broken correspondence into a concrete failing input.
An oracle returns None (holds) or a message naming the violated clause."""

NONRETRY = {"PERMANENT", "AUTH", "PERMISSION"}
NORMAL_END = {"return", "raise_op", "exhausted", "abort", "outcome"}
INF = float("inf")


class View:
    """One call, parsed: per-attempt segments of the implementation trace."""

    def __init__(self, call, obs, start):
        self.call, self.cfg, self.env = call, call["cfg"], call["env"]
        self.mode = call["mode"]
        self.trace, self.delivery = obs["trace"], obs["delivery"]
        self.start = start
        self.inv = [e for e in self.trace if e[0] == "I"]
        self.n = len(self.inv)
        # segments: seg[0] = events before the first invocation, seg[a] = events from I(a) on
        self.seg = [[]]
        for e in self.trace:
            if e[0] == "I":
                self.seg.append([e])
            else:
                self.seg[-1].append(e)
        self.metrics = [e for e in self.trace if e[0] == "M"]
        self.logs = [e for e in self.trace if e[0] == "L"]

    def op(self, a):
        ops = self.env["ops"]
        return (ops[a - 1] if a - 1 < len(ops) else ["V", 0, None, None])[:4]

    def fail_class(self, a):
        """class of attempt a's failure (None when it is a success / abort / cancel / nested)"""
        kind, dur, klass, ra = self.op(a)
        if kind in ("R", "O"):
            return klass, "exception", ra
        if kind == "V" and klass is not None and self.cfg["has_rc"]:
            return klass, "result", ra
        return None

    def is_success(self, a):
        kind, dur, klass, ra = self.op(a)
        return kind == "V" and (klass is None or not self.cfg["has_rc"])

    def t_invoke(self, a):
        return self.inv[a - 1][2]

    def t_fail(self, a):
        return self.t_invoke(a) + self.op(a)[1]

    def processed(self, a):
        """attempt a's failure was classified and counted (not pre-empted by the abort poll)"""
        fc = self.fail_class(a)
        if fc is None or a > self.n:
            return False
        seg = self.seg[a]
        polls = [e for e in seg if e[0] == "P"]
        if self.cfg["has_abort"] and polls and polls[0][1] is True:
            return False
        return True

    def stop_delivered(self):
        d = self.delivery
        if d[0] == "exhausted":
            return d[1]
        if d[0] == "abort":
            return "ABORTED"
        if d[0] == "outcome":
            return d[1]["stop"]
        return None

    def strategy_for(self, klass):
        if klass in self.cfg["strat_tab"]:
            return klass, self.cfg["strat_tab"][klass]
        if self.cfg["strat_default"] is not None:
            return "default", self.cfg["strat_default"]
        return None

    def who(self, what):
        if self.cfg[what + "_c"]:
            return "call"
        if self.cfg[what + "_p"]:
            return "policy"
        return None


def fin(v):
    return 0 if v in ("nan", "inf", "-inf") else 2**1000 if v in ("huge", "hugeint") else -2**1000 if v in ("-huge", "-hugeint") else v


# ------------------------------------------------------------------------------------------------
def c01(v):
    ma = v.cfg["max_attempts"]
    if v.n > max(0, ma):
        return f"operation invoked {v.n} times with max_attempts={ma}"
    if [e[1] for e in v.inv] != list(range(1, v.n + 1)):
        return f"attempt numbers are not 1..n: {[e[1] for e in v.inv]}"
    retries = {}
    for a in range(1, v.n + 1):
        fc = v.fail_class(a)
        if fc is None:
            continue
        k = fc[0]
        if a < v.n:
            if k in NONRETRY and v.processed(a):
                return f"attempt {a} failed with {k} (non-retryable) but the operation was invoked again"
            retries[k] = retries.get(k, 0) + 1
    for k, n in retries.items():
        lim = v.cfg["per_class"].get(k)
        if lim is not None and n > max(0, lim):
            return f"{n} retries granted after {k} failures with per_class_max_attempts[{k}]={lim}"
        if k == "UNKNOWN" and v.cfg["max_unknown"] is not None and n > max(0, v.cfg["max_unknown"]):
            return f"{n} retries granted after UNKNOWN failures with max_unknown_attempts={v.cfg['max_unknown']}"
    return None


def c02(v):
    dl = v.cfg["deadline"]
    total = 0
    for e in v.trace:
        if e[0] == "I" and e[1] >= 2 and e[2] - v.start > dl:
            return f"attempt {e[1]} started at elapsed {e[2] - v.start} > deadline {dl}"
        if e[0] == "SL":
            d, t = e[2], e[3]
            if not isinstance(d, int) or d < 0 or d > dl - (t - v.start):
                return f"sleep of {d} requested at elapsed {t - v.start}: remaining {dl - (t - v.start)}"
            total += d
    if total > max(0, dl):
        return f"total requested sleep {total} > deadline {dl}"
    for a in range(1, v.n + 1):
        if v.fail_class(a) is not None and v.t_fail(a) - v.start >= dl:
            rest = [e for e in v.seg[a][1:] if e[0] == "SL" or (e[0] == "B" and e[1]) or (e[0] == "M" and e[1] == "retry")]
            if rest or a < v.n:
                return f"attempt {a} failed at elapsed {v.t_fail(a) - v.start} >= deadline {dl} but was retried ({rest[:1] or 'invoked again'})"
    return None


def c03(v):
    cfg = v.cfg
    m = poll_placement(v)
    if m:
        return m + " — so the run can go on although an abort is requested"
    cnt, unk = {}, 0
    for a in range(1, v.n + 1):
        seg = v.seg[a]
        if v.is_success(a):
            if a < v.n:
                return f"attempt {a} succeeded but the operation was invoked again"
            bad = [e for e in seg[1:] if e[0] in ("SL", "B", "ST", "H", "BS") or (e[0] == "M" and e[1] != "success")]
            if bad:
                return f"after the successful attempt {a}: {bad[0]}"
            continue
        fc = v.fail_class(a)
        if fc is None:
            continue
        k, cause, ra = fc
        polls = [e[1] for e in seg if e[0] == "P"]
        granted_ev = [e for e in seg if e[0] == "M" and e[1] == "retry"]
        bud = [e for e in seg if e[0] == "B"]
        sleeps = [e for e in seg if e[0] == "SL"]
        strat_calls = [e for e in seg if e[0] == "ST"]
        has_next = a < v.n
        poll1 = cfg["has_abort"] and len(polls) >= 1 and polls[0]
        if poll1:
            if granted_ev or bud or sleeps or has_next:
                return f"attempt {a}: abort requested after the failure, yet {'retried' if has_next else (granted_ev or bud or sleeps)[0]}"
            continue
        cnt[k] = cnt.get(k, 0) + 1
        if k == "UNKNOWN" and not (cfg["per_class"].get(k) is not None and cnt[k] > cfg["per_class"][k]) and k not in NONRETRY:
            unk += 1
        el = v.t_fail(a) - v.start
        conds = {
            "MAX_ATTEMPTS_PER_CLASS": cfg["per_class"].get(k) is not None and cnt[k] > cfg["per_class"][k],
            "NON_RETRYABLE_CLASS": k in NONRETRY,
            "MAX_UNKNOWN_ATTEMPTS": k == "UNKNOWN" and cfg["max_unknown"] is not None and unk > cfg["max_unknown"],
            "DEADLINE_EXCEEDED": el >= cfg["deadline"],
            "NO_STRATEGY": v.strategy_for(k) is None,
            "MAX_ATTEMPTS_GLOBAL": a >= cfg["max_attempts"],
        }
        static_ok = not any(conds.values())
        consumed = len(bud) > 0
        has_budget = v.call.get("_budget") is not None
        if static_ok and has_budget and not consumed:
            return f"attempt {a}: retry permitted but the budget was not asked"
        if not static_ok and (consumed or granted_ev or sleeps or has_next):
            what = "budget token spent" if consumed and bud[0][1] else "retry event" if granted_ev else "sleep" if sleeps else \
                "another attempt" if has_next else "budget asked"
            return (f"attempt {a} (class {k}, elapsed {el}): {what} although a stop condition holds: "
                    f"{[r for r, c in conds.items() if c]}")
        grant = static_ok and (not has_budget or (consumed and bud[0][1]))
        if cfg["has_metric"] and bool(granted_ev) != grant:
            return f"attempt {a}: retry event {'emitted' if granted_ev else 'missing'} but grant is {grant}"
        if not grant:
            if sleeps or has_next:
                return f"attempt {a}: no retry granted (budget refused / stop) but {'slept' if sleeps else 'retried'}"
            # reported reason must be a stop condition that holds
            r = v.stop_delivered()
            if a == v.n and r is not None and r not in ("ABORTED",):
                holds = dict(conds, BUDGET_EXHAUSTED=static_ok and has_budget and consumed and not bud[0][1])
                if r in holds and not holds[r]:
                    return f"attempt {a}: reported stop reason {r} does not hold (holding: {[x for x, c in holds.items() if c]})"
            continue
        poll2 = cfg["has_abort"] and len(polls) >= 2 and polls[1]
        hw = v.who("handler")
        dec = "S"
        if hw is not None and not poll2:
            # the decision the configured sleep handler gives for this attempt (scripted), whether or not it was asked
            hl = v.env.get("handler") or []
            dec = hl[a - 1] if a - 1 < len(hl) else "S"
            hs = [e for e in seg if e[0] == "H"]
            if len(hs) != 1:
                return f"attempt {a}: retry granted with a sleep handler configured ({hw}), but it was consulted {len(hs)} times"
        bs_c = v.env["bs_cancel"][a - 1] if a - 1 < len(v.env["bs_cancel"]) else None
        bs_c = bs_c if v.who("bs") else None
        should_sleep = (not poll2) and dec == "S" and not bs_c
        if bool(sleeps) != should_sleep:
            return f"attempt {a}: sleeper {'called' if sleeps else 'not called'} but grant={grant} poll={poll2} handler={dec}"
        sc = v.env["sleep_cancel"][a - 1] if a - 1 < len(v.env["sleep_cancel"]) else None
        if should_sleep and not sc:
            d, t = sleeps[0][2], sleeps[0][3]
            ov = v.env["over"][a - 1] if a - 1 < len(v.env["over"]) else 0
            after = t + d + ov - v.start
            poll_top = False
            if has_next:
                pass
            else:
                nxt = [e[1] for e in seg[seg.index(sleeps[0]):] if e[0] == "P"]
                poll_top = cfg["has_abort"] and bool(nxt) and nxt[-1]
            expect_next = after <= cfg["deadline"] and a < cfg["max_attempts"] and not poll_top
            if has_next != expect_next:
                return (f"attempt {a}: slept {d} (elapsed after sleep {after}, deadline {cfg['deadline']}) and "
                        f"{'was' if has_next else 'was not'} followed by another attempt")
            if not has_next and a == v.n:
                r = v.stop_delivered()
                if r == "DEADLINE_EXCEEDED" and not after > cfg["deadline"]:
                    return f"attempt {a}: DEADLINE_EXCEEDED reported but elapsed after sleep is {after} <= {cfg['deadline']}"
                if r == "MAX_ATTEMPTS_GLOBAL" and not a >= cfg["max_attempts"]:
                    return f"attempt {a}: MAX_ATTEMPTS_GLOBAL reported with max_attempts={cfg['max_attempts']}"
        elif has_next:
            return f"attempt {a}: no sleep (poll={poll2}, handler={dec}) but the operation was invoked again"
    return None


def c04(v):
    if v.mode != "call":
        return None
    d = v.delivery
    if d[0] in ("cancel", "cancel_sleep", "nested", "runtime_error"):
        return None
    if d[0] == "return":
        if d[1] != v.n or not v.is_success(v.n):
            return f"call() returned the value of attempt {d[1]} (last attempt {v.n}, success={v.is_success(v.n) if v.n else None})"
        if any(v.is_success(a) for a in range(1, v.n)):
            return "an earlier attempt already succeeded"
        return None
    if v.n == 0:
        return None
    a = v.n
    if v.is_success(a):
        return f"attempt {a} succeeded but call() delivered {d}"
    if d[0] == "abort":
        return None
    fc = v.fail_class(a)
    if fc is None:
        return None if d[0] in ("abort",) else f"unexpected delivery {d}"
    k, cause, ra = fc
    term = v.metrics[-1] if v.metrics else None
    sched = [e for e in v.seg[a] if e[0] == "H" and e[5] == "D"]
    if cause == "exception" and not sched:
        if d != ["raise_op", a]:
            return f"retries stopped on the exception of attempt {a} but call() delivered {d}"
        return None
    if d[0] != "exhausted":
        return f"retries stopped on a {cause} failure{' (deferred)' if sched else ''} of attempt {a} but call() delivered {d}"
    _, stop, attempts, lc, lexc, lres, nxt = d
    if attempts != a or lc != k:
        return f"RetryExhaustedError(attempts={attempts}, last_class={lc}) does not describe attempt {a} ({k})"
    if cause == "exception" and (lexc != a or lres is not None):
        return f"RetryExhaustedError.last_exception/last_result = {lexc}/{lres}, expected the exception of attempt {a} only"
    if cause == "result" and (lres != a or lexc is not None):
        return f"RetryExhaustedError.last_result/last_exception = {lres}/{lexc}, expected the result of attempt {a} only"
    if sched:
        if stop != "SCHEDULED" or nxt != sched[0][4]:
            return f"deferred with delay {sched[0][4]} but RetryExhaustedError has stop_reason={stop} next_sleep_s={nxt}"
    else:
        if nxt is not None or stop == "SCHEDULED":
            return f"not deferred but RetryExhaustedError has stop_reason={stop} next_sleep_s={nxt}"
        if term is not None and term[4].get("stop_reason") not in (None, stop):
            return f"terminal event says {term[4].get('stop_reason')} but RetryExhaustedError.stop_reason={stop}"
    return None


def c05(v):
    prev = None
    for a in range(1, v.n + 1):
        seg = v.seg[a]
        sts = [e for e in seg if e[0] == "ST"]
        if len(sts) > 1:
            return f"strategy called {len(sts)} times for attempt {a}"
        retry_m = [e for e in seg if e[0] == "M" and e[1] == "retry"]
        retry_l = [e for e in seg if e[0] == "L" and e[1] == "retry"]
        if (retry_m or retry_l) and not sts:
            return f"retry granted at attempt {a} without consulting a strategy"
        if not sts:
            continue
        fc = v.fail_class(a)
        if fc is None:
            return f"strategy consulted at attempt {a} which did not fail"
        k, cause, ra = fc
        _, sid, legacy, att, klass, sra, sprev, srem, scause = sts[0]
        exp = v.strategy_for(k)
        if exp is None or sid != exp[0]:
            return f"attempt {a} class {k}: strategy '{sid}' consulted, expected {exp and exp[0]}"
        rem = v.cfg["deadline"] - (v.t_fail(a) - v.start)
        if legacy:
            if (att, klass, sprev) != (a, k, prev):
                return f"legacy strategy got (attempt={att}, klass={klass}, prev={sprev}), expected ({a}, {k}, {prev})"
        else:
            if (att, klass, sra, sprev, srem, scause) != (a, k, ra, prev, rem, cause):
                return (f"strategy context (attempt={att}, klass={klass}, retry_after={sra}, prev={sprev}, remaining={srem}, "
                        f"cause={scause}), expected ({a}, {k}, {ra}, {prev}, {rem}, {cause})")
        raw = v.env["strat"][a - 1] if a - 1 < len(v.env["strat"]) else 0
        d = min(max(0, fin(raw)), rem)
        granted = bool(retry_m or retry_l) or any(e[0] in ("SL", "H", "BS") for e in seg) or a < v.n
        for e in seg:
            seen = None
            if e[0] == "SL":
                seen = e[2]
            elif e[0] == "H":
                seen = e[4]
            elif e[0] == "BS":
                seen = e[3]
            elif e[0] in ("M", "L") and e[1] == "retry":
                seen = e[3]
            if seen is not None and seen != d:
                return f"attempt {a}: strategy returned {raw} with {rem} remaining -> delay {d}, but {e[0]} saw {seen}"
        if a < v.n and not any(e[0] == "SL" for e in seg):
            return (f"attempt {a + 1} started although the sleeper never received the delay ({d}) of the retry granted "
                    f"after attempt {a}")
        if granted:
            prev = d
        if a == v.n:
            nxt = v.delivery[6] if v.delivery[0] == "exhausted" else v.delivery[1]["next"] if v.delivery[0] == "outcome" else None
            sched = [e for e in seg if e[0] == "H" and e[5] == "D"]
            if sched and v.delivery[0] in ("exhausted", "outcome") and nxt != d:
                return f"deferred with delay {d} but next_sleep_s={nxt}"
    return None


def last_processed(v):
    for a in range(v.n, 0, -1):
        if v.processed(a):
            return a
    return None


def c11(v):
    if v.mode != "execute":
        return None
    d = v.delivery
    if d[0] in ("cancel", "cancel_sleep", "nested"):
        return None
    if d[0] != "outcome":
        return f"execute() did not return a RetryOutcome: {d[:3]}"
    o = d[1]
    succ = v.n >= 1 and v.is_success(v.n)
    if o["ok"] != succ:
        return f"ok={o['ok']} but the final attempt {'succeeded' if succ else 'did not succeed'}"
    if o["ok"]:
        if o["value"] != v.n or any(o[f] is not None for f in ("stop", "class", "exc", "res", "cause", "next")):
            return f"successful outcome carries value={o['value']} (attempt {v.n}) and {o}"
        if o["attempts"] != v.n:
            return f"attempts={o['attempts']} but the operation was invoked {v.n} times"
        return None
    if o["attempts"] != v.n:
        return f"attempts={o['attempts']} but the operation was invoked {v.n} times"
    if o["stop"] is None:
        return "failed outcome without stop_reason"
    lp = last_processed(v)
    if lp is None:
        if any(o[f] is not None for f in ("class", "exc", "res", "cause")):
            return f"no failure was processed but the outcome reports class={o['class']} cause={o['cause']}"
    else:
        k, cause, ra = v.fail_class(lp)
        if o["class"] != k or o["cause"] != cause:
            return f"last_class/cause = {o['class']}/{o['cause']}, final failure (attempt {lp}) is {k}/{cause}"
        if cause == "exception" and (o["exc"] != lp or o["res"] is not None):
            return f"last_exception/last_result = {o['exc']}/{o['res']}, expected the exception of attempt {lp} only"
        if cause == "result" and (o["res"] != lp or o["exc"] is not None):
            return f"last_result/last_exception = {o['res']}/{o['exc']}, expected the result of attempt {lp} only"
    sched = [e for e in v.seg[v.n] if e[0] == "H" and e[5] == "D"] if v.n else []
    if (o["next"] is not None) != (o["stop"] == "SCHEDULED"):
        return f"next_sleep_s={o['next']} with stop_reason={o['stop']}"
    if sched and (o["stop"] != "SCHEDULED" or o["next"] != sched[0][4]):
        return f"handler deferred with delay {sched[0][4]} but outcome has stop_reason={o['stop']} next_sleep_s={o['next']}"
    if v.metrics:
        t = v.metrics[-1]
        if t[4].get("stop_reason") not in (None, o["stop"]):
            return f"terminal event stop_reason {t[4].get('stop_reason')} != outcome.stop_reason {o['stop']}"
    return None


def poll_placement(v):
    """abort_if is consulted before every attempt and, after the retry decision, before every sleep"""
    if not v.cfg["has_abort"]:
        return None
    since_poll = False
    for e in v.trace:
        if e[0] == "P":
            since_poll = True
        elif e[0] == "I":
            if not since_poll:
                return f"attempt {e[1]} started without consulting abort_if first (an abort requested during the backoff would be missed)"
            since_poll = False
        elif e[0] == "M" and e[1] == "retry":
            since_poll = False
        elif e[0] == "SL":
            if not since_poll:
                return "sleep started without consulting abort_if after the retry decision"
            since_poll = False
    return None


def c13(v):
    cfg = v.cfg
    aborted_at = None
    for idx, e in enumerate(v.trace):
        if e[0] == "P" and e[1]:
            aborted_at = idx
            break
    if aborted_at is not None:
        rest = [e for e in v.trace[aborted_at + 1:] if e[0] in ("I", "SL", "B", "ST", "K", "RK", "H", "BS")]
        if rest:
            return f"after abort_if returned True: {rest[0]}"
        if not (v.delivery[0] == "abort" or (v.delivery[0] == "outcome" and v.delivery[1]["stop"] == "ABORTED")):
            return f"abort requested but the run ended with {v.delivery[:2]}"
    m = poll_placement(v)
    if m:
        return m
    for a in range(1, v.n + 1):
        kind, dur, klass, ra = v.op(a)
        if kind == "A":
            if a < v.n or any(e[0] in ("SL", "B", "ST", "K") for e in v.seg[a]):
                return f"operation raised AbortRetryError at attempt {a} but work continued"
            if not (v.delivery[0] == "abort" or (v.delivery[0] == "outcome" and v.delivery[1]["stop"] == "ABORTED")):
                return f"AbortRetryError at attempt {a} but the run ended with {v.delivery[:2]}"
        if kind == "C":
            if len(v.seg[a]) > 1 or a < v.n:
                return f"{klass} raised by attempt {a} but the library went on: {v.seg[a][1:2] or 'invoked again'}"
            if v.delivery != ["cancel", klass, a]:
                return f"{klass} raised by attempt {a} but {v.delivery[:3]} left the call"
    for a in range(1, v.n + 1):
        sc = v.env["sleep_cancel"][a - 1] if a - 1 < len(v.env["sleep_cancel"]) else None
        sl = [i for i, e in enumerate(v.seg[a]) if e[0] == "SL"]
        if sc and sl:
            if len(v.seg[a]) > sl[0] + 1 or a < v.n:
                return f"{sc} raised during the sleep after attempt {a} but the library went on"
            if v.delivery[:2] != ["cancel_sleep", sc]:
                return f"{sc} raised during the sleep after attempt {a} but {v.delivery[:3]} left the call"
    for a in range(1, v.n + 1):
        bc = v.env["bs_cancel"][a - 1] if a - 1 < len(v.env["bs_cancel"]) else None
        bs = [i for i, e in enumerate(v.seg[a]) if e[0] == "BS"]
        if bc and bs:
            if len(v.seg[a]) > bs[0] + 1 or a < v.n:
                return f"{bc} raised inside before_sleep after attempt {a} but the library went on: {v.seg[a][bs[0] + 1:bs[0] + 2] or 'invoked again'}"
            if v.delivery[:2] != ["cancel_sleep", bc]:
                return f"{bc} raised inside before_sleep after attempt {a} but {v.delivery[:3]} left the call"
    return None


def c14(v):
    if v.delivery[0] not in NORMAL_END:
        return None
    cfg = v.cfg
    for sink, evs in (("on_metric", v.metrics if cfg["has_metric"] else None), ("on_log", v.logs if cfg["has_log"] else None)):
        if evs is None:
            continue
        names = [e[1] for e in evs]
        if not names:
            return f"{sink}: no event for a run that ended normally"
        if any(n != "retry" for n in names[:-1]) or names[-1] == "retry":
            return f"{sink}: event sequence {names} is not retry* followed by exactly one terminal event"
        for i, e in enumerate(evs[:-1]):
            if e[2] != i + 1:
                return f"{sink}: {i + 1}-th retry event has attempt={e[2]}"
            sl = [x for x in v.seg[i + 1] if x[0] == "SL"] if i + 1 < len(v.seg) else []
            if sl and sl[0][2] != e[3]:
                return f"{sink}: retry event {i + 1} reports sleep {e[3]} but the sleeper got {sl[0][2]}"
        t = evs[-1]
        tags = t[4]
        ok = v.delivery[0] == "return" or (v.delivery[0] == "outcome" and v.delivery[1]["ok"])
        if (t[1] == "success") != ok:
            return f"{sink}: terminal event {t[1]} but the run {'succeeded' if ok else 'did not succeed'}"
        if not ok:
            r = v.stop_delivered()
            if "stop_reason" not in tags:
                return f"{sink}: terminal event {t[1]} has no stop_reason tag"
            if r is not None and tags["stop_reason"] != r:
                return f"{sink}: terminal stop_reason {tags['stop_reason']} but {r} was delivered"
            if r is None and v.delivery[0] == "outcome":
                return f"{sink}: terminal event {t[1]} carries stop_reason {tags['stop_reason']} but the outcome has stop_reason=None"
            if t[1] == "aborted":
                if set(tags) - {"stop_reason", "operation"}:
                    return f"{sink}: aborted event carries {sorted(tags)}"
            else:
                lp = last_processed(v)
                if lp is not None:
                    k, cause, ra = v.fail_class(lp)
                    if tags.get("class") != k or tags.get("cause") != cause or (("err" in tags) != (cause == "exception")):
                        return f"{sink}: terminal tags {tags} do not describe the final failure ({k}, {cause})"
        if bool(cfg["has_opname"]) != ("operation" in tags):
            return f"{sink}: operation tag {'missing' if cfg['has_opname'] else 'unexpected'}"
    if cfg["has_metric"] and cfg["has_log"]:
        a = [(e[1], e[2], e[3], e[4]) for e in v.metrics]
        b = [(e[1], e[2], e[3], e[4]) for e in v.logs]
        if a != b:
            return f"metric hook and log hook received different sequences: {[x[0] for x in a]} vs {[x[0] for x in b]}"
    if v.delivery[0] == "outcome" and v.delivery[1]["tl"] is not None and cfg["has_metric"]:
        tl = [(x[1], x[0], x[3], x[4], x[5], x[6]) for x in v.delivery[1]["tl"]]
        me = [(e[1], e[2], e[3], e[4].get("class"), e[4].get("stop_reason"), e[4].get("cause")) for e in v.metrics]
        if tl != me:
            return f"timeline {[x[0] for x in tl]} differs from the metric hook's events {[x[0] for x in me]}"
    if v.delivery[0] == "outcome" and v.delivery[1]["tl"] is not None and not cfg["has_metric"]:
        names = [x[1] for x in v.delivery[1]["tl"]]
        if not names or any(n != "retry" for n in names[:-1]) or names[-1] == "retry":
            return f"timeline {names} is not retry* followed by one terminal event"
    return None


def c16(v):
    cfg = v.cfg
    hw, bw = v.who("handler"), v.who("bs")
    sw = v.who("sleeper") or "default"
    for a in range(1, v.n + 1):
        seg = v.seg[a]
        grant = [i for i, e in enumerate(seg) if (e[0] == "M" and e[1] == "retry")]
        hs = [e for e in seg if e[0] == "H"]
        bs = [e for e in seg if e[0] == "BS"]
        sl = [e for e in seg if e[0] == "SL"]
        if len(hs) > 1 or len(sl) > 1 or len(bs) > 1:
            return f"attempt {a}: handler/before_sleep/sleeper called {len(hs)}/{len(bs)}/{len(sl)} times"
        if hs and hs[0][1] != hw:
            return f"attempt {a}: {hs[0][1]}-level sleep handler used, expected {hw}"
        if bs and bs[0][1] != bw:
            return f"attempt {a}: {bs[0][1]}-level before_sleep used, expected {bw}"
        if sl and sl[0][1] != sw:
            return f"attempt {a}: {sl[0][1]} sleeper used, expected {sw}"
        if not cfg["has_metric"]:
            continue
        if not grant:
            if hs or bs or sl:
                return f"attempt {a}: no retry granted but handler/before_sleep/sleeper was called"
            continue
        d = seg[grant[0]][3]
        polls_after = [e[1] for e in seg[grant[0]:] if e[0] == "P"]
        pre_empted = cfg["has_abort"] and polls_after and polls_after[0]
        if pre_empted:
            if hs or bs or sl:
                return f"attempt {a}: abort requested before the backoff but handler/before_sleep/sleeper was called"
            continue
        if hw is not None:
            if len(hs) != 1 or hs[0][4] != d:
                return f"attempt {a}: granted retry with delay {d}: handler calls {hs}"
            dec = hs[0][5]
        else:
            if hs:
                return f"attempt {a}: handler called but none configured"
            dec = "S"
        if dec == "S":
            if bw is not None and (len(bs) != 1 or bs[0][3] != d):
                return f"attempt {a}: SLEEP with delay {d}: before_sleep calls {bs}"
            bc = v.env["bs_cancel"][a - 1] if a - 1 < len(v.env["bs_cancel"]) else None
            if bw is not None and bc:
                continue
            if len(sl) != 1 or sl[0][2] != d:
                return f"attempt {a}: SLEEP with delay {d}: sleeper calls {sl}"
            if bs and seg.index(bs[0]) > seg.index(sl[0]):
                return f"attempt {a}: before_sleep called after the sleeper"
        else:
            if bs or sl or a < v.n:
                return f"attempt {a}: handler answered {dec} but {'slept' if sl else 'before_sleep ran' if bs else 'the operation was invoked again'}"
            r = v.stop_delivered()
            if dec == "D":
                nxt = v.delivery[6] if v.delivery[0] == "exhausted" else v.delivery[1]["next"] if v.delivery[0] == "outcome" else None
                if r != "SCHEDULED" or nxt != d:
                    return f"attempt {a}: DEFER with delay {d} but the run ended {v.delivery[0]} stop={r} next_sleep_s={nxt}"
            if dec == "A" and (r != "ABORTED" or v.delivery[0] not in ("abort", "outcome")):
                return (f"attempt {a}: the sleep handler answered ABORT but the run ended {v.delivery[0]} stop={r} "
                        f"(expected AbortRetryError from call(), an ABORTED outcome from execute())")
    return None


def c10(v):
    """policy level: every retry event is backed by a granted token; budget_exhausted only on refusal"""
    if v.call.get("_budget") is None:
        return None
    for a in range(1, v.n + 1):
        seg = v.seg[a]
        bud = [e for e in seg if e[0] == "B"]
        r = [e for e in seg if e[0] == "M" and e[1] == "retry"]
        x = [e for e in seg if e[0] == "M" and e[1] == "budget_exhausted"]
        if len(bud) > 1:
            return f"attempt {a}: budget asked {len(bud)} times"
        if r and not (bud and bud[0][1]):
            return f"attempt {a}: retry event without a granted budget token"
        if x and not (bud and not bud[0][1]):
            return f"attempt {a}: budget_exhausted reported although the budget did not refuse"
        if bud and not bud[0][1] and (a < v.n or any(e[0] == "SL" for e in seg)):
            return f"attempt {a}: budget refused but the call went on"
    return None


def delay_flow(v):
    """the one delay of a granted retry: what the retry events report, what the sleep handler and before_sleep are shown and
    what the sleeper receives are the same number, and a SLEEP decision is followed by exactly one sleeper call.  This clause of
    C05 / C14 / C16 does not depend on where time passes, so it is also applied to scripts whose hooks take time (for which
    there is no model)."""
    for a, seg in enumerate(v.seg):
        announced = None      # (source, delay)
        sleeps = 0
        for e in seg:
            if e[0] in ("M", "L") and e[1] == "retry":
                d, src = e[3], f"the retry event of the {'metric' if e[0] == 'M' else 'log'} hook"
            elif e[0] == "H":
                d, src = e[4], "the sleep handler"
            elif e[0] == "BS":
                d, src = e[3], "before_sleep"
            elif e[0] == "SL":
                d, src = e[2], "the sleeper"
                sleeps += 1
            else:
                continue
            if announced is not None and d != announced[1]:
                return f"attempt {a}: {announced[0]} saw a delay of {announced[1]} ticks, {src} {d}"
            if announced is None:
                announced = (src, d)
        if sleeps > 1:
            return f"attempt {a}: {sleeps} sleeper calls for one granted retry"
    return None


ORACLES = {"C01": c01, "C02": c02, "C03": c03, "C04": c04, "C05": c05, "C11": c11, "C13": c13, "C14": c14,
           "C16": c16, "C10": c10, "DELAYFLOW": delay_flow}


def views(seq, obs):
    """View objects for every call of a sequence (start time of each call reconstructed)."""
    out = []
    t = seq["t0"]
    for call, o in zip(seq["calls"], obs):
        start = t + call.get("gap", 0)
        pol = seq["policies"][call["policy"]]
        call = dict(call)
        call["_budget"] = seq.get("budget") if pol.get("use_budget", True) else None
        out.append(View(call, o, start))
        t = o.get("end", start)
    return out


def runaway(seq, obs):
    """a call stopped by the recorder: every property of the retry loop bounds the work of one call (at most max_attempts
    invocations, one sleep per granted retry, one hook call per event)"""
    for j, (call, o) in enumerate(zip(seq["calls"], obs)):
        if o["delivery"] and o["delivery"][0] == "runaway":
            kinds = {}
            for e in o["trace"]:
                kinds[e[0]] = kinds.get(e[0], 0) + 1
            o["trace"] = o["trace"][:60] + [["...", len(o["trace"])]]
            return (f"call #{j} ({call['entry']}.{call['mode']}{' async' if call['async'] else ''}): more than {o['delivery'][1]} observable "
                    f"actions in one call with max_attempts={seq['policies'][call['policy']].get('max_attempts')} (by kind: {kinds}); stopped by the recorder")
    return None


def check_seq(pid, seq, obs):
    m = runaway(seq, obs)
    if m:
        return m
    f = ORACLES[pid]
    for j, v in enumerate(views(seq, obs)):
        try:
            # every property of the retry loop presupposes that a run ends in one of the documented ways; an exception that
            # neither the operation nor a scripted callback raised (the scripts' callbacks never raise ordinary exceptions) is the
            # library failing on its own
            m = (f"the call ended with {v.delivery[1]}: {str(v.delivery[2])[:160]} — raised by the library itself, not by the operation "
                 f"or a callback") if v.delivery and v.delivery[0] == "other_exc" else f(v)
        except Exception as e:  # an oracle crash on a weird trace is reported, not hidden
            m = f"oracle could not interpret the trace: {type(e).__name__}: {e}"
        if m:
            return f"call #{j} ({v.call['entry']}.{v.mode}{' async' if v.call['async'] else ''}): {m}"
    return None
